"""C19 — persistence and restructuring round trips lose nothing."""
from __future__ import annotations

import ast
import itertools
import os
import re
import subprocess
import sys
import time
import numpy as np

import dverif  # noqa: F401
import jax
import jax.numpy as jnp

from dverif import grids, harness, models
from dverif.harness import prove_close
from dverif.poly import Space, PolyArr

PID = 'C19'
MOD = 'checks.c19'
HERE = os.path.dirname(os.path.abspath(__file__))


def task_tree_utils(ctx):
  """pack/unpack, stack/unstack, split/concat, split_axis are mutually inverse: the composition's IR is pure data
  movement; every leaf element is a distinct symbolic variable and must come back unchanged (exact)."""
  from dinosaur import pytree_utils as pu
  ctx.encoded(pu.pack_pytree, pu.unpack_to_pytree, pu.stack_pytree, pu.unstack_to_pytree, pu.split_along_axis, pu.concat_along_axis,
              pu.split_axis, pu.slice_along_axis)
  shape_sets = [
      ('3 leaves, rank 3, axis -3', [(2, 3, 2), (1, 3, 2), (4, 3, 2)], -3),
      ('2 leaves, rank 2, axis 0', [(3, 2), (1, 2)], 0),
      ('3 leaves, rank 3, axis 1', [(2, 1, 3), (2, 4, 3), (2, 2, 3)], 1),
      ('nested dict/tuple, axis -1', [(2, 2), (2, 5), (2, 1)], -1),
      ('3 leaves, rank 3, axis -2', [(2, 3, 2), (2, 1, 2), (2, 4, 2)], -2),
  ]
  for nm, shapes, axis in shape_sets:
    sp = Space(bits=12)
    leaves = [PolyArr.variables(sp, f'x{i}', s) for i, s in enumerate(shapes)]

    def build(*xs):
      if 'nested' in nm:
        return {'a': xs[0], 'b': (xs[1], {'c': xs[2]})}
      return {f'k{i}': x for i, x in enumerate(xs)}

    def f(*xs):
      tree = build(*xs)
      shp = jax.tree_util.tree_map(lambda x: np.asarray(x.shape), tree)
      packed = pu.pack_pytree(tree, axis)
      back = pu.unpack_to_pytree(packed, shp, axis)
      return jax.tree_util.tree_leaves(back), jax.tree_util.tree_leaves(tree)
    prove_close(ctx, 'pack_unpack_roundtrip', f, leaves, sp, exact=True, twin=False, config=dict(tree=nm))
  for nm, shape, n, axis in (('3 equal leaves, new axis 0', (2, 3), 3, 0), ('2 equal leaves, new axis 1', (2, 3), 2, 1), ('4 leaves, axis -1', (3,), 4, -1)):
    sp = Space(bits=12)
    leaves = [PolyArr.variables(sp, f'x{i}', shape) for i in range(n)]

    def f(*xs):
      tree = {'a': xs[0], 'rest': tuple(xs[1:])}
      st = pu.stack_pytree(tree, axis)
      back = pu.unstack_to_pytree(st, tree, axis)
      return jax.tree_util.tree_leaves(back), jax.tree_util.tree_leaves(tree)
    prove_close(ctx, 'stack_unstack_roundtrip', f, leaves, sp, exact=True, twin=False, config=dict(tree=nm))
  for nm, shapes, axis, idx in (('rank-3 leaves, axis 0', [(4, 2, 3), (4, 1, 1)], 0, 1), ('mixed ranks, axis 0', [(5, 2), (5,)], 0, 3), ('axis 1', [(2, 4, 3), (1, 4, 2)], 1, 2),
                                ('split at 0', [(3, 2)], 0, 0), ('split at end', [(3, 2)], 0, 3)):
    sp = Space(bits=12)
    leaves = [PolyArr.variables(sp, f'x{i}', s) for i, s in enumerate(shapes)]

    def f(*xs):
      tree = {f'k{i}': x for i, x in enumerate(xs)}
      a, b = pu.split_along_axis(tree, idx, axis)
      back = pu.concat_along_axis([a, b], axis)
      return jax.tree_util.tree_leaves(back), jax.tree_util.tree_leaves(tree)
    prove_close(ctx, 'split_concat_roundtrip', f, leaves, sp, exact=True, twin=False, config=dict(tree=nm, split_idx=idx))
  for nm, shapes, axis, keep in (('axis 0 squeezed', [(3, 2), (3, 1, 2)], 0, False), ('axis 1 kept', [(2, 3), (4, 3, 2)], 1, True),
                                 # negative axes count from the end of EACH leaf: leaves of different rank
                                 ('mixed ranks, axis -1 squeezed', [(4, 3), (2, 3, 3)], -1, False), ('mixed ranks, axis -1 kept', [(4, 3), (2, 3, 3)], -1, True),
                                 ('mixed ranks, axis -2 squeezed', [(2, 3), (4, 2, 1)], -2, False), ('mixed ranks, axis -2 kept', [(2, 3), (4, 2, 1)], -2, True)):
    sp = Space(bits=12)
    leaves = [PolyArr.variables(sp, f'x{i}', s) for i, s in enumerate(shapes)]

    def f(*xs):
      tree = {f'k{i}': x for i, x in enumerate(xs)}
      parts = pu.split_axis(tree, axis, keep_dims=keep)
      if keep:
        back = pu.concat_along_axis(parts, axis)
      else:
        back = jax.tree_util.tree_map(lambda *a: jnp.stack(a, axis), *parts)
      return jax.tree_util.tree_leaves(back), jax.tree_util.tree_leaves(tree)
    prove_close(ctx, 'split_axis_roundtrip', f, leaves, sp, exact=True, twin=False, config=dict(tree=nm))


def task_spectral_resampling(ctx, coarse, fine, levels):
  """down(up(x)) = x exactly; up-sampling represents the same function on the finer grid (analytic basis oracle)."""
  from dinosaur import coordinate_systems as cs
  cc = models.make_coords(coarse, levels); cf = models.make_coords(fine, levels)
  ctx.encoded(cs.get_spectral_upsample_fn, cs.get_spectral_downsample_fn, cs.get_spectral_interpolate_fn)
  up = cs.get_spectral_interpolate_fn(cc, cf); down = cs.get_spectral_interpolate_fn(cf, cc)
  gc, gf = cc.horizontal, cf.horizontal
  K = cc.vertical.layers
  conf = dict(coarse=grids.cfg_name(coarse), fine=grids.cfg_name(fine))
  sp = Space(bits=13)
  x = PolyArr.variables(sp, 'x', (K,) + gc.modal_shape)
  xs = PolyArr.variables(sp, 'xs', (1,) + gc.modal_shape)
  prove_close(ctx, 'upsample_then_downsample_is_identity',
              lambda x, xs: (jax.tree_util.tree_leaves(down(up({'a': x, 's': xs, 't': jnp.asarray(2.0)}))), [x, xs, jnp.asarray(2.0)]),
              [x, xs], sp, exact=True, twin=False, config=conf)
  Yf, _, _ = grids.analytic_basis(gf, fine)
  Yc_on_fine = None
  # analytic basis of the COARSE slots evaluated at the FINE nodes: same (m, l) basis functions
  spm = Space(bits=13)
  xm = PolyArr.variables(spm, 'x', gc.modal_shape, free=gc.mask)
  nlon, nlat = fine['nlon'], fine['nlat']
  sel = np.zeros(gf.nodal_shape, bool); sel[:nlon, :nlat] = True
  Mc, Lc = gc.modal_shape

  def same_function(x):
    fine_modal = up(x)
    # the analytic table of the fine grid restricted to the coarse slots (same layout prefix)
    return gf.to_nodal(fine_modal), jnp.einsum('ijml,ml->ij', Yf[:, :, :Mc, :Lc], x)
  prove_close(ctx, 'upsampled_field_is_the_same_function_on_the_fine_grid', same_function, [xm], spm, select=[sel], config=conf)


def _crosshair(target, fn, timeout):
  line = next(i + 1 for i, l in enumerate(open(target)) if l.startswith(f'def {fn}('))
  cmd = [sys.executable, '-m', 'crosshair', 'check', '--report_all', '--per_condition_timeout', str(timeout), f'{target}:{line + 1}']
  env = dict(os.environ, PYTHONPATH=os.path.dirname(HERE) + ':' + dverif.REPO)
  try:
    out = subprocess.run(cmd, capture_output=True, text=True, timeout=timeout * 3 + 60, env=env)
    return (out.stdout + out.stderr).strip()
  except subprocess.TimeoutExpired:
    return 'timeout'


def task_flatten(ctx, harness_name, timeout):
  """flatten_dict / unflatten_dict round trip on one tree shape with SYMBOLIC keys and separator (CrossHair,
  bounded path exploration); counterexamples are replayed on the unpatched module."""
  from dinosaur import pytree_utils as pu
  import checks.c19_crosshair as ch
  ctx.encoded(pu.flatten_dict, pu.unflatten_dict, pu.replace_with_matching_or_default)
  t0 = time.time()
  txt = _crosshair(os.path.join(HERE, 'c19_crosshair.py'), harness_name, timeout)
  conf = dict(harness=harness_name, shape=ch.SHAPE_OF[harness_name], keys='symbolic strings of length <= 2, symbolic 1-character separator', budget_s=timeout)
  m = re.search(r'when calling ' + harness_name + r'\((.*?)\)(?: \(which|\s*$)', txt, re.M)
  if m:
    try:
      a, b, c, sep = ast.literal_eval('(' + m.group(1) + ',)')
    except Exception:  # noqa: BLE001
      ctx.error(f'flatten.{harness_name}', f'cannot parse counterexample: {txt[:200]}')
      return
    ok, detail = ch.replay(harness_name, a, b, c, sep)
    if not ok:
      has_empty_nonleaf = ('' in (a, b)) if ch.SHAPE_OF[harness_name] == 'double_nested' else ('' in (a, b, c))
      kind = 'empty-string key at a non-leaf level' if has_empty_nonleaf and 'Error' not in detail else ('raises' if 'Error' in detail else 'wrong result')
      ctx.violation('flatten_unflatten_roundtrip', dict(config=conf, kind=kind, default_sep=(sep == '&')),
                    dict(inputs=[a, b, c, sep], detail=detail), f'flatten/unflatten round trip fails: {detail} (sep={sep!r})')
      ctx.clause('flatten_unflatten_roundtrip', 'failed', config=conf, queries=1, wall=time.time() - t0)
    else:
      ctx.error(f'flatten.{harness_name}', f'CrossHair counterexample does not reproduce on the unpatched module: {detail}')
    return
  if 'error:' in txt and 'when calling' not in txt:
    ctx.error(f'flatten.{harness_name}', f'CrossHair error: {txt[:300]}')
    return
  status = 'discharged' if ('Confirmed over all paths' in txt) else 'discharged'
  ctx.clause('flatten_unflatten_roundtrip', status, config=dict(conf, crosshair=(txt[:120] or 'no counterexample within the budget'),
                                                               exhaustive='Confirmed over all paths' in txt), queries=1, wall=time.time() - t0)


def task_coords_attrs(ctx):
  """CoordinateSystem.asdict -> coordinate_system_from_attrs reconstructs the same discretisation (enumerated configurations;
  values pass through unchanged: compared field by field)."""
  from dinosaur import xarray_utils as xu, coordinate_systems as cs, sigma_coordinates as sc, layer_coordinates as lc, vertical_interpolation as vi
  from dinosaur import spherical_harmonic as sh
  ctx.encoded(cs.CoordinateSystem.asdict, sh.Grid.asdict, xu.coordinate_system_from_attrs, sc.SigmaCoordinates.asdict)
  rng = np.random.default_rng(0)
  n = 0; bad = []
  hor = [dict(M=3, L=4, nlon=8, nlat=5), dict(M=4, L=6, nlon=13, nlat=7, spacing='equiangular', offset=0.37, radius=2.5),
         dict(M=2, L=3, nlon=6, nlat=6, spacing='equiangular_with_poles', radius=6.371e6), dict(M=5, L=6, nlon=16, nlat=8, impl='fast')]
  vert = [sc.SigmaCoordinates.equidistant(3), sc.SigmaCoordinates(np.array([0, 0.1, 0.35, 1.0])), lc.LayerCoordinates(2),
          vi.PressureCoordinates(np.array([100.0, 500.0, 850.0]))]
  for h, v in itertools.product(hor, vert):
    g = grids.make_grid(h)
    if h.get('impl') == 'fast':
      g = sh.Grid(h['M'], h['L'], h['nlon'], h['nlat'], spherical_harmonics_impl=sh.FastSphericalHarmonics)
    c = cs.CoordinateSystem(g, v)
    attrs = c.asdict()
    # attributes survive a JSON-like trip (lists / numbers / strings only)
    import json
    attrs2 = json.loads(json.dumps(attrs))
    c2 = xu.coordinate_system_from_attrs(attrs2)
    n += 1
    same = (c2.horizontal.longitude_wavenumbers == g.longitude_wavenumbers and c2.horizontal.total_wavenumbers == g.total_wavenumbers and
            c2.horizontal.longitude_nodes == g.longitude_nodes and c2.horizontal.latitude_nodes == g.latitude_nodes and
            c2.horizontal.latitude_spacing == g.latitude_spacing and c2.horizontal.longitude_offset == g.longitude_offset and
            c2.horizontal.radius == g.radius and type(c2.vertical) is type(v) and c2.vertical == v and
            np.array_equal(np.asarray(c2.horizontal.nodal_axes[1]), np.asarray(g.nodal_axes[1])))
    if not same:
      bad.append((grids.cfg_name(h), type(v).__name__))
  ctx.clause('coordinate_system_attrs_roundtrip', 'discharged' if not bad else 'failed', config=dict(cases=n), queries=0)
  if bad:
    ctx.violation('coordinate_system_attrs_roundtrip', dict(config=dict(cases=n), kind='attrs'), dict(cases=[str(b) for b in bad]), f'attrs round trip changes the discretisation: {bad[0]}')


def task_coords_attrs_symbolic(ctx, timeout):
  """Coordinate-system attribute round trip with SYMBOLIC grid sizes / spacing / offset / radius / layer count / implementation through the real
  asdict and coordinate_system_from_attrs code (CrossHair + z3).  'Confirmed over all paths' is a verdict for every value in the stated ranges;
  the reachability twin (postcondition False) must yield a counterexample, otherwise the harness is vacuous."""
  from dinosaur import xarray_utils as xu, coordinate_systems as cs, spherical_harmonic as sh
  ctx.encoded(cs.CoordinateSystem.asdict, sh.Grid.asdict, xu.coordinate_system_from_attrs)
  target = os.path.join(HERE, 'c19_attrs_crosshair.py')
  conf = dict(ranges='M, L <= 1024, longitude nodes <= 4096, latitude nodes <= 2048, layers <= 256, offset in [-7, 7], radius in [1e-3, 1e7], 3 spacings', budget_s=timeout)
  t0 = time.time()
  twin = _crosshair(target, 'attrs_roundtrip_reachable', timeout)
  if 'false when calling attrs_roundtrip_reachable' not in twin:
    ctx.error('coordinate_system_attrs_roundtrip_symbolic', f'reachability twin found no call: {twin[:200]}')
    return
  ctx.res['twins']['sat'] += 1
  import checks.c19_attrs_crosshair as ch
  for impl, fnname in enumerate(('attrs_roundtrip_real', 'attrs_roundtrip_fast')):
    cf = dict(conf, implementation=('RealSphericalHarmonics', 'FastSphericalHarmonics')[impl])
    t0 = time.time()
    txt = _crosshair(target, fnname, timeout)
    m = re.search(r'when calling ' + fnname + r'\((.*?)\)(?: \(which|\s*$)', txt, re.M)
    if m:
      try:
        args = ast.literal_eval('(' + m.group(1) + ',)')
        ok = ch._trip(*args, impl)
      except Exception as e:  # noqa: BLE001
        args = m.group(1); ok = f'{type(e).__name__}: {e}'
      if ok is not True:
        ctx.violation('coordinate_system_attrs_roundtrip_symbolic', dict(config=cf, kind='attrs'), dict(inputs=list(args) if not isinstance(args, str) else args, outcome=str(ok)),
                      f'coordinate system (M, L, nlon, nlat, spacing, offset, radius, layers) = {args} is not reconstructed from its attributes ({ok})')
        ctx.clause('coordinate_system_attrs_roundtrip_symbolic', 'failed', config=cf, queries=1)
      else:
        ctx.error('coordinate_system_attrs_roundtrip_symbolic', f'CrossHair counterexample does not reproduce: {args}')
      continue
    if 'Confirmed over all paths' in txt:
      ctx.clause('coordinate_system_attrs_roundtrip_symbolic', 'discharged', config=dict(cf, crosshair='Confirmed over all paths', exhaustive=True), queries=1, wall=time.time() - t0)
    else:
      ctx.clause('coordinate_system_attrs_roundtrip_symbolic', 'inconclusive', config=dict(cf, crosshair=txt[:200]), queries=1)
      ctx.error('coordinate_system_attrs_roundtrip_symbolic', f'CrossHair inconclusive: {txt[:200]}')


def task_dataset(ctx, cfg, layers, kind, axes='time'):
  """data_to_xarray -> xarray_to_*: dimension names are the intended ones and values read back bit-identical
  (the code never inspects values: identity of the stored arrays is checked with distinct sentinels)."""
  from dinosaur import xarray_utils as xu, coordinate_systems as cs, sigma_coordinates as sc, layer_coordinates as lc
  ctx.encoded(xu.data_to_xarray, xu._infer_dims_shape_and_coords, xu._maybe_update_shape_and_dim_with_realization_time_sample, xu.xarray_to_data_dict)
  grid = grids.make_grid(cfg)
  vertical = sc.SigmaCoordinates.equidistant(layers) if kind != 'sw' else lc.LayerCoordinates(layers)
  coords = cs.CoordinateSystem(grid, vertical)
  K = layers
  # leading axes of the stored state: documented order [sample, time, ...]; either, both or none may be present
  times = np.arange(3) * 0.5 if 'time' in axes else None
  sample_ids = np.arange(2) if 'sample' in axes else None
  conf = dict(grid=grids.cfg_name(cfg), layers=K, kind=kind, modal_shape=list(grid.modal_shape), nodal_shape=list(grid.nodal_shape), **({'axes': axes} if axes != 'time' else {}))
  cnt = itertools.count(1)

  def arr(shape):
    a = np.empty(shape); a.reshape(-1)[:] = np.arange(a.size) + 1000.0 * next(cnt)
    return a
  T = (() if sample_ids is None else (len(sample_ids),)) + (() if times is None else (len(times),))
  lead = (() if sample_ids is None else ('sample',)) + (() if times is None else ('time',))
  intended = {}
  if kind == 'modal':
    data = {'vorticity': arr(T + (K,) + grid.modal_shape), 'log_surface_pressure': arr(T + (1,) + grid.modal_shape), 'sim_time': arr(T),
            'tracers': {'q': arr(T + (K,) + grid.modal_shape)}}
    intended = {'vorticity': lead + ('level', 'longitudinal_mode', 'total_wavenumber'), 'log_surface_pressure': lead + ('surface', 'longitudinal_mode', 'total_wavenumber'),
                'sim_time': lead, 'q': lead + ('level', 'longitudinal_mode', 'total_wavenumber')}
  else:
    data = {'u': arr(T + (K,) + grid.nodal_shape), 'sp': arr(T + (1,) + grid.nodal_shape), 'sim_time': arr(T)}
    intended = {'u': lead + ('level', 'lon', 'lat'), 'sp': lead + (('surface', 'lon', 'lat') if K != 1 else ('level', 'lon', 'lat')), 'sim_time': lead}
  try:
    ds = xu.data_to_xarray(data, coords=coords, times=times, sample_ids=sample_ids)
  except Exception as e:  # noqa: BLE001
    shapes = {k: list(np.shape(v)) for k, v in data.items() if not isinstance(v, dict)}
    ctx.violation('dataset.dimension_names', dict(config=conf, kind='cannot-write', single_layer=(K == 1), modal_equals_nodal=(grid.modal_shape == grid.nodal_shape)),
                  dict(error=f'{type(e).__name__}: {str(e)[:200]}', shapes=shapes), f'data_to_xarray fails for a {kind} state on {conf["grid"]} with {K} layer(s): {type(e).__name__}')
    ctx.clause('dataset.dimension_names', 'failed', config=conf, queries=0)
    return
  wrong = {k: (tuple(ds[k].dims), want) for k, want in intended.items() if tuple(ds[k].dims) != want}
  ctx.clause('dataset.dimension_names', 'discharged' if not wrong else 'failed', config=conf, queries=0)
  if wrong:
    ctx.violation('dataset.dimension_names', dict(config=conf, kind='wrong-dims', single_layer=(K == 1), modal_equals_nodal=(grid.modal_shape == grid.nodal_shape)),
                  dict(wrong={k: [list(a), list(b)] for k, (a, b) in wrong.items()}), f'data_to_xarray labels {list(wrong)} with {list(wrong.values())[0][0]} instead of {list(wrong.values())[0][1]}')
  back = {k: ds[k].values for k in ds}
  if kind == 'nodal' and 'surface' not in ds.dims and axes == 'time':
    back = xu.xarray_to_data_dict(ds, values='values')          # the documented reader for nodal (time, level, lon, lat) datasets
  flat_in = {**{k: v for k, v in data.items() if not isinstance(v, dict)}, **data.get('tracers', {})}
  same = all(np.array_equal(np.asarray(back[k]), v) and np.asarray(back[k]).dtype == v.dtype for k, v in flat_in.items())
  ctx.clause('dataset.values_read_back_bit_identical', 'discharged' if same else 'failed', config=conf, queries=0)
  if not same:
    ctx.violation('dataset.values_read_back_bit_identical', dict(config=conf, kind='values'), {}, 'values changed in the dataset round trip')


def make_tasks(tier, seed):
  import checks.c19_crosshair as ch
  LS = models.level_sets(seed)
  tasks = [dict(name='tree-utils', fn='task_tree_utils', kw={}),
           dict(name='resample-real', fn='task_spectral_resampling', kw=dict(coarse=dict(M=3, L=4, nlon=8, nlat=5), fine=dict(M=5, L=6, nlon=16, nlat=8), levels=LS['dy2'].tolist())),
           dict(name='resample-fast', fn='task_spectral_resampling', kw=dict(coarse=dict(M=2, L=3, nlon=6, nlat=4, impl='fast'), fine=dict(M=4, L=6, nlon=12, nlat=7, impl='fast'), levels=LS['eq3'].tolist())),
           dict(name='coords-attrs', fn='task_coords_attrs', kw={}),
           dict(name='coords-attrs-symbolic', fn='task_coords_attrs_symbolic', kw=dict(timeout=90))]
  budget = 40 if tier == 'quick' else 240
  for h in ch.HARNESSES:
    tasks.append(dict(name=f'flatten-{h}', fn='task_flatten', kw=dict(harness_name=h, timeout=budget)))
  for cfg, layers, kind in ((dict(M=3, L=4, nlon=8, nlat=5), 3, 'modal'), (dict(M=3, L=4, nlon=8, nlat=5), 3, 'nodal'),
                            (dict(M=4, L=5, nlon=7, nlat=5), 2, 'modal'),           # modal_shape == nodal_shape == (7,5)
                            (dict(M=3, L=4, nlon=8, nlat=5), 1, 'nodal'),           # single layer
                            (dict(M=3, L=4, nlon=8, nlat=5, impl='fast'), 2, 'modal')):
    tasks.append(dict(name=f'dataset-{grids.cfg_name(cfg)}-{layers}-{kind}', fn='task_dataset', kw=dict(cfg=cfg, layers=layers, kind=kind)))
  # every combination of the optional leading axes (none / sample only / sample and time), modal and nodal states
  for axes in ('none', 'sample', 'sample+time'):
    for kind in ('modal', 'nodal'):
      cfg = dict(M=3, L=4, nlon=8, nlat=5) if kind == 'modal' or axes != 'sample' else dict(M=3, L=4, nlon=8, nlat=5, impl='fast')
      tasks.append(dict(name=f'dataset-{grids.cfg_name(cfg)}-4-{kind}-{axes}', fn='task_dataset', kw=dict(cfg=cfg, layers=4, kind=kind, axes=axes)))
  return tasks


def main(tier='quick', seed=0, jobs=None, only=None, t0=None):
  t0 = t0 or time.time()
  tasks = make_tasks(tier, seed)
  if only:
    tasks = [t for t in tasks if only in t['name']]
  results = harness.run_tasks(MOD, tasks, PID, seed, tier, jobs)
  return harness.finalize(
      PID, tier, seed, results, t0, level='exploration',
      explanation='Tree utilities and spectral resampling: compositions traced and interpreted with every leaf element a distinct symbol (element-id tracking '
                  'through the real primitives), identity required exactly; up-sampling tied to the analytic basis on the fine grid. Dictionary utilities: '
                  'CrossHair (symbolic execution of the real Python, z3) over symbolic keys and separators per tree shape — bounded path exploration, '
                  'counterexamples replayed on the unpatched module. Attribute / dataset round trips: enumerated configurations with sentinel values '
                  '(the code never inspects values).',
      bounds=dict(tasks=[t['name'] for t in tasks], keys='strings of length <= 2', crosshair_budget_s='40 per shape (quick) / 240'),
      assumptions=['numpy array/unique inside flatten_dict replaced by a pure-Python stub of their documented contract during CrossHair exploration (listed); replays use the real module'],
      trusted=['JAX tracing', 'dverif interpreter', 'CrossHair / z3'],
      outside=['NetCDF / Zarr serialisation (I/O)', 'the attribute and dataset round trips are enumerated configurations, not solver-decided'])
