"""C06 — IMEX integrators reach their design order and never amplify stiff linear modes."""
from __future__ import annotations

import itertools
import time
import numpy as np

import dverif  # noqa: F401
import jax
import jax.numpy as jnp
import jax.tree_util as jtu

from dverif import harness, smt
from dverif.harness import prove_close
from dverif.poly import ExpSpace, Space, PolyArr, h_coefficient, h_integrate
from dverif.jsym import Interp
from dverif.term import TermArr, TermSpace

PID = 'C06'
MOD = 'checks.c06'

METHODS = ['backward_forward_euler', 'crank_nicolson_rk2', 'crank_nicolson_rk3', 'crank_nicolson_rk4', 'imex_rk_sil3']
# design orders: (general, G = 0, G = 0 and F linear)
ORDERS = {'backward_forward_euler': (1, 1, 1), 'crank_nicolson_rk2': (2, 2, 2), 'crank_nicolson_rk3': (2, 3, 3),
          'crank_nicolson_rk4': (2, 4, 4), 'imex_rk_sil3': (2, 2, 3)}


def _sel(P, i):
  return P.take(np.array(i))


# ---------------------------------------------------------------------------
def _problem(kind, sp):
  """Returns (vars dict, F, G, Ginv, u0 list, flow) for the test ODE u' = F(u) + G u."""
  V = {}
  if kind == 'scalar':
    V['a'] = PolyArr.variables(sp, 'a', (4,))
    V['mu'] = PolyArr.variables(sp, 'mu', ())
    V['u0'] = PolyArr.variables(sp, 'u0', (1,))
    args = [V['a'], V['mu'], V['u0']]

    def make(a, mu, u0, G_on=True, linear=False):
      def F(u):
        r = a[0] + a[1] * u
        if not linear:
          r = r + a[2] * u * u + a[3] * u * u * u
        return r
      G = (lambda u: mu * u) if G_on else (lambda u: 0.0 * u)
      Ginv = (lambda x, eta: x / (1 - eta * mu)) if G_on else (lambda x, eta: x)
      return F, G, Ginv, u0
    return args, make
  # non-autonomous scalar written as an autonomous 2-vector u = (t, y): separates all trees up to order 4
  V['c'] = PolyArr.variables(sp, 'c', (10,))
  V['mu'] = PolyArr.variables(sp, 'mu', ())
  V['u0'] = PolyArr.variables(sp, 'u0', (2,))
  args = [V['c'], V['mu'], V['u0']]
  exps = [(i, j) for i in range(4) for j in range(4) if i + j <= 3]

  def make(c, mu, u0, G_on=True, linear=False):
    def F(u):
      t, y = u[0], u[1]
      p = 0.0
      for k, (i, j) in enumerate(exps):
        if linear and i + j > 1:
          continue                      # F linear in the state vector (t, y)
        p = p + c[k] * (t ** i) * (y ** j)
      return jnp.stack([jnp.ones_like(t), p])
    e1 = jnp.array([0.0, 1.0])
    G = (lambda u: mu * u * e1) if G_on else (lambda u: 0.0 * u)
    Ginv = (lambda x, eta: x / (1 - eta * mu * e1)) if G_on else (lambda x, eta: x)
    return F, G, Ginv, u0
  return args, make


def _flow_series(sp, F_sym, G_sym, u0, order):
  """Taylor series of the exact flow in h by Picard iteration (series arithmetic)."""
  u = u0
  for _ in range(order + 1):
    u = u0.add(h_integrate(F_sym(u).add(G_sym(u))))
  return u


def task_order(ctx, method, problem, variant):
  """h-Taylor coefficients of step(u0) - flow_h(u0) vanish up to the design order for ALL ODE
  coefficients, mu and u0 in the box; the next coefficient does not (twin)."""
  from dinosaur import time_integration as ti
  G_on = variant == 'general'
  linear = variant == 'G0_linearF'
  p = ORDERS[method][0 if G_on else (2 if linear else 1)]
  N = p + 1
  sp = ExpSpace(ebits=4, series_var='h', series_order=N)
  h = PolyArr.variables(sp, 'h', (), lo=0.0, hi=1.0)
  args, make = _problem(problem, sp)
  ctx.encoded(getattr(ti, method), ti.low_storage_runge_kutta_crank_nicolson, ti.imex_runge_kutta)

  def step(h, *a):
    F, G, Ginv, u0 = make(*a, G_on=G_on, linear=linear)
    eq = ti.ImplicitExplicitODE.from_functions(F, G, Ginv)
    return getattr(ti, method)(eq, h)(u0)
  outs, td, it = harness.interpret(step, [h] + args, sp)
  num = outs[0]
  # exact flow expansion with the same symbolic right-hand side (interpreted through the same domain)
  def rhs(kind):
    def f(h, *a):
      F, G, Ginv, u0 = make(*a, G_on=G_on, linear=linear)
      return F, G
    return f
  # evaluate F and G symbolically by tracing them once
  def FG(u, *a):
    F, G, Ginv, u0 = make(*a, G_on=G_on, linear=linear)
    return F(u) + G(u)
  u0 = args[-1]
  clos = jax.make_jaxpr(FG)(jnp.zeros(u0.shape), *[jnp.zeros(x.shape) for x in args])
  interp = Interp(sp)
  fsym = lambda u: interp.run(clos, u, *args)[0]
  flow = u0
  for _ in range(N + 1):
    flow = u0.add(h_integrate(fsym(flow)))
  diff = num.add(flow, -1.0)
  conf = dict(method=method, problem=problem, variant=variant, design_order=p)
  # translator validation: numeric step vs series at small h
  xv = sp.random_point(ctx.rng); xv[0] = 1e-2
  conc = [np.asarray(a.evaluate(xv)) for a in [h] + args]
  ref = np.asarray(jax.jit(step)(*conc))
  err = float(np.abs(num.evaluate(xv) - ref).max())
  if err > 1e-2 ** (N + 1) * 1e3:
    raise harness.HarnessError(f'series translation mismatch {err:.2e}')
  ctx.res['validations'] += 1
  for k in range(0, p + 1):
    ck = h_coefficient(diff, k)
    ref_k = h_coefficient(flow, k)
    prove_close(ctx, f'order.taylor_coefficient_h{k}_matches_exact_flow', None, args, sp, eps=1e-9,
                scale_floor=1.0, config=conf, validate=False, twin=False,
                pre=([h_coefficient(num, k), ref_k], jtu.tree_structure((0, 0)), interp))
  # sharpness twin: the h^(p+1) coefficient is NOT identically zero (the harness can see an order defect)
  ck = h_coefficient(diff, p + 1)
  worst = float(ck.mass().max())
  ctx.clause('order.next_coefficient_nonzero(twin)', 'discharged' if worst > 1e-6 else 'failed', config=conf, queries=0, mass=worst)
  if worst <= 1e-6:
    ctx.error('order.twin', f'{method}/{variant}: h^{p + 1} coefficient vanishes — order higher than designed or harness blind')
  else:
    ctx.res['twins']['sat'] += 1


def task_leapfrog_consistency(ctx):
  """Leapfrog fed exact u(t-h), u(t): local truncation error O(h^3) (second-order consistent)."""
  from dinosaur import time_integration as ti
  N = 3
  sp = ExpSpace(ebits=4, series_var='h', series_order=N)
  h = PolyArr.variables(sp, 'h', (), lo=0.0, hi=1.0)
  args, make = _problem('scalar', sp)
  ctx.encoded(ti.semi_implicit_leapfrog)
  interp = Interp(sp)

  def FG(u, *a):
    F, G, Ginv, u0 = make(*a)
    return F(u) + G(u)
  u0 = args[-1]
  clos = jax.make_jaxpr(FG)(jnp.zeros(u0.shape), *[jnp.zeros(x.shape) for x in args])
  fsym = lambda u: interp.run(clos, u, *args)[0]
  flow = u0
  for _ in range(N + 1):
    flow = u0.add(h_integrate(fsym(flow)))
  # u(t-h): substitute h -> -h in the flow series: flip the sign of odd coefficients
  back = h_coefficient(flow, 0)
  hh = h
  for k in range(1, N + 1):
    term = h_coefficient(flow, k)
    hk = h
    for _ in range(k - 1):
      hk = hk.mul(h)
    back = back.add(term.mul(hk).scale((-1.0) ** k))
  for alpha in (0.5, 0.7):
    def step(h, prev, *a):
      F, G, Ginv, u0 = make(*a)
      eq = ti.ImplicitExplicitODE.from_functions(F, G, Ginv)
      cur, fut = ti.semi_implicit_leapfrog(eq, h, alpha)((prev, u0))
      return fut
    outs, td, _ = harness.interpret(step, [h, back] + args, sp)
    diff = outs[0].add(flow, -1.0)
    conf = dict(method='semi_implicit_leapfrog', alpha=alpha)
    kmax = 2 if alpha == 0.5 else 1        # centred (alpha = 1/2): O(h^3) local error; off-centred: first order
    for k in range(0, kmax + 1):
      prove_close(ctx, f'leapfrog.local_truncation_h{k}_vanishes', None, args, sp, scale_floor=1.0, config=conf, validate=False, twin=False,
                  pre=([h_coefficient(outs[0], k), h_coefficient(flow, k)], jtu.tree_structure((0, 0)), interp))


def task_reduction(ctx):
  """With G = 0 each scheme equals the explicit method written from its tableau; with F = 0 the
  product of its Crank-Nicolson / DIRK sub-steps (truncated series identities to O(h^5))."""
  from dinosaur import time_integration as ti
  N = 5
  # --- G = 0
  sp = ExpSpace(ebits=4, series_var='h', series_order=N)
  h = PolyArr.variables(sp, 'h', (), lo=0.0, hi=1.0)
  args, make = _problem('scalar', sp)

  def explicit_reference(method, F, u0, h):
    if method == 'backward_forward_euler':
      return u0 + h * F(u0)
    if method == 'crank_nicolson_rk2':               # Heun
      k1 = F(u0); k2 = F(u0 + h * k1)
      return u0 + h / 2 * (k1 + k2)
    if method == 'crank_nicolson_rk3':               # Williamson (1980) RK3 as a Butcher tableau
      k1 = F(u0); k2 = F(u0 + h * k1 / 3); k3 = F(u0 + h * (-3 / 16 * k1 + 15 / 16 * k2))
      return u0 + h * (1 / 6 * k1 + 3 / 10 * k2 + 8 / 15 * k3)
    if method == 'imex_rk_sil3':                     # explicit tableau of Whitaker & Kar (2013), eq. (SIL3)
      k1 = F(u0); k2 = F(u0 + h * k1 / 3); k3 = F(u0 + h * (k1 / 6 + k2 / 2)); k4 = F(u0 + h * (k1 / 2 - k2 / 2 + k3))
      return u0 + h * (k1 / 2 - k2 / 2 + k3)
    if method == 'crank_nicolson_rk4':               # Carpenter & Kennedy (1994) 2N-storage form
      A = [0, -0.4178904745, -1.192151694643, -1.697784692471, -1.514183444257]
      B = [0.1496590219993, 0.3792103129999, 0.8229550293869, 0.6994504559488, 0.1530572479681]
      du = 0.0; u = u0
      for a_, b_ in zip(A, B):
        du = a_ * du + h * F(u)
        u = u + b_ * du
      return u
    raise KeyError(method)
  for method in METHODS:
    def both(h, *a, method=method):
      F, G, Ginv, u0 = make(*a, G_on=False)
      eq = ti.ImplicitExplicitODE.from_functions(F, G, Ginv)
      return getattr(ti, method)(eq, h)(u0), explicit_reference(method, F, u0, h)
    prove_close(ctx, 'reduction.G0_equals_explicit_method', both, [h] + args, sp, scale_floor=1.0,
                config=dict(method=method, truncated_at='h^5'), validate=False)
  # --- F = 0: implicit part only: u1 = R(h mu) u0 with the documented stability function
  sp2 = ExpSpace(ebits=4, series_var='h', series_order=N)
  h2 = PolyArr.variables(sp2, 'h', (), lo=0.0, hi=1.0)
  mu = PolyArr.variables(sp2, 'mu', ()); u0v = PolyArr.variables(sp2, 'u0', ())
  cn = lambda z: (1 + z / 2) / (1 - z / 2)

  def implicit_reference(method, z):
    if method == 'backward_forward_euler':
      return 1 / (1 - z)
    if method == 'crank_nicolson_rk2':
      return cn(z)
    if method == 'crank_nicolson_rk3':
      al = [0, 1 / 3, 3 / 4, 1]
      r = 1.0
      for k in range(3):
        r = r * cn(z * (al[k + 1] - al[k]))
      return r
    if method == 'crank_nicolson_rk4':
      al = [0, 0.1496590219993, 0.3704009573644, 0.6222557631345, 0.9582821306748, 1]
      r = 1.0
      for k in range(5):
        r = r * cn(z * (al[k + 1] - al[k]))
      return r
    if method == 'imex_rk_sil3':                     # DIRK with the implicit tableau of SIL3
      a_im = [[1 / 6, 1 / 6], [1 / 3, 0, 1 / 3], [3 / 8, 0, 3 / 8, 1 / 4]]
      b_im = [3 / 8, 0, 3 / 8, 1 / 4]
      Y = [1.0]
      for i in range(1, 4):
        s = 1.0 + sum(a_im[i - 1][j] * z * Y[j] for j in range(i))
        Y.append(s / (1 - a_im[i - 1][i] * z))
      return 1.0 + sum(b_im[j] * z * Y[j] for j in range(4))
    raise KeyError(method)
  for method in METHODS:
    def both(h, mu, u0, method=method):
      eq = ti.ImplicitExplicitODE.from_functions(lambda u: 0.0 * u, lambda u: mu * u, lambda x, eta: x / (1 - eta * mu))
      return getattr(ti, method)(eq, h)(u0), implicit_reference(method, h * mu) * u0
    prove_close(ctx, 'reduction.F0_equals_implicit_substeps', both, [h2, mu, u0v], sp2, scale_floor=1.0,
                config=dict(method=method, truncated_at='h^5'), validate=False)
  # leapfrog with F = 0 is the theta-method over 2h with theta = alpha (exact rational identity, cleared denominators)
  for alpha in (0.5, 0.6, 0.75, 1.0):
    sp3 = Space(bits=7)
    hh = PolyArr.variables(sp3, 'h', (), lo=0.0, hi=1.0)
    m3 = PolyArr.variables(sp3, 'mu', (), lo=-1.0, hi=0.0); p0 = PolyArr.variables(sp3, 'prev', ()); c0 = PolyArr.variables(sp3, 'cur', ())

    def lf(h, mu, prev, cur, alpha=alpha):
      eq = ti.ImplicitExplicitODE.from_functions(lambda u: 0.0 * u, lambda u: mu * u, lambda x, eta: x / (1 - eta * mu))
      c, f = ti.semi_implicit_leapfrog(eq, h, alpha)((prev, cur))
      z = 2 * h * mu
      return (f, c), ((1 + (1 - alpha) * z) / (1 - alpha * z) * prev, cur)
    prove_close(ctx, 'reduction.leapfrog_F0_is_theta_method', lf, [hh, m3, p0, c0], sp3, scale_floor=1.0,
                config=dict(alpha=alpha), reduce_atoms=False, clear_denominators=True)


# ---------------------------------------------------------------------------
def _amplification(method, axis, alpha=None):
  """One step on u' = lambda u, lambda = x + i y (dt = 1), as a real 2-vector; returns the terms
  (Re R, Im R) over x, y produced by interpreting the real step function (x = 0 when `axis`)."""
  from dinosaur import time_integration as ti
  sp = TermSpace()

  def step(x, y):
    Gm = lambda u: jnp.stack([x * u[0] - y * u[1], y * u[0] + x * u[1]])

    def Ginv(v, eta):
      a = 1 - eta * x; b = eta * y
      den = a * a + b * b
      return jnp.stack([(a * v[0] - b * v[1]) / den, (b * v[0] + a * v[1]) / den])
    eq = ti.ImplicitExplicitODE.from_functions(lambda u: 0.0 * u, Gm, Ginv)
    u0 = jnp.array([1.0, 0.0])
    if method == 'semi_implicit_leapfrog':
      c, f = ti.semi_implicit_leapfrog(eq, 0.5, alpha)((u0, u0))   # 2 dt = 1
      return f
    return getattr(ti, method)(eq, 1.0)(u0)
  X = np.asarray(0.0) if axis else TermArr.variables(sp, 'x', ())
  Y = TermArr.variables(sp, 'y', ())
  clos = jax.make_jaxpr(step)(jnp.zeros(()), jnp.zeros(()))
  out = Interp(sp).run(clos, X, Y)[0]
  return sp, X, Y, out


def task_stability(ctx, method, alpha=None, plane='axis'):
  """|R(z)| <= 1: on the imaginary axis (univariate) / on the closed left half plane (bivariate)."""
  import z3
  from dinosaur import time_integration as ti
  ctx.encoded(getattr(ti, method))
  sp, X, Y, out = _amplification(method, plane == 'axis', alpha)
  re, im = out.a.reshape(-1)[0], out.a.reshape(-1)[1]
  from dverif.term import R as lift
  re, im = lift(re), lift(im)
  y = Y.a.reshape(-1)[0]
  cons = []
  if plane != 'axis':
    x = X.a.reshape(-1)[0]
    cons.append(x <= 0)
  # definedness: denominators met during interpretation are non-zero on the region (poles in the right half plane)
  conf = dict(method=method, plane=plane, alpha=alpha)
  dens = [t for k, t in sp.obligations if k == 'nonzero']
  if dens:
    v, _ = smt.check_z3(cons + [z3.Or(*[d == 0 for d in dens])], 'QF_NRA', 60000)
    ctx.clause('stability.no_pole_in_closed_left_half_plane', 'discharged' if v == 'unsat' else ('inconclusive' if v == 'unknown' else 'failed'),
               config=conf, queries=1, denominators=len(dens))
    if v == 'sat':
      ctx.violation('stability.no_pole', dict(config=conf), {}, f'{method}: a solve denominator vanishes in the closed left half plane')
    elif v != 'unsat':
      ctx.error('stability.no_pole', f'verdict {v}')
  tol = 1e-12
  q = cons + [re * re + im * im > z3.RealVal(1) + z3.RealVal(smt.Fraction(tol))]
  core = plane == 'axis' or method in ('backward_forward_euler', 'crank_nicolson_rk2', 'semi_implicit_leapfrog', 'imex_rk_sil3')
  v, model = smt.check_z3(q, 'QF_NRA', 120000 if plane == 'axis' else 60000, want_model=True)
  if v == 'unsat':
    ctx.clause('stability.amplification_at_most_one', 'discharged', config=conf, queries=1)
  elif v == 'sat':
    yv = model.eval(y, model_completion=True)
    yf = float(yv.as_fraction()) if z3.is_rational_value(yv) else float(yv.approx(20).as_fraction())
    xf = 0.0
    if plane != 'axis':
      xv = model.eval(X.a.reshape(-1)[0], model_completion=True)
      xf = float(xv.as_fraction()) if z3.is_rational_value(xv) else float(xv.approx(20).as_fraction())
    # replay on the real step function with complex arithmetic
    lam = complex(xf, yf)
    eq = ti.ImplicitExplicitODE.from_functions(lambda u: 0.0 * u, lambda u: lam * u, lambda v_, eta: v_ / (1 - eta * lam))
    if method == 'semi_implicit_leapfrog':
      amp = abs(complex(ti.semi_implicit_leapfrog(eq, 0.5, alpha)((jnp.asarray(1.0 + 0j), jnp.asarray(1.0 + 0j)))[1]))
    else:
      amp = abs(complex(getattr(ti, method)(eq, 1.0)(jnp.asarray(1.0 + 0j))))
    if amp > 1 + 1e-13:
      ctx.violation('stability.amplification_at_most_one', dict(config=conf), dict(inputs=[[xf, yf]], amplification=amp),
                    f'{method} alpha={alpha}: |R({xf}+{yf}i)| = {amp:.6f} > 1')
      ctx.clause('stability.amplification_at_most_one', 'failed', config=conf, queries=1)
    else:
      ctx.error('stability', f'counterexample did not replay: z={lam} amp={amp}')
  else:
    ctx.clause('stability.amplification_at_most_one', 'inconclusive', config=conf, queries=1)
    ctx.res['inconclusive'].append(dict(clause='stability', config=conf, verdict=v))
    if core:
      ctx.error('stability', f'{method} {plane}: solver verdict {v}')
  # vacuity twin: the bound 1 is tight / the query can be sat: ask for |R|^2 > 1 - 1e-3 somewhere
  v2, _ = smt.check_z3(cons + [re * re + im * im > z3.RealVal(smt.Fraction(0.999))], 'QF_NRA', 30000, sample_text=False)
  if v2 == 'sat':
    ctx.res['twins']['sat'] += 1
  elif v2 == 'unsat':
    ctx.error('stability.twin', 'twin query unsat: amplification never approaches 1?')


def task_validation(ctx, which=None):
  """Coefficient lists of inconsistent length are rejected (CrossHair over symbolic lengths)."""
  import subprocess, sys, os, textwrap, tempfile, re
  from dinosaur import time_integration as ti
  ctx.encoded(ti.low_storage_runge_kutta_crank_nicolson, ti.ImExButcherTableau.__post_init__)
  here = os.path.dirname(os.path.abspath(__file__))
  target = os.path.join(here, 'c06_crosshair.py')
  for fn in [which] if which else ('low_storage_accepts_only_consistent_lengths', 'butcher_tableau_accepts_only_consistent_lengths'):
    line = next(i + 1 for i, l in enumerate(open(target)) if l.startswith(f'def {fn}'))
    cmd = [sys.executable, '-m', 'crosshair', 'check', '--report_all', '--per_condition_timeout', '40', f'{target}:{line + 1}']
    t0 = time.time()
    out = subprocess.run(cmd, capture_output=True, text=True, timeout=300, env=dict(os.environ, PYTHONPATH=os.path.dirname(here) + ':' + dverif.REPO))
    txt = (out.stdout + out.stderr).strip()
    conf = dict(harness=fn, per_condition_timeout=40)
    m = re.search(r'when calling \w+\((.*)\)', txt)
    if 'false when calling' in txt or 'error' in txt.lower() and 'when calling' in txt:
      # replay on the real function
      import ast
      cex = m.group(1) if m else ''
      import checks.c06_crosshair as ch
      vals = [int(v) for v in re.findall(r'-?\d+', cex)][:4]
      ok_real = getattr(ch, fn)(*vals[:ch.NARGS[fn]])
      if ok_real is False:
        ctx.violation(f'validation.{fn}', dict(config=conf, lengths=vals), dict(inputs=vals, crosshair=txt[:400]),
                      f'{fn}: lengths {vals} are accepted although inconsistent')
        ctx.clause(f'validation.{fn}', 'failed', config=conf, queries=1, wall=time.time() - t0)
      else:
        ctx.error(f'validation.{fn}', f'CrossHair counterexample did not replay: {txt[:200]}')
    elif 'Confirmed over all paths' in txt or 'confirmed' in txt.lower():
      ctx.clause(f'validation.{fn}', 'discharged', config=conf, queries=1, crosshair=txt[:200], wall=time.time() - t0)
    else:
      ctx.clause(f'validation.{fn}', 'inconclusive', config=conf, queries=1, crosshair=txt[:300], wall=time.time() - t0)
      ctx.res['inconclusive'].append(dict(clause=fn, verdict=txt[:120]))
      ctx.error(f'validation.{fn}', f'CrossHair inconclusive: {txt[:200]}')


class NZ:
  """A symbolic (traced) tableau coefficient that is DECLARED non-zero: truthiness is True (the drivers skip zero entries with
  `if a[i][j]`), arithmetic is that of the wrapped tracer, equality is identity (two slots holding the same symbol are equal)."""
  __array_priority__ = 1000

  def __init__(self, v): self.v = v
  def __bool__(self): return True
  def __mul__(self, o): return self.v * (o.v if isinstance(o, NZ) else o)
  def __rmul__(self, o): return (o.v if isinstance(o, NZ) else o) * self.v
  def __add__(self, o): return self.v + (o.v if isinstance(o, NZ) else o)
  __radd__ = __add__
  def __sub__(self, o): return self.v - (o.v if isinstance(o, NZ) else o)
  def __rsub__(self, o): return (o.v if isinstance(o, NZ) else o) - self.v
  def __neg__(self): return -self.v
  def __eq__(self, o): return self is o
  def __hash__(self): return id(self)


def task_generic_drivers(ctx, which, pattern):
  """The two generic drivers equal their textbook definition for EVERY coefficient set of the given zero pattern and for EVERY
  explicit / implicit / solve operator (uninterpreted functions), every step size and state:
    imex_runge_kutta:  Y_i = Ginv(y0 + dt sum_{j<i} aE_ij F(Y_j) + dt sum_{j<i} aI_ij G(Y_j), dt aI_ii),  Y_0 = y0,
                       y1 = y0 + dt sum_j bE_j F(Y_j) + dt sum_j bI_j G(Y_j)            (Ascher, Ruuth & Spiteri 1997)
    low_storage_runge_kutta_crank_nicolson (Canuto et al. 2007, D.3):
                       h_k = F(u_k) + beta_k h_{k-1},  mu_k = dt (alpha_{k+1} - alpha_k) / 2,
                       u_{k+1} = Ginv(u_k + gamma_k dt h_k + mu_k G(u_k), mu_k)."""
  from dinosaur import time_integration as ti
  from checks.c14 import decide_equal
  from dverif.ufprim import uf
  ctx.encoded(ti.imex_runge_kutta, ti.ImExButcherTableau, ti.low_storage_runge_kutta_crank_nicolson)
  F = lambda y: uf('F', y)
  G = lambda y: uf('G', y)
  Ginv = lambda x, eta: uf('Ginv', x, eta * jnp.ones_like(x))
  eq = ti.ImplicitExplicitODE.from_functions(F, G, Ginv)
  if which == 'imex':
    # pattern: (s, strictly-lower explicit mask rows 1..s-1, lower-incl-diagonal implicit mask rows 1..s-1, b_ex mask, b_im: mask | 'last_row', b_ex: mask | 'last_row')
    s, mE, mI, bE, bI = PATTERNS[pattern]
    slots = []        # flat list of symbol slots

    def build(vals):
      it = iter(vals)
      aE = [[(NZ(next(it)) if mE[i][j] else 0.0) for j in range(i + 1)] for i in range(s - 1)]
      aI = [[(NZ(next(it)) if mI[i][j] else 0.0) for j in range(i + 2)] for i in range(s - 1)]
      be = (aE[-1] + [0.0]) if bE == 'last_row' else [(NZ(next(it)) if bE[j] else 0.0) for j in range(s)]
      bi = list(aI[-1]) if bI == 'last_row' else [(NZ(next(it)) if bI[j] else 0.0) for j in range(s)]
      return aE, aI, be, bi
    nsym = sum(sum(r) for r in mE) + sum(sum(r) for r in mI) + (0 if bE == 'last_row' else sum(bE)) + (0 if bI == 'last_row' else sum(bI))
    val = lambda c: c.v if isinstance(c, NZ) else c

    def impl(dt, y0, coef):
      aE, aI, be, bi = build([coef[k] for k in range(nsym)])
      return ti.imex_runge_kutta(ti.ImExButcherTableau(a_ex=aE, a_im=aI, b_ex=be, b_im=bi), eq, dt)(y0)

    def spec(dt, y0, coef):
      aE, aI, be, bi = build([coef[k] for k in range(nsym)])
      Y = [y0]
      for i in range(1, s):
        acc = y0
        for j in range(i):
          acc = acc + dt * val(aE[i - 1][j]) * F(Y[j]) + dt * val(aI[i - 1][j]) * G(Y[j])
        Y.append(Ginv(acc, dt * val(aI[i - 1][i])))
      y1 = y0
      for j in range(s):
        y1 = y1 + dt * val(be[j]) * F(Y[j]) + dt * val(bi[j]) * G(Y[j])
      return y1
    conf = dict(driver='imex_runge_kutta', pattern=pattern, stages=s, symbolic_coefficients=nsym)
    decide_equal(ctx, 'generic.imex_runge_kutta_equals_definition_for_every_tableau', conf, impl, spec, [(), (2,), (nsym,)], logic='QF_UFNRA', eps=1e-9, box=1.0)
  else:
    n = int(pattern)

    def impl(dt, y0, al, be, ga):
      return ti.low_storage_runge_kutta_crank_nicolson([NZ(al[k]) for k in range(n + 1)], [NZ(be[k]) for k in range(n)], [NZ(ga[k]) for k in range(n)], eq, dt)(y0)

    def spec(dt, y0, al, be, ga):
      u = y0; h = 0.0 * y0
      for k in range(n):
        h = F(u) + be[k] * h
        mu = 0.5 * dt * (al[k + 1] - al[k])
        u = Ginv(u + ga[k] * dt * h + mu * G(u), mu)
      return u
    conf = dict(driver='low_storage_runge_kutta_crank_nicolson', stages=n)
    decide_equal(ctx, 'generic.low_storage_rk_cn_equals_definition_for_every_coefficient_set', conf, impl, spec, [(), (2,), (n + 1,), (n,), (n,)], logic='QF_UFNRA', eps=1e-9, box=1.0)


# zero patterns of IMEX tableaux: 1 = symbolic non-zero entry, 0 = structural zero
PATTERNS = {
    '2-stage-dense': (2, [[1]], [[1, 1]], [1, 1], [1, 1]),
    '3-stage-dense': (3, [[1], [1, 1]], [[1, 1], [1, 1, 1]], [1, 1, 1], [1, 1, 1]),
    '3-stage-stiffly-accurate-implicit-free-b_ex': (3, [[1], [1, 1]], [[0, 1], [0, 1, 1]], [1, 1, 1], 'last_row'),       # ARS(2,3,2) pattern with b_ex unconstrained
    '3-stage-ars232': (3, [[1], [1, 1]], [[0, 1], [0, 1, 1]], [0, 1, 1], 'last_row'),
    '3-stage-both-close-on-last-stage': (3, [[1], [1, 1]], [[1, 1], [1, 1, 1]], 'last_row', 'last_row'),
    '4-stage-sil3-pattern': (4, [[1], [1, 1], [1, 1, 1]], [[1, 1], [1, 0, 1], [1, 0, 1, 1]], [1, 1, 1, 0], 'last_row'),
    '4-stage-ars343-pattern': (4, [[1], [1, 1], [1, 1, 1]], [[0, 1], [0, 1, 1], [0, 1, 1, 1]], [0, 1, 1, 1], 'last_row'),
    '3-stage-explicit-only-diagonal-free': (3, [[1], [1, 1]], [[0, 0], [0, 0, 0]], [1, 1, 1], [0, 0, 0]),
    # stages whose tendency is consumed ONLY by the immediately following stage (zero weight in b): midpoint, Heun's third-order scheme, chains
    '2-stage-midpoint': (2, [[1]], [[0, 1]], [0, 1], [0, 1]),
    '3-stage-heun3-pattern': (3, [[1], [0, 1]], [[0, 1], [0, 0, 1]], [1, 0, 1], [1, 0, 1]),
    '3-stage-chain-b-last-only': (3, [[1], [0, 1]], [[1, 1], [0, 1, 1]], [0, 0, 1], [0, 0, 1]),
    '4-stage-chain-rk4-pattern': (4, [[1], [0, 1], [0, 0, 1]], [[0, 1], [0, 0, 1], [0, 0, 0, 1]], [1, 1, 1, 1], [0, 1, 1, 1]),
    '4-stage-chain-b-last-only': (4, [[1], [0, 1], [0, 0, 1]], [[1, 0], [0, 1, 0], [0, 0, 1, 1]], [0, 0, 0, 1], [0, 0, 1, 1]),
}


def task_dtype_independence(ctx):
  """The value returned by one step does not depend on the storage type of the initial value: the same numbers stored as int64, float64 or complex128
  give the same result (as complex numbers), also when the linear part has complex eigenvalues (the result is then complex for a real initial value).
  Real-arithmetic encodings cannot see storage types, so this clause runs the real steps on concrete values for each dtype (enumeration)."""
  from dinosaur import time_integration as ti
  ctx.encoded(*[getattr(ti, m) for m in METHODS], ti.semi_implicit_leapfrog, ti.low_storage_runge_kutta_crank_nicolson, ti.imex_runge_kutta)
  base = np.array([2, -1, 3])
  bad = []
  n = 0
  for lam in (-0.7, 0.4j, -0.3 + 0.9j):
    F = lambda u: 0.3 * u - 0.05 * u * u
    G = lambda u, lam=lam: lam * u
    Ginv = lambda x, eta, lam=lam: x / (1 - eta * lam)
    eq = ti.ImplicitExplicitODE.from_functions(F, G, Ginv)
    steps = {m: getattr(ti, m)(eq, 0.1) for m in METHODS}
    steps['low_storage(custom)'] = ti.low_storage_runge_kutta_crank_nicolson([0, 0.4, 1], [0, -0.3], [0.4, 0.7], eq, 0.1)
    steps['imex_runge_kutta(midpoint)'] = ti.imex_runge_kutta(ti.ImExButcherTableau(a_ex=[[0.5]], a_im=[[0, 0.5]], b_ex=[0, 1], b_im=[0, 1]), eq, 0.1)
    for mname, st in steps.items():
      ref = np.asarray(st(jnp.asarray(base, dtype=jnp.complex128)))
      for dt in (np.int64, np.float64, np.float32):
        if np.iscomplexobj(lam) and False:
          continue
        n += 1
        try:
          got = np.asarray(st(jnp.asarray(base.astype(dt))))
        except Exception as e:  # noqa: BLE001
          bad.append(f'{mname}, G eigenvalue {lam}, initial value stored as {np.dtype(dt).name}: raises {type(e).__name__}')
          continue
        tol = 1e-5 if dt == np.float32 else 1e-12
        if got.shape != ref.shape or np.abs(got.astype(complex) - ref).max() > tol * max(1.0, np.abs(ref).max()):
          bad.append(f'{mname}, G eigenvalue {lam}, initial value {base.tolist()} stored as {np.dtype(dt).name}: step gives {got.tolist()}, the same numbers stored as complex128 give {ref.tolist()}')
  conf = dict(cases=n, initial_value=base.tolist(), dtypes=['int64', 'float64', 'float32'], eigenvalues=['-0.7', '0.4j', '-0.3+0.9j'])
  ctx.clause('step_value_independent_of_the_storage_type_of_the_initial_value', 'discharged' if not bad else 'failed', config=dict(conf, exhaustive=True), queries=0, elements=n)
  if bad:
    ctx.violation('step_value_independent_of_the_storage_type_of_the_initial_value', dict(config=dict(cases=n), kind='dtype'), dict(problems=bad[:10]), bad[0] + f' ({len(bad)} of {n} cases)')


def make_tasks(tier, seed):
  tasks = []
  for m in METHODS:
    tasks.append(dict(name=f'order-{m}-scalar-general', fn='task_order', kw=dict(method=m, problem='scalar', variant='general')))
    tasks.append(dict(name=f'order-{m}-vector-G0', fn='task_order', kw=dict(method=m, problem='vector', variant='G0')))
  tasks.append(dict(name='order-imex_rk_sil3-vector-G0_linearF', fn='task_order', kw=dict(method='imex_rk_sil3', problem='vector', variant='G0_linearF')))
  tasks.append(dict(name='order-crank_nicolson_rk2-vector-general', fn='task_order', kw=dict(method='crank_nicolson_rk2', problem='vector', variant='general')))
  tasks.append(dict(name='leapfrog-consistency', fn='task_leapfrog_consistency', kw={}))
  tasks.append(dict(name='reduction', fn='task_reduction', kw={}))
  for m in METHODS:
    tasks.append(dict(name=f'stability-axis-{m}', fn='task_stability', kw=dict(method=m, plane='axis')))
  for a in (0.5, 0.6, 1.0):
    tasks.append(dict(name=f'stability-plane-leapfrog-{a}', fn='task_stability', kw=dict(method='semi_implicit_leapfrog', alpha=a, plane='half')))
  for m in ('backward_forward_euler', 'crank_nicolson_rk2', 'imex_rk_sil3'):
    tasks.append(dict(name=f'stability-plane-{m}', fn='task_stability', kw=dict(method=m, plane='half')))
  if tier != 'quick':
    for m in ('crank_nicolson_rk3', 'crank_nicolson_rk4'):
      tasks.append(dict(name=f'stability-plane-{m}', fn='task_stability', kw=dict(method=m, plane='half')))
    for m in METHODS:
      tasks.append(dict(name=f'order-{m}-vector-general', fn='task_order', kw=dict(method=m, problem='vector', variant='general')))
  for pat in PATTERNS:
    tasks.append(dict(name=f'generic-imex-{pat}', fn='task_generic_drivers', kw=dict(which='imex', pattern=pat)))
  for n in (1, 2, 3) + (() if tier == 'quick' else (5,)):
    tasks.append(dict(name=f'generic-lowstorage-{n}', fn='task_generic_drivers', kw=dict(which='lowstorage', pattern=str(n))))
  tasks.append(dict(name='dtype-independence', fn='task_dtype_independence', kw={}))
  tasks.insert(0, dict(name='validation-low-storage', fn='task_validation', kw=dict(which='low_storage_accepts_only_consistent_lengths')))
  tasks.insert(1, dict(name='validation-tableau', fn='task_validation', kw=dict(which='butcher_tableau_accepts_only_consistent_lengths')))
  return tasks


def main(tier='quick', seed=0, jobs=None, only=None, t0=None):
  t0 = t0 or time.time()
  tasks = make_tasks(tier, seed)
  if only:
    tasks = [t for t in tasks if only in t['name']]
  results = harness.run_tasks(MOD, tasks, PID, seed, tier, jobs)
  return harness.finalize(
      PID, tier, seed, results, t0,
      explanation='The real step functions are traced with the time step as an input and executed on power series in h over symbolic ODE '
                  'coefficients (cubic scalar problem; non-autonomous 2-vector problem separating all rooted trees up to order 4): Taylor coefficients '
                  'of step - exact flow vanish up to the design order for ALL coefficients (QF_LRA monomial abstraction), the next one does not; '
                  'reductions to the explicit / implicit parent schemes; amplification factor |R| <= 1 by QF_NRA queries on the terms produced by '
                  'interpreting the step on the rotation-scaling matrix; list-length validation by CrossHair.',
      bounds=dict(tasks=[t['name'] for t in tasks], ode='F polynomial of degree <= 3, dimension <= 2, G scalar', box='[-1,1] for all coefficients, h in [0,1]',
                  stability='imaginary axis for all schemes (closed half plane then follows from the maximum principle given no poles); '
                            'bivariate half-plane query where it is decided', tol='1e-12 on |R|^2'),
      assumptions=['real-arithmetic semantics', 'maximum-modulus principle (mathematics) to pass from the imaginary axis to the half plane'],
      trusted=['JAX tracing', 'dverif interpreter (series validated against the jitted step at h=0.01)', 'z3 (nlsat)', 'CrossHair'],
      outside=['F of degree > 3 or dimension > 2', 'float rounding'])
