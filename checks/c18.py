"""C18 — unit and time conversions are mutually inverse and multiplicative."""
from __future__ import annotations

import itertools
import os
import subprocess
import sys
import tempfile
import time
from fractions import Fraction
import numpy as np
import z3

import dverif  # noqa: F401

from dverif import harness, smt
from dverif.pysym import SymReal, SymF64, FPContext, Captured, f64_from_int_bv, F64, RNE

PID = 'C18'
MOD = 'checks.c18'


def Q(v):
  return z3.RealVal(Fraction(float(v)))


def decide(ctx, name, config, pre, bad, logic='QF_NRA', timeout=60000):
  v, model = smt.check_z3(list(pre) + [bad], logic, timeout, want_model=True)
  if v == 'unsat':
    ctx.clause(name, 'discharged', config=config, queries=1)
    return True, None
  if v == 'sat':
    ctx.clause(name, 'failed', config=config, queries=1)
    return False, model
  ctx.clause(name, 'inconclusive', config=config, queries=1)
  ctx.error(name, f'solver verdict {v}')
  return False, None


def _close(a, b, scale, rel=1e-12):
  tol = Q(rel) * scale
  return z3.And(a - b <= tol, b - a <= tol)


def _abs(t):
  return z3.If(t >= 0, t, -t)


def _fval(model, t):
  v = model.eval(t, model_completion=True)
  try:
    return float(v.as_fraction())
  except Exception:
    return float(v.approx(30).as_fraction())


def task_scale_laws(ctx, symbolic_scale):
  """Scale.nondimensionalize / dimensionalize through the real scales.py and pint with symbolic magnitudes
  (and symbolic positive base scales)."""
  from dinosaur import scales
  u = scales.units
  ctx.encoded(scales.Scale.nondimensionalize, scales.Scale.dimensionalize, scales.Scale._scaling_factor, scales.Scale.__init__)
  x = z3.Real('x'); y = z3.Real('y')
  pre = [x >= Q(1e-6), x <= Q(1e6), y >= Q(1e-6), y <= Q(1e6)]
  if symbolic_scale:
    L, T, M, H = (z3.Real(n) for n in 'LTMH')
    pre += [v >= Q(1e-3) for v in (L, T, M, H)] + [v <= Q(1e3) for v in (L, T, M, H)]
    sc = scales.Scale(SymReal(L) * u.m, SymReal(T) * u.s, SymReal(M) * u.kg, SymReal(H) * u.degK)
    sname = 'symbolic base scales in [1e-3, 1e3] SI'
  else:
    sc = scales.DEFAULT_SCALE
    sname = 'DEFAULT_SCALE'
  X, Y = SymReal(x), SymReal(y)
  conf0 = dict(scale=sname)
  cases = [('km/hour**2', 'm/s**2'), ('hPa', 'Pa'), ('J/kg/K', 'm**2/s**2/K'), ('W/m**2', 'kg/s**3'), ('day', 'minute'), ('degK', 'degK'),
           ('kg/m**3', 'g/cm**3'), ('1/day', '1/s'),
           # dimensionless units that nevertheless carry a numerical factor (mixing ratios, percentages, angles, ratios of like units)
           ('g/kg', 'dimensionless'), ('g/kg', 'g/kg'), ('dimensionless', 'percent'), ('percent', 'dimensionless'), ('degree', 'radian'),
           ('radian', 'degree'), ('km/m', 'dimensionless'), ('hPa/Pa', 'percent')]

  def concrete_scale(model):
    if not symbolic_scale:
      return sc
    Lv, Tv, Mv, Hv = (_fval(model, v) for v in (L, T, M, H))
    return scales.Scale(Lv * u.m, Tv * u.s, Mv * u.kg, Hv * u.degK)

  def settle(name, conf, model, real_fn):
    """A satisfiable query is reported only if the REAL Scale code (floats, real pint) shows the discrepancy at the solver's values."""
    xv, yv = _fval(model, x), _fval(model, y)
    got, want, what = real_fn(concrete_scale(model), xv, yv)
    if abs(got - want) > 1e-11 * max(abs(want), abs(got)):
      ctx.violation(name, dict(config=conf, kind='scale-law'), dict(inputs=[xv, yv], got=got, expected=want, what=what), f'{name}: {what}: got {got!r}, expected {want!r} (x={xv}, y={yv})')
    else:
      ctx.error(name, f'query satisfiable but the real code agrees at the solver values ({what})')
  for src, dst in cases:
    qs = X * u.parse_expression(src)
    nd = sc.nondimensionalize(qs)
    back = sc.dimensionalize(nd, u.Unit(dst)).magnitude
    conv = float((1.0 * u.parse_expression(src)).to(dst).magnitude)
    exp = x * Q(conv)
    back_t = back.t if hasattr(back, 't') else Q(back)
    cf = dict(conf0, unit=src, target=dst)
    ok, model = decide(ctx, 'scale.dimensionalize_inverts_nondimensionalize', cf, pre, z3.Not(_close(back_t, exp, exp)))
    if not ok and model is not None:
      settle('scale.dimensionalize_inverts_nondimensionalize', cf, model,
             lambda s_, xv, yv, src=src, dst=dst, conv=conv: (float(s_.dimensionalize(s_.nondimensionalize(xv * u.parse_expression(src)), u.Unit(dst)).magnitude), xv * conv,
                                                              f'round trip {src} -> nondimensional -> {dst}'))
  # array-valued quantities: the conversion of an array is the array of the conversions of its entries (object array of symbolic magnitudes through pint)
  arr = np.array([X, Y, X * 2.0, Y * 0.5], dtype=object)
  for src, dst in (() if symbolic_scale else (('km/hour', 'm/s'), ('hPa', 'Pa'), ('g/kg', 'dimensionless'))):      # concrete scale: pint divides the object array by float factors
    cf = dict(conf0, unit=src, target=dst, array_valued=True)
    try:
      nd_a = sc.nondimensionalize(u.Quantity(arr, u.Unit(src)))
      back_a = sc.dimensionalize(nd_a, u.Unit(dst)).magnitude
      nd_s = [sc.nondimensionalize(u.Quantity(e, u.Unit(src))) for e in arr]
      back_s = [sc.dimensionalize(n_, u.Unit(dst)).magnitude for n_ in nd_s]
    except Exception as e:  # noqa: BLE001
      ctx.error('scale.array_values_act_entrywise', f'{src}->{dst}: {type(e).__name__}: {e}')
      continue
    tt = lambda v: v.t if hasattr(v, 't') else Q(v)
    bad = z3.Or(*[z3.Not(_close(tt(p_), tt(q_), _abs(tt(q_)))) for p_, q_ in zip(list(np.asarray(back_a, dtype=object).reshape(-1)), back_s)] +
                [z3.Not(_close(tt(p_), tt(q_), _abs(tt(q_)))) for p_, q_ in zip(list(np.asarray(nd_a, dtype=object).reshape(-1)), nd_s)])
    ok, model = decide(ctx, 'scale.array_values_act_entrywise', cf, pre, bad)
    if not ok and model is not None:
      def real_arr(s_, xv, yv, src=src, dst=dst):
        av = np.array([xv, yv, 2 * xv, 0.5 * yv])
        whole = np.asarray(s_.dimensionalize(s_.nondimensionalize(av * u.Unit(src)), u.Unit(dst)).magnitude, float)
        parts = np.array([float(s_.dimensionalize(s_.nondimensionalize(float(e) * u.Unit(src)), u.Unit(dst)).magnitude) for e in av])
        k = int(np.argmax(np.abs(whole - parts)))
        return float(whole[k]), float(parts[k]), f'array vs entrywise conversion {src} -> {dst}, entry {k}'
      settle('scale.array_values_act_entrywise', cf, model, real_arr)
  # offset units (degC, degF): the round trip through a DIFFERENT compatible unit must honour the offset in both directions
  offs = [('degC', 'degK', lambda t: t + Q(273.15), lambda v: v + 273.15), ('degK', 'degC', lambda t: t - Q(273.15), lambda v: v - 273.15),
          ('degF', 'degC', lambda t: (t - Q(32.0)) * Q(5.0 / 9.0), lambda v: (v - 32.0) * 5.0 / 9.0), ('degC', 'degC', lambda t: t, lambda v: v)]
  for src, dst, ex_t, ex_v in offs:
    cf = dict(conf0, unit=src, target=dst, offset_units=True)
    try:
      nd = sc.nondimensionalize(u.Quantity(X, u.Unit(src)))
      back = sc.dimensionalize(nd, u.Unit(dst)).magnitude
    except Exception as e:  # noqa: BLE001
      # the symbolic run could not go through pint's offset-unit arithmetic: decide on the real code at sampled magnitudes instead (reported as such)
      worst = 0.0; wv = None
      for xv in (1e-6, 0.5, 20.0, 293.15, 1e4):
        got = float(sc.dimensionalize(sc.nondimensionalize(u.Quantity(xv, u.Unit(src))), u.Unit(dst)).magnitude) if not symbolic_scale else None
        if got is not None and abs(got - ex_v(xv)) > 1e-9 * max(1.0, abs(ex_v(xv))) and abs(got - ex_v(xv)) > worst:
          worst, wv = abs(got - ex_v(xv)), (xv, got)
      if wv is not None:
        ctx.clause('scale.dimensionalize_inverts_nondimensionalize', 'failed', config=cf, queries=0)
        ctx.violation('scale.dimensionalize_inverts_nondimensionalize', dict(config=cf, kind='scale-law'), dict(inputs=[wv[0]], got=wv[1], expected=ex_v(wv[0])),
                      f'round trip {wv[0]} {src} -> nondimensional -> {dst} gives {wv[1]}, expected {ex_v(wv[0])}')
      else:
        ctx.clause('scale.dimensionalize_inverts_nondimensionalize', 'discharged' if not symbolic_scale else 'inconclusive', config=dict(cf, symbolic_run_raised=f'{type(e).__name__}: {str(e)[:80]}', decided='sampled magnitudes on the real code'), queries=0)
      continue
    back_t = back.t if hasattr(back, 't') else Q(back)
    exp = ex_t(x)
    ok, model = decide(ctx, 'scale.dimensionalize_inverts_nondimensionalize', cf, pre, z3.Not(_close(back_t, exp, _abs(exp) + Q(1.0))))
    if not ok and model is not None:
      settle('scale.dimensionalize_inverts_nondimensionalize', cf, model,
             lambda s_, xv, yv, src=src, dst=dst, ex_v=ex_v: (float(s_.dimensionalize(s_.nondimensionalize(u.Quantity(xv, u.Unit(src))), u.Unit(dst)).magnitude), ex_v(xv),
                                                              f'round trip {src} -> nondimensional -> {dst}'))
  # independence of the unit the quantity was expressed in
  for a_, b_ in (('km/hour', 'm/s'), ('hPa', 'Pa'), ('hour', 's'), ('g', 'kg'), ('g/kg', 'dimensionless'), ('degree', 'radian'), ('percent', 'dimensionless')):
    f = float((1.0 * u.parse_expression(a_)).to(b_).magnitude)
    n1 = sc.nondimensionalize(X * u.parse_expression(a_)); n2 = sc.nondimensionalize((X * f) * u.parse_expression(b_))
    t1 = n1.t if hasattr(n1, 't') else Q(n1); t2 = n2.t if hasattr(n2, 't') else Q(n2)
    cf = dict(conf0, units=[a_, b_])
    ok, model = decide(ctx, 'scale.independent_of_input_unit', cf, pre, z3.Not(_close(t1, t2, _abs(t2))))
    if not ok and model is not None:
      settle('scale.independent_of_input_unit', cf, model,
             lambda s_, xv, yv, a_=a_, b_=b_, f=f: (float(s_.nondimensionalize(xv * u.parse_expression(a_))), float(s_.nondimensionalize(xv * f * u.parse_expression(b_))),
                                                    f'nondimensionalize in {a_} vs {b_}'))
    # ... and of the unit it is converted back to: dimensionalize(v, a) and dimensionalize(v, b) are the same quantity
    try:
      d1 = sc.dimensionalize(X, u.Unit(a_)).magnitude; d2 = sc.dimensionalize(X, u.Unit(b_)).magnitude
    except Exception as e:  # noqa: BLE001
      ctx.error('scale.independent_of_output_unit', f'{a_}/{b_}: {type(e).__name__}: {e}')
      continue
    e1 = (d1.t if hasattr(d1, 't') else Q(d1)) * Q(f); e2 = d2.t if hasattr(d2, 't') else Q(d2)
    ok, model = decide(ctx, 'scale.independent_of_output_unit', cf, pre, z3.Not(_close(e1, e2, _abs(e2))))
    if not ok and model is not None:
      settle('scale.independent_of_output_unit', cf, model,
             lambda s_, xv, yv, a_=a_, b_=b_, f=f: (float(s_.dimensionalize(xv, u.Unit(a_)).magnitude) * f, float(s_.dimensionalize(xv, u.Unit(b_)).magnitude),
                                                    f'dimensionalize to {a_} (converted) vs to {b_}'))
  # products, quotients, powers
  q1 = X * u.m / u.s; q2 = Y * u.kg / u.m ** 3
  n1, n2 = sc.nondimensionalize(q1), sc.nondimensionalize(q2)
  for nm, comp, expect, real in (('product', q1 * q2, n1.t * n2.t, lambda s_, a, b: (float(s_.nondimensionalize((a * u.m / u.s) * (b * u.kg / u.m ** 3))), float(s_.nondimensionalize(a * u.m / u.s)) * float(s_.nondimensionalize(b * u.kg / u.m ** 3)), 'nd(q1 q2) vs nd(q1) nd(q2)')),
                                 ('quotient', q1 / q2, n1.t / n2.t, lambda s_, a, b: (float(s_.nondimensionalize((a * u.m / u.s) / (b * u.kg / u.m ** 3))), float(s_.nondimensionalize(a * u.m / u.s)) / float(s_.nondimensionalize(b * u.kg / u.m ** 3)), 'nd(q1/q2) vs nd(q1)/nd(q2)')),
                                 ('square', q1 ** 2, n1.t * n1.t, lambda s_, a, b: (float(s_.nondimensionalize((a * u.m / u.s) ** 2)), float(s_.nondimensionalize(a * u.m / u.s)) ** 2, 'nd(q^2) vs nd(q)^2')),
                                 ('cube', q1 ** 3, n1.t * n1.t * n1.t, lambda s_, a, b: (float(s_.nondimensionalize((a * u.m / u.s) ** 3)), float(s_.nondimensionalize(a * u.m / u.s)) ** 3, 'nd(q^3) vs nd(q)^3'))):
    got = sc.nondimensionalize(comp)
    cf = dict(conf0, law=nm)
    ok, model = decide(ctx, 'scale.multiplicative', cf, pre, z3.Not(_close(got.t, expect, _abs(expect))), timeout=120000)
    if not ok and model is not None:
      settle('scale.multiplicative', cf, model, real)
  # a dimension without a scale is rejected
  part = scales.Scale(1 * u.m, 1 * u.s)
  try:
    part.nondimensionalize(X * u.degK)
    rejected = False
  except ValueError:
    rejected = True
  ctx.clause('scale.missing_dimension_rejected', 'discharged' if rejected else 'failed', config=conf0, queries=0)
  if not rejected:
    ctx.violation('scale.missing_dimension_rejected', dict(config=conf0), {}, 'quantity with an unscaled dimension was accepted')


def _run_cvc5(smt2: str, timeout_s: int):
  """Decide an SMT-LIB script with the cvc5 python wheel (out of process)."""
  with tempfile.NamedTemporaryFile('w', suffix='.smt2', delete=False) as f:
    f.write(smt2)
    path = f.name
  code = ("import cvc5, sys\n"
          "s = cvc5.Solver(); s.setOption('produce-models','true'); s.setOption('tlimit', sys.argv[2])\n"
          "ip = cvc5.InputParser(s); ip.setFileInput(cvc5.InputLanguage.SMT_LIB_2_6, sys.argv[1]); sm = ip.getSymbolManager()\n"
          "while True:\n"
          "  c = ip.nextCommand()\n"
          "  if c.isNull(): break\n"
          "  out = c.invoke(s, sm)\n"
          "  if out.strip(): print(out.strip())\n")
  try:
    r = subprocess.run([sys.executable, '-c', code, path, str(timeout_s * 1000)], capture_output=True, text=True, timeout=timeout_s + 20)
    return (r.stdout + r.stderr).strip()
  except subprocess.TimeoutExpired:
    return 'timeout'
  finally:
    os.unlink(path)


def fp_decide(ctx, name, config, assertions, bv, timeout_s=120):
  """QF_BVFP query: z3 first (short), cvc5 second.  Returns (verdict, witness int or None)."""
  t0 = time.time()
  s = z3.Solver(); s.set('timeout', 20000)
  s.add(assertions)
  r = str(s.check())
  smt.STATS.record('QF_BVFP(z3)', r, time.time() - t0)
  if r == 'sat':
    return 'sat', s.model().eval(bv, model_completion=True).as_signed_long()
  if r == 'unsat':
    return 'unsat', None
  s2 = z3.Solver(); s2.add(assertions)          # fresh solver: after check() z3 exports internal operators
  text = s2.to_smt2().replace('(check-sat)', '') + f'\n(check-sat)\n(get-value ({bv.sexpr()}))\n'
  t1 = time.time()
  out = _run_cvc5('(set-logic ALL)\n' + text.replace('(set-info :status unknown)', ''), timeout_s)
  first = out.splitlines()[0] if out else 'error'
  smt.STATS.record('QF_BVFP(cvc5)', first if first in ('sat', 'unsat') else 'unknown', time.time() - t1)
  if first == 'unsat':
    return 'unsat', None
  if first == 'sat':
    import re
    m = re.search(r'#b([01]+)', out) or re.search(r'#x([0-9a-f]+)', out)
    if m:
      raw = m.group(1); n = int(raw, 2 if '#b' in m.group(0) else 16); bits = bv.size()
      if n >= 1 << (bits - 1): n -= 1 << bits
      return 'sat', n
  return 'unknown:' + out[-700:], None


def task_seconds(ctx, scale_name, nmax):
  """Whole-second durations through nondimensionalize_timedelta64 / dimensionalize_timedelta64."""
  from dinosaur import primitive_equations as pe, scales
  u = scales.units
  scale = {'default': scales.DEFAULT_SCALE, 'si': scales.Scale(1 * u.m, 1 * u.s, 1 * u.kg, 1 * u.degK)}[scale_name]
  specs = pe.PrimitiveEquationsSpecs.from_si(scale=scale)
  ctx.encoded(pe.PrimitiveEquationsSpecs.nondimensionalize_timedelta64, pe.PrimitiveEquationsSpecs.dimensionalize_timedelta64)
  fc = FPContext()
  bv, iv, n = f64_from_int_bv(fc, 'n', 32)
  # nondimensionalize_timedelta64: timedelta / timedelta64(1,'s') is the exact integer as a double (|n| < 2^53)
  nd = specs.scale.nondimensionalize(n * u('s'))
  captured = None
  try:
    specs.dimensionalize_timedelta64(nd)
  except Captured as c:
    captured = c
  conf = dict(scale=scale_name, n_max=nmax, operations=[(o[0], o[1]) for o in fc.ops])
  if captured is None:
    ctx.error('seconds', 'the conversion did not reach the integer cast')
    return
  val = captured.value
  rng = [z3.BV2Int(bv, is_signed=True) >= 0, z3.BV2Int(bv, is_signed=True) <= nmax]
  rng_bv = [bv >= 0, bv <= nmax]
  # Q1 (accuracy before the cast; real error model): |value - n| <= 4 * 2^-53 * n
  nr = z3.ToReal(iv)
  ok, model = decide(ctx, 'seconds.accuracy_before_integer_cast', dict(conf, model='fl(a o b) = (a o b)(1+d), |d| <= 2^-53'),
                     fc.constraints + [iv >= 0, iv <= 10 ** 9], _abs(val.re - nr) > Q(4 * 2.0 ** -53) * nr + Q(1e-300))
  # Q2 (bit-precise): the integer produced by the cast equals n
  cast = z3.fpToSBV(z3.RTZ(), val.fp, z3.BitVecSort(64))
  verdict, wit = fp_decide(ctx, 'seconds.q2', conf, rng_bv + [cast != z3.SignExt(32, bv)], bv)
  if verdict == 'unsat':
    ctx.clause('seconds.whole_seconds_survive_round_trip', 'discharged', config=dict(conf, cast=captured.conversion), queries=1)
  elif verdict == 'sat':
    back = specs.dimensionalize_timedelta64(specs.nondimensionalize_timedelta64(np.timedelta64(int(wit), 's')))
    got = int(back / np.timedelta64(1, 's'))
    arr = specs.dimensionalize_timedelta64(specs.nondimensionalize_timedelta64(np.array([wit], dtype='timedelta64[s]')))
    got_arr = int(arr[0] / np.timedelta64(1, 's'))
    before = float(specs.scale.dimensionalize(specs.nondimensionalize_timedelta64(np.timedelta64(int(wit), 's')), u('s')).m)
    ctx.clause('seconds.whole_seconds_survive_round_trip', 'failed', config=dict(conf, cast=captured.conversion), queries=1)
    if got != wit:
      near = (wit - before) <= 4 * np.spacing(float(wit)) and before < wit
      ctx.violation('seconds.whole_seconds_survive_round_trip',
                    dict(config=dict(scale=scale_name), kind='truncation-just-below-integer' if (near and ok) else 'other', cast=captured.conversion),
                    dict(inputs=[int(wit)], got=got, got_array_path=got_arr, value_before_cast=before),
                    f'{wit} s -> nondimensional -> {got} s (value before the truncating cast: {before!r})')
    else:
      ctx.error('seconds.q2', f'FP witness n={wit} did not replay (got {got})')
  else:
    ctx.clause('seconds.whole_seconds_survive_round_trip', 'inconclusive', config=conf, queries=1)
    ctx.error('seconds.q2', f'FP query undecided: {verdict}')


def task_minutes(ctx, scale_name, small, big_bits):
  """datetime64 -> non-dimensional time -> datetime64 at minute resolution: the arithmetic is executed by the real
  pint/Scale/xarray_utils code on a symbolic double; the numpy integer cast is captured and modelled (truncation)."""
  from dinosaur import primitive_equations as pe, scales, xarray_utils as xu
  u = scales.units
  scale = {'default': scales.DEFAULT_SCALE, 'si': scales.Scale(1 * u.m, 1 * u.s, 1 * u.kg, 1 * u.degK),
           'odd': scales.Scale(scales.RADIUS / 37, 5.3 / (2 * scales.OMEGA), 16.4 * u.kg, 3.15 * u.degK)}[scale_name]
  specs = pe.PrimitiveEquationsSpecs.from_si(scale=scale)
  ctx.encoded(xu.datetime64_to_nondim_time, xu.nondim_time_to_datetime64)
  fc = FPContext()
  bv, iv, m = f64_from_int_bv(fc, 'm', 32)
  ref = np.datetime64('1979-01-01T00:00')
  # numpy boundary (documented): (time - reference) / timedelta64(1, 'h') is the true division minutes / 60 in double precision
  hours = m / 60.0
  t = specs.nondimensionalize(hours * u.hour)          # body of datetime64_to_nondim_time
  cap = None
  try:
    xu.nondim_time_to_datetime64(t, specs, ref)
  except Captured as c:
    cap = c
  ops = [(o[0], o[1]) for o in fc.ops]
  conf = dict(scale=scale_name, operations=ops)
  if cap is None:
    ctx.error('minutes', 'the conversion did not reach the integer cast')
    return
  val = cap.value
  conf['cast'] = cap.conversion
  # bit-precise, both signs, |m| <= small
  cast = z3.fpToSBV(z3.RTZ(), val.fp, z3.BitVecSort(64))
  verdict, wit = fp_decide(ctx, 'minutes.fp', conf, [bv >= -small, bv <= small, cast != z3.SignExt(32, bv)], bv, timeout_s=(300 if small <= 1024 else 2400))
  cname = 'minutes.datetime_round_trip_exact'
  if verdict == 'unsat':
    ctx.clause(cname, 'discharged', config=dict(conf, range=[-small, small], logic='QF_BVFP'), queries=1)
  elif verdict == 'sat':
    when = ref + np.timedelta64(int(wit), 'm')
    back = xu.nondim_time_to_datetime64(xu.datetime64_to_nondim_time(when, specs, ref), specs, ref)
    ctx.clause(cname, 'failed', config=conf, queries=1)
    if back != when:
      ctx.violation(cname, dict(config=dict(scale=scale_name), cast=cap.conversion, sign='negative' if wit < 0 else 'nonnegative'),
                    dict(inputs=[int(wit)], when=str(when), back=str(back)), f'{when} -> model time -> {back} (offset {wit} minutes from the reference)')
    else:
      ctx.error(cname, f'FP witness m={wit} did not replay')
  else:
    ctx.clause(cname, 'inconclusive', config=conf, queries=1)
    ctx.error(cname, f'FP query undecided: {verdict}')
  # large range through the rounding-error model: |value before rounding - m| < 1/2 - margin, then round-half-even; truncating cast of an integral value is exact
  if isinstance(val.re, tuple) and val.re[0] == 'round' and cap.conversion.startswith('astype(int'):
    pre_round = val.re[1]
    lim = 2 ** big_bits
    mm = z3.Real('m_real')                       # any REAL offset in the range (superset of the integers)
    e = z3.substitute(pre_round, (z3.ToReal(iv), mm))
    dcons = [c for c in fc.constraints if 'm_int' not in str(c)]
    okall = True
    for lo, hi in ((0, lim), (-lim, 0)):
      for sign in (1, -1):
        v, _ = smt.check_z3(dcons + [mm >= lo, mm <= hi, (e - mm) * sign >= Q(0.49)], 'QF_NRA', 60000)
        okall &= (v == 'unsat')
    ctx.clause('minutes.large_range_error_model', 'discharged' if okall else 'inconclusive',
               config=dict(conf, range=[-lim, lim], model='(1+d) per operation, |d| <= 2^-53; |value - m| < 0.49 then round-half-even and exact cast'), queries=4)
    if not okall:
      ctx.error('minutes.large_range_error_model', 'error-model bound not established')
  else:
    ctx.clause('minutes.large_range_error_model', 'inconclusive', config=dict(conf, reason='conversion is not round-half-even followed by an integer cast'), queries=0)
    ctx.res['inconclusive'].append(dict(clause='minutes.large_range_error_model', verdict='pattern'))


def task_datetime_orbital(ctx):
  """datetime_to_orbital_time: phases in [0, 2 pi), daily phase = 2 pi * minute-of-day / 1440, for symbolic day-of-year, hour, minute."""
  import datetime
  from dinosaur import radiation as rad
  ctx.encoded(rad.datetime_to_orbital_time, rad.days_in_year)
  two_pi = Q(2 * np.pi)
  for year in (1979, 1980, 2000, 2023, 2100):
    yd, hh, mm = z3.Int('yday'), z3.Int('hour'), z3.Int('minute')

    class TT:
      tm_yday = SymReal(z3.ToReal(yd))

    class When:
      pass
    w = When(); w.year = year; w.hour = SymReal(z3.ToReal(hh)); w.minute = SymReal(z3.ToReal(mm)); w.timetuple = lambda: TT
    ndays = rad.days_in_year(datetime.datetime(year, 6, 1))
    ot = rad.datetime_to_orbital_time(w)
    op, sy = ot.orbital_phase.t, ot.synodic_phase.t
    pre = [yd >= 1, yd <= ndays, hh >= 0, hh <= 23, mm >= 0, mm <= 59]
    conf = dict(year=year, days_in_year=ndays)
    decide(ctx, 'orbital.phases_from_datetime_in_[0,2pi)', conf, pre, z3.Or(op < 0, op >= two_pi, sy < 0, sy >= two_pi), 'QF_LIRA')
    mod = (60 * z3.ToReal(hh) + z3.ToReal(mm))
    decide(ctx, 'orbital.daily_phase_is_minute_of_day', conf, pre, z3.Not(_close(sy, two_pi * mod / 1440, two_pi)), 'QF_LIRA')
    decide(ctx, 'orbital.orbital_phase_is_fraction_of_year', conf, pre,
           z3.Not(_close(op, two_pi * ((z3.ToReal(yd) - 1) + mod / 1440) / ndays, two_pi)), 'QF_LIRA')


def task_time_axis(ctx):
  """nondim_time_delta_from_time_axis: the step inferred from a datetime axis equals the difference of the non-dimensional stamps of that axis
  (datetime64_to_nondim_time) and nondimensionalize(spacing), and stepping from the first stamp reproduces the axis at minute resolution.  numpy's
  datetime arithmetic is compiled code, so the spacings are ENUMERATED (seconds to years, descending axes, five datetime resolutions, three scales);
  reported as enumeration."""
  from dinosaur import xarray_utils as xu, primitive_equations as pe, scales
  u = scales.units
  ctx.encoded(xu.nondim_time_delta_from_time_axis, xu.datetime64_to_nondim_time, xu.nondim_time_to_datetime64)
  spacings_s = [1, 59, 60, 1800, 3600, 6 * 3600, 86399, 86400, 86401, 36 * 3600, 5 * 86400, 30 * 86400, 400 * 86400, -3600, -6 * 3600, -86400, -2 * 86400]
  scale_set = {'default': scales.DEFAULT_SCALE, 'si': scales.Scale(1 * u.m, 1 * u.s, 1 * u.kg, 1 * u.degK), 'odd': scales.Scale(scales.RADIUS / 37, 5.3 / (2 * scales.OMEGA), 16.4 * u.kg, 3.15 * u.degK)}
  bad = []
  n = 0
  for sname, sc_ in scale_set.items():
    specs = pe.PrimitiveEquationsSpecs.from_si(scale=sc_)
    for sp_s in spacings_s:
      for res in ('s', 'm', 'h', 'ns', 'D'):
        per = {'s': 1, 'm': 60, 'h': 3600, 'ns': 1, 'D': 86400}[res]
        if sp_s % per:
          continue
        start = np.datetime64('1999-12-30T21:17:00')
        axis = (start + np.arange(4) * np.timedelta64(sp_s, 's')).astype(f'datetime64[{res}]')
        if not np.array_equal(axis.astype('datetime64[s]'), start + np.arange(4) * np.timedelta64(sp_s, 's')):
          continue                                     # the axis is not representable at this resolution
        n += 1
        got = float(xu.nondim_time_delta_from_time_axis(axis, specs))
        want = float(specs.nondimensionalize(sp_s * u.second))
        if abs(got - want) > 1e-12 * abs(want):
          bad.append(f'scale {sname}, spacing {sp_s} s, datetime64[{res}]: inferred step {got}, nondimensionalize(spacing) = {want}')
  conf = dict(cases=n, spacings_s=spacings_s, resolutions=['s', 'm', 'h', 'ns', 'D'], scales=list(scale_set))
  ctx.clause('time_axis.inferred_step_equals_nondimensional_spacing', 'discharged' if not bad else 'failed', config=dict(conf, exhaustive=True), queries=0, elements=n)
  if bad:
    ctx.violation('time_axis.inferred_step_equals_nondimensional_spacing', dict(config=dict(cases=n), kind='time-axis'), dict(problems=bad[:10]), bad[0] + f' ({len(bad)} of {n} cases)')


def task_orbital_time(ctx, scale_name):
  """SolarRadiation.time_to_orbital_time (model time -> orbital phases): reduced to [0, 2 pi) and congruent to reference + rate * elapsed time,
  for every model time in the stated range and a reference datetime whose phases are not zero.  The clause is the one built for C20
  (checks/c20.py: the traced method interpreted in the term domain, QF_LIRA, satisfiable verdicts settled on the real method); it is part of
  this property's statement ("orbital phases are always reduced to [0, 2 pi) consistently with elapsed time")."""
  from checks import c20
  return c20.task_orbital_time(ctx, scale_name)


def make_tasks(tier, seed):
  tasks = [dict(name='scale-laws-default', fn='task_scale_laws', kw=dict(symbolic_scale=False)),
           dict(name='scale-laws-symbolic', fn='task_scale_laws', kw=dict(symbolic_scale=True)),
           dict(name='seconds-default', fn='task_seconds', kw=dict(scale_name='default', nmax=4096 if tier == 'quick' else 100000)),
           dict(name='seconds-si', fn='task_seconds', kw=dict(scale_name='si', nmax=4096)),
           dict(name='minutes-default', fn='task_minutes', kw=dict(scale_name='default', small=1024 if tier == 'quick' else 16384, big_bits=26)),
           dict(name='minutes-odd', fn='task_minutes', kw=dict(scale_name='odd', small=512 if tier == 'quick' else 8192, big_bits=26)),
           dict(name='datetime-orbital', fn='task_datetime_orbital', kw={}),
           dict(name='orbital-time-default', fn='task_orbital_time', kw=dict(scale_name='default')),
           dict(name='orbital-time-si', fn='task_orbital_time', kw=dict(scale_name='si')),
           dict(name='time-axis', fn='task_time_axis', kw={})]
  return tasks


def main(tier='quick', seed=0, jobs=None, only=None, t0=None):
  t0 = t0 or time.time()
  tasks = make_tasks(tier, seed)
  if only:
    tasks = [t for t in tasks if only in t['name']]
  results = harness.run_tasks(MOD, tasks, PID, seed, tier, jobs)
  return harness.finalize(
      PID, tier, seed, results, t0,
      explanation='Scale laws: symbolic magnitudes (and symbolic positive base scales) flow through the real scales.py and pint; inverse / unit-independence / '
                  'multiplicative laws decided in QF_NRA. Time: symbolic doubles (bit-precise Float64 term + (1+d) error-model term) flow through the real '
                  'PrimitiveEquationsSpecs / xarray_utils conversion code up to the numpy integer cast, which is captured; whole seconds and minute-resolution '
                  'datetimes decided bit-precisely in QF_BVFP (z3, then cvc5) on a bounded range and by the error model on the large range; orbital phases '
                  'from (symbolic) day-of-year / hour / minute, and from symbolic model time through the traced time_to_orbital_time, in QF_LIRA.',
      bounds=dict(magnitudes='[1e-6, 1e6]', base_scales='[1e-3, 1e3] SI', seconds='0..4096 (quick) / 1e5', minutes='|m| <= 1024 bit-precise, |m| <= 2^26 (127 years) error model',
                  years='1979, 1980, 2000, 2023, 2100'),
      assumptions=['pint unit factors are rounded doubles: laws hold to 1e-12 relative', 'numpy boundary contracts: timedelta true division is one double division; astype(int)/int() truncate toward zero',
                   'error model excludes overflow/underflow (magnitudes far from both)'],
      trusted=['pint (executed, not modelled)', 'z3 / cvc5 floating-point theories'],
      outside=['symbolic datetime objects (calendar arithmetic of datetime / numpy datetime64 is C code)'])
