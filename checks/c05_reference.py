"""Independent weak-form reference model of the dry sigma-coordinate primitive equations (DESIGN Appendix A).

Products are formed pointwise in nodal space from ANALYTICALLY synthesised fields (mpmath basis tables at the grid's nodes);
every horizontal derivative of a product is moved onto the test function:
   <div E, Y_b> = -<E, grad Y_b>,   <lap s, Y_b> = -l(l+1)/a^2 <s, Y_b>
and the vertical discretisation is the documented one (Durran 8.6), written UNSPLIT (no reference-temperature split,
no G/H matrices).  Quadrature weights come from numpy.polynomial.legendre.leggauss (Gauss grids only)."""
from __future__ import annotations

import numpy as np
import jax.numpy as jnp

from dverif import grids


class Reference:
  def __init__(self, grid, cfg, sigma_boundaries, *, R, kappa, g, omega, tref, orography_modal):
    assert cfg.get('spacing', 'gauss') == 'gauss' and cfg.get('impl', 'real') == 'real'
    self.grid = grid; self.cfg = cfg
    self.a = float(grid.radius)
    self.Y, self.dl, self.dt = grids.analytic_basis(grid, cfg)          # (nlon, nlat, rows, L)
    nlon, nlat = cfg['nlon'], cfg['nlat']
    mu, wmu = np.polynomial.legendre.leggauss(nlat)
    if not np.allclose(mu, np.asarray(grid.nodal_axes[1]), atol=1e-13):
      raise ValueError('latitude nodes are not the Gauss-Legendre nodes')
    self.w = np.outer(np.full(nlon, 2 * np.pi / nlon), wmu)            # unit-sphere quadrature weights
    self.cos2 = (1 - mu ** 2)[None, :]
    self.sinlat = mu[None, :]
    L = grid.modal_shape[1]
    l = np.arange(L, dtype=float)
    self.lam = -l * (l + 1) / self.a ** 2                                # Laplacian eigenvalues
    self.inv_lam = np.where(l > 0, 1.0 / np.where(l > 0, self.lam, 1.0), 0.0)
    b = np.asarray(sigma_boundaries, float)
    self.dsig = np.diff(b); self.sig = (b[1:] + b[:-1]) / 2; self.sig_half = b[1:-1]
    self.K = len(self.dsig)
    K = self.K
    alpha = np.empty(K)
    alpha[:-1] = 0.5 * np.log(self.sig[1:] / self.sig[:-1]); alpha[-1] = -np.log(self.sig[-1])
    self.alpha = alpha
    self.R, self.kappa, self.g, self.omega = R, kappa, g, omega
    self.tref = np.asarray(tref, float)
    self.h = np.asarray(orography_modal, float)
    m, ll = grid.modal_mesh
    self.keep = (grid.mask & (ll <= grid.total_wavenumbers - 2)).astype(float)   # documented clipping of the top wavenumber

  # -- basis helpers
  def synth(self, c): return jnp.einsum('ijml,...ml->...ij', self.Y, c)
  def dlam(self, c): return jnp.einsum('ijml,...ml->...ij', self.dl, c)
  def dth(self, c): return jnp.einsum('ijml,...ml->...ij', self.dt, c)
  def proj(self, f): return jnp.einsum('ij,...ij,ijml->...ml', self.w, f, self.Y)

  def wdiv(self, fu, fv):
    """Coefficients of div E for the physical vector E = (fu, fv)/cos(lat) (weak form)."""
    wc = self.w / self.cos2
    return -(1.0 / self.a) * (jnp.einsum('ij,...ij,ijml->...ml', wc, fu, self.dl) + jnp.einsum('ij,...ij,ijml->...ml', wc, fv, self.dt))

  def wcurl(self, fu, fv):
    return self.wdiv(fv, -fu)

  def adv(self, sdot, X):
    """-(sigma_dot dX/dsigma) at layer centres, centred averaging, zero boundary velocity (documented scheme)."""
    K = self.K
    if K == 1:
      return 0.0 * X
    dX = (X[1:] - X[:-1]) / (self.sig[1:] - self.sig[:-1])[:, None, None]
    flux = sdot * dX                                   # at interfaces k+1/2, k = 0..K-2
    zero = jnp.zeros_like(X[:1])
    up = jnp.concatenate([flux, zero], axis=0)          # interface below layer k
    dn = jnp.concatenate([zero, flux], axis=0)          # interface above layer k
    return -0.5 * (up + dn)

  def tendency(self, vor, div, tprime, lsp):
    a, R, kap = self.a, self.R, self.kappa
    psi = vor * self.inv_lam; chi = div * self.inv_lam
    U = (self.dlam(chi) - self.dth(psi)) / a
    V = (self.dlam(psi) + self.dth(chi)) / a
    Px = self.dlam(lsp)[0] / a; Py = self.dth(lsp)[0] / a
    A = (U * Px + V * Py) / self.cos2
    G = self.synth(div) + A
    ds = self.dsig[:, None, None]
    GdS = G * ds
    cum = jnp.cumsum(GdS, axis=0)
    total = cum[-1]
    sdot = self.sig_half[:, None, None] * total[None] - cum[:-1]        # sigma_dot at interfaces
    f = 2 * self.omega * self.sinlat
    zeta = self.synth(vor); T = self.synth(tprime)
    Eu = -V * (zeta + f) - self.adv(sdot, U) + R * T * Px
    Ev = U * (zeta + f) - self.adv(sdot, V) + R * T * Py
    KE = (U * U + V * V) / (2 * self.cos2)
    al = self.alpha
    K = self.K
    # geopotential of the temperature variation (modal, documented weights)
    phi = []
    for k in range(K):
      s = al[k] * tprime[k]
      for j in range(k + 1, K):
        s = s + (al[j] + al[j - 1]) * tprime[j]
      phi.append(R * s)
    phi = jnp.stack(phi)
    cum_prev = jnp.concatenate([jnp.zeros_like(cum[:1]), cum[:-1]], axis=0)
    al_prev = np.concatenate([[0.0], al[:-1]])
    omega_p = A - (al[:, None, None] * cum + al_prev[:, None, None] * cum_prev) / ds
    Tabs = T + self.tref[:, None, None]
    dvor = -self.wcurl(Eu, Ev)
    ddiv = -self.wdiv(Eu, Ev) - self.lam * (self.proj(KE) + self.g * self.h + phi + R * self.tref[:, None, None] * lsp)
    dT = self.proj(T * self.synth(div) + self.adv(sdot, Tabs) + kap * Tabs * omega_p) - self.wdiv(U * T, V * T)
    dlsp = self.proj(-total)[None]
    k_ = self.keep
    return dvor * k_, ddiv * k_, dT * k_, dlsp * k_


  def tendency_moist(self, vor, div, tprime, lsp, q, *, R_vapor, cp_ratio):
    """MOIST equations, written from the physics (no reference split, no correction terms):
         momentum:     the pressure-gradient force and the hydrostatic geopotential use the VIRTUAL temperature  Tv = T (1 + (Rv/R - 1) q)
         temperature:  kappa is the moist one,  kappa (1 + (Rv/R - 1) q) / (1 + (cpv/cp - 1) q),  applied to the full temperature
         humidity:     dq/dt = -v.grad q - sigma_dot dq/dsigma   (flux form + q div)
       Everything else (continuity, vertical velocity, omega/p) is kinematic and unchanged."""
    a, R, kap = self.a, self.R, self.kappa
    eps = R_vapor / R - 1.0
    psi = vor * self.inv_lam; chi = div * self.inv_lam
    U = (self.dlam(chi) - self.dth(psi)) / a
    V = (self.dlam(psi) + self.dth(chi)) / a
    Px = self.dlam(lsp)[0] / a; Py = self.dth(lsp)[0] / a
    A = (U * Px + V * Py) / self.cos2
    G = self.synth(div) + A
    ds = self.dsig[:, None, None]
    cum = jnp.cumsum(G * ds, axis=0)
    total = cum[-1]
    sdot = self.sig_half[:, None, None] * total[None] - cum[:-1]
    f = 2 * self.omega * self.sinlat
    zeta = self.synth(vor); T = self.synth(tprime); Q = self.synth(q)
    tref = self.tref[:, None, None]
    Tabs = T + tref
    Tv_var = Tabs * (1 + eps * Q) - tref          # virtual temperature minus the (horizontally uniform) reference profile
    Eu = -V * (zeta + f) - self.adv(sdot, U) + R * Tv_var * Px
    Ev = U * (zeta + f) - self.adv(sdot, V) + R * Tv_var * Py
    KE = (U * U + V * V) / (2 * self.cos2)
    al = self.alpha
    K = self.K
    tv_modal = self.proj(Tv_var)
    phi = []
    for k in range(K):
      s = al[k] * tv_modal[k]
      for j in range(k + 1, K):
        s = s + (al[j] + al[j - 1]) * tv_modal[j]
      phi.append(R * s)
    phi = jnp.stack(phi)
    cum_prev = jnp.concatenate([jnp.zeros_like(cum[:1]), cum[:-1]], axis=0)
    al_prev = np.concatenate([[0.0], al[:-1]])
    omega_p = A - (al[:, None, None] * cum + al_prev[:, None, None] * cum_prev) / ds
    kap_m = kap * (1 + eps * Q) / (1 + (cp_ratio - 1.0) * Q)
    dvor = -self.wcurl(Eu, Ev)
    ddiv = -self.wdiv(Eu, Ev) - self.lam * (self.proj(KE) + self.g * self.h + phi + R * tref * lsp)
    dT = self.proj(T * self.synth(div) + self.adv(sdot, Tabs) + kap_m * Tabs * omega_p) - self.wdiv(U * T, V * T)
    dq = self.proj(Q * self.synth(div) + self.adv(sdot, Q)) - self.wdiv(U * Q, V * Q)
    dlsp = self.proj(-total)[None]
    k_ = self.keep
    return dvor * k_, ddiv * k_, dT * k_, dlsp * k_, dq * k_


class ReferenceSW:
  """Independent weak-form reference for the layered shallow-water equations (vector-invariant form):

      d zeta/dt = -div((zeta+f) v)
      d delta/dt = k.curl((zeta+f) v) - lap( |v|^2/2 + sum_b D_ab Phi_b + Phi_s )
      d Phi_a/dt = -div(Phi'_a v) - Phi_ref,a delta_a

  with the pressure coupling written from the physics of stacked immiscible layers (layer 0 on top): the pressure
  gradient in layer a is grad( sum_{b >= a} Phi_b + sum_{b < a} (rho_b/rho_a) Phi_b ), i.e. D[a,b] = 1 for b >= a
  (the layer itself and everything below it lift it one-to-one) and rho_b/rho_a for the lighter layers above.
  (The docstring of shallow_water.get_density_ratios states the transposed matrix; the code implements the physical
  one - a documentation slip, recorded in DESIGN.md, not a behavioural finding.)  Horizontal derivatives of products
  are moved onto the analytic test functions; nothing of dinosaur's transform / derivative code is used."""

  def __init__(self, grid, cfg, *, densities, omega, ref_potential, orography_modal=None):
    assert cfg.get('spacing', 'gauss') == 'gauss' and cfg.get('impl', 'real') == 'real'
    self.grid = grid
    self.a = float(grid.radius)
    self.Y, self.dl, self.dt = grids.analytic_basis(grid, cfg)
    nlon, nlat = cfg['nlon'], cfg['nlat']
    mu, wmu = np.polynomial.legendre.leggauss(nlat)
    if not np.allclose(mu, np.asarray(grid.nodal_axes[1]), atol=1e-13):
      raise ValueError('latitude nodes are not the Gauss-Legendre nodes')
    self.w = np.outer(np.full(nlon, 2 * np.pi / nlon), wmu)
    self.cos2 = (1 - mu ** 2)[None, :]
    self.sinlat = mu[None, :]
    L = grid.modal_shape[1]
    l = np.arange(L, dtype=float)
    self.lam = -l * (l + 1) / self.a ** 2
    self.inv_lam = np.where(l > 0, 1.0 / np.where(l > 0, self.lam, 1.0), 0.0)
    rho = np.asarray(densities, float)
    n = len(rho)
    D = np.zeros((n, n))
    for i in range(n):
      for j in range(n):
        D[i, j] = 1.0 if j >= i else rho[j] / rho[i]
    self.D = D
    self.omega = omega
    self.phi_ref = np.asarray(ref_potential, float)
    self.h = None if orography_modal is None else np.asarray(orography_modal, float)
    m, ll = grid.modal_mesh
    self.keep = (grid.mask & (ll <= grid.total_wavenumbers - 2)).astype(float)

  synth = Reference.synth; dlam = Reference.dlam; dth = Reference.dth; proj = Reference.proj
  wdiv = Reference.wdiv; wcurl = Reference.wcurl

  def tendency(self, vor, div, pot):
    a = self.a
    psi = vor * self.inv_lam; chi = div * self.inv_lam
    U = (self.dlam(chi) - self.dth(psi)) / a            # u cos(lat)
    V = (self.dlam(psi) + self.dth(chi)) / a            # v cos(lat)
    eta = self.synth(vor) + 2 * self.omega * self.sinlat
    phi = self.synth(pot)
    KE = (U * U + V * V) / (2 * self.cos2)
    p = jnp.einsum('ab,bml->aml', self.D, pot)
    if self.h is not None:
      p = p + self.h
    dvor = -self.wdiv(U * eta, V * eta)
    ddiv = self.wcurl(U * eta, V * eta) - self.lam * (self.proj(KE) + p)
    dpot = -self.wdiv(U * phi, V * phi) - self.phi_ref[:, None, None] * div
    k_ = self.keep
    return dvor * k_, ddiv * k_, dpot * k_
