"""C10 — dynamics are equivariant under grid-step rotations about the polar axis and the
equatorial mirror (vorticity as a pseudo-scalar)."""
from __future__ import annotations

import time
import numpy as np

import dverif  # noqa: F401
import jax
import jax.numpy as jnp

from dverif import grids, harness, models
from dverif.harness import prove_close
from dverif.poly import Space, PolyArr

PID = 'C10'
MOD = 'checks.c10'


def row_info(cfg, nrows):
  """(m, is_sin) for each modal row of the layout (padding rows: m = -1)."""
  fast = cfg.get('impl', 'real') == 'fast'
  out = []
  for a in range(nrows):
    if fast:
      m, s = a // 2, a % 2 == 1
      if a >= 2 * cfg['M']:
        m = -1
    else:
      m, s = (a + 1) // 2, (a > 0 and a % 2 == 0)
    out.append((m, s))
  return out


def rotation_matrix(cfg, nrows, k):
  """Matrix acting on the modal row axis for the rotation f'(lam) = f(lam - 2 pi k / nlon)."""
  import mpmath
  mpmath.mp.dps = 30
  phi = 2 * mpmath.pi * k / cfg['nlon']
  info = row_info(cfg, nrows)
  R = np.zeros((nrows, nrows))
  idx = {}
  for a, (m, s) in enumerate(info):
    if m >= 0:
      idx[(m, s)] = a
  for (m, s), a in idx.items():
    c = float(mpmath.cos(m * phi)); sn = float(mpmath.sin(m * phi))
    if m == 0:
      if not s:
        R[a, a] = 1.0
      continue
    ac, as_ = idx[(m, False)], idx[(m, True)]
    if not s:       # new cos = cos*c - sin*s
      R[a, ac] = c; R[a, as_] = -sn
    else:           # new sin = cos*s + sin*c
      R[a, ac] = sn; R[a, as_] = c
  return R


def mirror_factor(cfg, grid):
  info = row_info(cfg, grid.modal_shape[0])
  L = grid.modal_shape[1]
  f = np.zeros(grid.modal_shape)
  for a, (m, s) in enumerate(info):
    if m < 0:
      continue
    for l in range(L):
      f[a, l] = (-1.0) ** (l + m)
  return f


def transforms(cfg, grid, which):
  """Returns (T_scalar, T_pseudo) acting on modal arrays (..., rows, L)."""
  if which.startswith('rot'):
    k = int(which[3:])
    R = rotation_matrix(cfg, grid.modal_shape[0], k)
    f = lambda x: jnp.einsum('ab,...bl->...al', R, x)
    return f, f
  fac = mirror_factor(cfg, grid)
  return (lambda x: x * fac), (lambda x: -x * fac)


def task_pe(ctx, cfg, levels, lname, kind, which, stepper=None, option='default'):
  from dinosaur import primitive_equations as pe, time_integration as ti, sigma_coordinates as sc
  coords = models.make_coords(cfg, levels)
  grid = coords.horizontal
  K = coords.vertical.layers
  specs = models.unit_specs()
  base, zm = models.admissible_masks(grid)
  rng = np.random.default_rng(5)
  oro = rng.uniform(-0.3, 0.3, grid.modal_shape) * base
  Ts, Tp = transforms(cfg, grid, which)
  oro_t = np.asarray(Ts(jnp.asarray(oro)))
  tref = np.linspace(1.0, 1.4, K)
  cls = pe.MoistPrimitiveEquations if kind == 'moist' else pe.PrimitiveEquations
  okw = {'default': {}, 'upwind': dict(vertical_advection=sc.upwind_vertical_advection), 'sparse': dict(vertical_matmul_method='sparse')}[option]
  eq = cls(tref, oro, coords, specs, **okw); eq_t = cls(tref, oro_t, coords, specs, **okw)
  ctx.encoded(cls.explicit_terms, cls.implicit_terms, cls.implicit_inverse, pe.compute_diagnostic_state)
  tracers = ['specific_humidity'] if kind == 'moist' else ['passive']
  sp = Space(bits=10)
  tbox = {'specific_humidity': 0.01}
  xs = models.pe_state_vars(sp, coords, tracers=tracers, tracer_box=tbox)

  def mk(v, d, t, p, q):
    if kind == 'moist':
      return pe.StateWithTime(v, d, t, p, 0.0, {tracers[0]: q})
    return pe.State(v, d, t, p, {tracers[0]: q})

  def leaves(s):
    return (s.vorticity, s.divergence, s.temperature_variation, s.log_surface_pressure, s.tracers[tracers[0]])

  def tx(ls):
    return (Tp(ls[0]),) + tuple(Ts(x) for x in ls[1:])
  conf = dict(grid=grids.cfg_name(cfg), levels=lname, kind=kind, transform=which, **({'option': option} if option != 'default' else {}))
  if stepper is None:
    def both(*ls):
      s = mk(*ls); st = mk(*tx(ls))
      a = leaves(eq_t.explicit_terms(st)) + leaves(eq_t.implicit_terms(st))
      b = tx(leaves(eq.explicit_terms(s))) + tx(leaves(eq.implicit_terms(s)))
      return a, b
    prove_close(ctx, 'tendency_equivariant', both, xs, sp, config=conf, scale_floor=1.0)
  else:
    dt = 0.05
    if stepper == 'euler':
      ctx.encoded(ti.backward_forward_euler)
      st1 = ti.backward_forward_euler(eq, dt); st2 = ti.backward_forward_euler(eq_t, dt)

      def both(*ls):
        return leaves(st2(mk(*tx(ls)))), tx(leaves(st1(mk(*ls))))
      prove_close(ctx, 'step_equivariant.backward_forward_euler', both, xs, sp, config=dict(conf, dt=dt), scale_floor=1.0)
    else:
      ctx.encoded(ti.semi_implicit_leapfrog)
      st1 = ti.semi_implicit_leapfrog(eq, dt); st2 = ti.semi_implicit_leapfrog(eq_t, dt)
      ys = models.pe_state_vars(sp, coords, tracers=tracers, prefix='prev_', tracer_box=tbox)

      def both(*ls):
        cur, prev = ls[:5], ls[5:]
        _, fut_t = st2((mk(*tx(prev)), mk(*tx(cur))))
        _, fut = st1((mk(*prev), mk(*cur)))
        return leaves(fut_t), tx(leaves(fut))
      prove_close(ctx, 'step_equivariant.semi_implicit_leapfrog', both, xs + ys, sp, config=dict(conf, dt=dt), scale_floor=1.0)


def task_sw(ctx, cfg, which):
  from dinosaur import shallow_water as sw, coordinate_systems as cs, layer_coordinates as lc, scales
  grid = grids.make_grid(cfg)
  nl = 2
  coords = cs.CoordinateSystem(grid, lc.LayerCoordinates(nl))
  specs = sw.ShallowWaterSpecs(densities=np.array([1.0, 1.25]), radius=float(grid.radius), angular_velocity=1.0,
                               gravity_acceleration=1.0, scale=scales.DEFAULT_SCALE)
  base, zm = models.admissible_masks(grid)
  rng = np.random.default_rng(7)
  oro = rng.uniform(-0.3, 0.3, grid.modal_shape) * base
  Ts, Tp = transforms(cfg, grid, which)
  phi = np.array([1.0, 1.7])
  eq = sw.ShallowWaterEquations(coords, specs, oro, phi)
  eq_t = sw.ShallowWaterEquations(coords, specs, np.asarray(Ts(jnp.asarray(oro))), phi)
  ctx.encoded(sw.ShallowWaterEquations.explicit_terms, sw.ShallowWaterEquations.implicit_terms)
  ms = (nl,) + grid.modal_shape
  sp = Space(bits=10)
  v = PolyArr.variables(sp, 'v', ms, free=np.broadcast_to(zm, ms)); d = PolyArr.variables(sp, 'd', ms, free=np.broadcast_to(zm, ms))
  p = PolyArr.variables(sp, 'p', ms, free=np.broadcast_to(base, ms))

  def both(v, d, p):
    a = eq_t.explicit_terms(sw.State(Tp(v), Ts(d), Ts(p))); ai = eq_t.implicit_terms(sw.State(Tp(v), Ts(d), Ts(p)))
    b = eq.explicit_terms(sw.State(v, d, p)); bi = eq.implicit_terms(sw.State(v, d, p))
    return ((a.vorticity, a.divergence, a.potential, ai.divergence, ai.potential),
            (Tp(b.vorticity), Ts(b.divergence), Ts(b.potential), Ts(bi.divergence), Ts(bi.potential)))
  prove_close(ctx, 'tendency_equivariant.shallow_water', both, [v, d, p], sp,
              config=dict(grid=grids.cfg_name(cfg), transform=which), scale_floor=1.0)


def task_sw_trajectory(ctx, cfg, which, outer=2):
  """A multi-step TRAJECTORY built by the library itself (shallow_water_leapfrog_trajectory: semi-implicit leapfrog, exponential and
  Robert-Asselin filters, trajectory_from_step) commutes with the symmetry: every saved frame of the trajectory started from the transformed
  pair of time levels is the transformed frame.  Both starting time levels are fully symbolic (degree-4 polynomial identities for 2 steps)."""
  from dinosaur import shallow_water as sw, coordinate_systems as cs, layer_coordinates as lc, scales
  grid = grids.make_grid(cfg)
  nl = 1
  coords = cs.CoordinateSystem(grid, lc.LayerCoordinates(nl))
  specs = sw.ShallowWaterSpecs(densities=np.array([1.0]), radius=float(grid.radius), angular_velocity=1.0, gravity_acceleration=1.0, scale=scales.DEFAULT_SCALE)
  base, zm = models.admissible_masks(grid)
  rng = np.random.default_rng(17)
  oro = rng.uniform(-0.3, 0.3, grid.modal_shape) * base
  Ts, Tp = transforms(cfg, grid, which)
  phi = np.array([1.3])
  dt = 0.05
  ctx.encoded(sw.shallow_water_leapfrog_trajectory, sw.shallow_water_leapfrog_step, sw.default_filters)

  def traj(orog):
    return sw.shallow_water_leapfrog_trajectory(coords, dt, specs, inner_steps=1, outer_steps=outer, mean_potential=phi, orography=orog,
                                                filters=sw.default_filters(grid, dt), alpha=0.6)
  t0_ = traj(oro); tt = traj(np.asarray(Ts(jnp.asarray(oro))))
  ms = (nl,) + grid.modal_shape
  sp = Space(bits=10 if outer <= 2 else 7)        # 3 frames: degree 8 polynomials in ~25 variables
  b_ = np.broadcast_to
  mk = lambda pre: [PolyArr.variables(sp, pre + 'v', ms, free=b_(zm, ms)), PolyArr.variables(sp, pre + 'd', ms, free=b_(zm, ms)), PolyArr.variables(sp, pre + 'p', ms, free=b_(base, ms))]
  a0 = mk('a'); a1 = mk('b')

  def both(v0, d0, p0, v1, d1, p1):
    _, fr_t = tt((sw.State(Tp(v0), Ts(d0), Ts(p0)), sw.State(Tp(v1), Ts(d1), Ts(p1))))
    _, fr = t0_((sw.State(v0, d0, p0), sw.State(v1, d1, p1)))
    return (fr_t.vorticity, fr_t.divergence, fr_t.potential), (Tp(fr.vorticity), Ts(fr.divergence), Ts(fr.potential))
  prove_close(ctx, 'trajectory_equivariant.shallow_water_leapfrog_with_filters', both, a0 + a1, sp,
              config=dict(grid=grids.cfg_name(cfg), transform=which, frames=outer, dt=dt), scale_floor=1.0)


def make_tasks(tier, seed):
  LS = models.level_sets(seed)
  cfg = dict(M=3, L=4, nlon=8, nlat=5)
  cfgf = dict(M=3, L=4, nlon=9, nlat=5, impl='fast', base=2)
  cfge = dict(M=3, L=4, nlon=8, nlat=8, spacing='equiangular')
  tasks = []

  def add(c, ln, kind, which, stepper=None, option='default'):
    tasks.append(dict(name=f"pe-{kind}-{grids.cfg_name(c)}-{ln}-{which}" + (f'-{stepper}' if stepper else '') + (f'-{option}' if option != 'default' else ''), fn='task_pe',
                      kw=dict(cfg=c, levels=LS[ln].tolist(), lname=ln, kind=kind, which=which, stepper=stepper, option=option)))
  add(cfg, 'dy2', 'dry', 'rot1'); add(cfg, 'dy2', 'dry', 'mirror'); add(cfgf, 'dy2', 'dry', 'rot2'); add(cfgf, 'eq2', 'dry', 'mirror')
  add(cfg, 'dy2', 'moist', 'rot7'); add(cfg, 'dy2', 'moist', 'mirror')
  add(cfge, 'dy2', 'dry', 'rot3')
  # non-default options: upwind vertical advection (kinks: relu atoms), sparse vertical matmul
  add(cfg, 'dy3', 'dry', 'mirror', option='upwind'); add(cfg, 'dy2', 'dry', 'rot3', option='upwind'); add(cfg, 'dy2', 'dry', 'mirror', option='sparse')
  add(cfg, 'dy2', 'dry', 'rot1', 'euler'); add(cfg, 'dy2', 'dry', 'mirror', 'leapfrog')
  # tight odd longitude grids (longitude_nodes == 2 M - 1: the real Fourier basis is exactly complete on the nodes), both implementations
  cfgs = dict(M=3, L=4, nlon=9, nlat=5, impl='fast', base=1, stacked=True)          # stacked Fourier transforms (automatic for 129..256 wavenumbers)
  add(cfgs, 'dy2', 'dry', 'rot2'); tasks.append(dict(name=f'sw-{grids.cfg_name(cfgs)}-rot5', fn='task_sw', kw=dict(cfg=cfgs, which='rot5')))
  cfgt = dict(M=3, L=4, nlon=5, nlat=5, impl='fast', base=1); cfgtr = dict(M=3, L=4, nlon=5, nlat=5)
  add(cfgt, 'dy2', 'dry', 'rot1'); add(cfgtr, 'dy2', 'dry', 'rot2')
  for c, w in ((cfg, 'rot1'), (cfg, 'mirror'), (cfgf, 'rot8'), (cfgf, 'mirror'), (cfgt, 'rot3'), (cfgt, 'mirror')):
    tasks.append(dict(name=f'sw-{grids.cfg_name(c)}-{w}', fn='task_sw', kw=dict(cfg=c, which=w)))
  cfg2 = dict(M=2, L=3, nlon=5, nlat=4)
  tasks.append(dict(name='sw-trajectory-rot2', fn='task_sw_trajectory', kw=dict(cfg=cfg2, which='rot2')))
  tasks.append(dict(name='sw-trajectory-mirror-fast', fn='task_sw_trajectory', kw=dict(cfg=dict(cfg2, impl='fast', base=1), which='mirror')))
  if tier != 'quick':
    tasks.append(dict(name='sw-trajectory-rot1-3frames', fn='task_sw_trajectory', kw=dict(cfg=cfg2, which='rot1', outer=3)))
    cfg4 = dict(M=4, L=5, nlon=12, nlat=6)
    add(cfg4, 'dy3', 'dry', 'rot5'); add(cfg4, 'dy3', 'dry', 'mirror'); add(cfg, 'dy3', 'moist', 'rot2', 'euler')
    add(cfge, 'dy3', 'dry', 'mirror'); add(cfgf, 'dy3', 'moist', 'mirror', 'leapfrog')
  return tasks


def main(tier='quick', seed=0, jobs=None, only=None, t0=None):
  t0 = t0 or time.time()
  tasks = make_tasks(tier, seed)
  if only:
    tasks = [t for t in tasks if only in t['name']]
  if jobs is None and tier != 'quick':
    jobs = 5          # the moist K=3 step tasks need several GB each: bounded parallelism (an out-of-memory kill of one worker breaks the pool)
  results = harness.run_tasks(MOD, tasks, PID, seed, tier, jobs)
  return harness.finalize(
      PID, tier, seed, results, t0,
      explanation='Polynomial identities decided by the solver: tendency(T x) = T tendency(x) and step(T x) = T step(x) for ALL admissible '
                  'states (every coefficient symbolic), T = rotation by whole longitude grid steps (modal rotation matrices from mpmath) or the '
                  'equatorial mirror with pseudo-scalar vorticity; orography and tracers transformed alike.',
      bounds=dict(tasks=[t['name'] for t in tasks], state_box='[-1,1]', eps='1e-9 x max(coefficient mass, 1)', steps='one step of Euler pair / leapfrog, dt=0.05'),
      assumptions=['real-arithmetic semantics of the float64 IR', 'O(1) constants (unit_specs)'],
      trusted=['JAX tracing', 'dverif interpreter (validated each run)', 'z3/cvc5', 'mpmath trig constants'],
      outside=['multi-step trajectories of the primitive equations are covered by composition of the one-step identity (stated, not re-proved); shallow-water trajectories of 2 (3) frames are decided directly', 'float rounding'])
