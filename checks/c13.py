"""C13 — vertical (sigma) calculus is consistent, conservative and exact on affine data."""
from __future__ import annotations

import time
import numpy as np

import dverif  # noqa: F401
import jax
import jax.numpy as jnp

from dverif import harness, models
from dverif.harness import prove_close
from dverif.poly import Space, PolyArr

PID = 'C13'
MOD = 'checks.c13'


def task_levels(ctx, lname, boundaries, R=1.3):
  from dinosaur import sigma_coordinates as sc, jax_numpy_utils as jnu, primitive_equations as pe
  b = np.asarray(boundaries, float)
  coords = sc.SigmaCoordinates(b)
  K = coords.layers
  ctx.encoded(sc.cumulative_sigma_integral, sc.sigma_integral, sc.cumulative_log_sigma_integral,
              sc.centered_difference, sc.centered_vertical_advection, sc.upwind_vertical_advection,
              jnu.cumsum, jnu.reverse_cumsum, jnu._single_device_dot_cumsum, jnu.diff,
              pe.get_sigma_ratios, pe.get_geopotential_weights, pe.get_geopotential_diff,
              sc.SigmaCoordinates.centers.fget, sc.SigmaCoordinates.layer_thickness.fget,
              sc.SigmaCoordinates.center_to_center.fget)
  dsig = np.diff(b)                      # specification-side thickness (from the given boundaries)
  cen = (b[1:] + b[:-1]) / 2
  conf = dict(levels=lname, K=K, boundaries=[float(v) for v in b])
  shapes = [((K, 2, 2), -3), ((K,), 0), ((2, K, 3), 1)]
  for shape, axis in shapes:
    c = dict(conf, shape=list(shape), axis=axis)
    sp = Space(bits=12)
    x = PolyArr.variables(sp, 'x', shape)
    bshape = [1] * len(shape); bshape[axis] = K
    ds = dsig.reshape(bshape)
    take = lambda a, i: jax.lax.index_in_dim(a, i, axis=axis % len(shape), keepdims=True)

    def integrals(x):
      down = sc.cumulative_sigma_integral(x, coords, axis=axis)
      up = sc.cumulative_sigma_integral(x, coords, axis=axis, downward=False)
      tot = sc.sigma_integral(x, coords, axis=axis)
      ref_tot = jnp.sum(x * ds, axis=axis % len(shape), keepdims=True)
      return ((take(down, K - 1), take(up, 0), tot, down + up - tot),
              (tot, tot, ref_tot, x * ds))
    prove_close(ctx, 'integrals.last_total_and_down_up_local', integrals, [x], sp, config=c, scale_floor=float(dsig.max()))

    def cumsums(x):
      return ((jnu.cumsum(x, axis, method='dot'), jnu.reverse_cumsum(x, axis, method='dot'),
               sc.cumulative_sigma_integral(x, coords, axis=axis, cumsum_method='jax'),
               sc.cumulative_sigma_integral(x, coords, axis=axis, downward=False, cumsum_method='jax')),
              (jnu.cumsum(x, axis, method='jax'), jnu.reverse_cumsum(x, axis, method='jax'),
               sc.cumulative_sigma_integral(x, coords, axis=axis, cumsum_method='dot'),
               sc.cumulative_sigma_integral(x, coords, axis=axis, downward=False, cumsum_method='dot')))
    prove_close(ctx, 'cumsum.strategies_agree', cumsums, [x], sp, config=c)
    # reference definition of the cumulative sum itself (prefix sums written out by the harness)
    tri = np.tril(np.ones((K, K)))

    def cumsum_ref(x):
      xm = jnp.moveaxis(x, axis % len(shape), -1)
      return ((jnu.cumsum(x, axis), jnu.reverse_cumsum(x, axis)),
              (jnp.moveaxis(jnp.einsum('ij,...j->...i', tri, xm), -1, axis % len(shape)),
               jnp.moveaxis(jnp.einsum('ji,...j->...i', tri, xm), -1, axis % len(shape))))
    prove_close(ctx, 'cumsum.equals_prefix_sums', cumsum_ref, [x], sp, config=c)

    if K >= 2:
      # centred difference is exact on affine profiles a + b*sigma (a, b symbolic per column)
      sp2 = Space(bits=12)
      col_shape = tuple(1 if i == axis % len(shape) else s for i, s in enumerate(shape))
      a0 = PolyArr.variables(sp2, 'a', col_shape); b0 = PolyArr.variables(sp2, 'b', col_shape)
      sig = cen.reshape(bshape)
      dshape = tuple(K - 1 if i == axis % len(shape) else s for i, s in enumerate(shape))

      def affine(a, bb):
        prof = a + bb * sig
        return sc.centered_difference(prof, coords, axis=axis), jnp.broadcast_to(bb, dshape)
      prove_close(ctx, 'centered_difference.exact_on_affine', affine, [a0, b0], sp2, config=c, scale_floor=1.0)

      # summation by parts: sum_k dsig_k [adv_k(w, x) - x_k (w_{k+1/2} - w_{k-1/2})/dsig_k] = 0 (flux form -d(w x)/dsigma sums to 0), zero boundary w
      sp3 = Space(bits=11)
      xx = PolyArr.variables(sp3, 'x', shape)
      w = PolyArr.variables(sp3, 'w', dshape)
      ax = axis % len(shape)
      zero_slab = np.zeros(col_shape)

      def sbp(w, x):
        adv = sc.centered_vertical_advection(w, x, coords, axis=axis)
        wp = jnp.concatenate([zero_slab, w, zero_slab], axis=ax)
        conv = jnu.diff(wp, axis=ax)                 # w_{k+1/2} - w_{k-1/2}
        return (jnp.sum(adv * ds, axis=ax), jnp.sum(x * conv, axis=ax))
      prove_close(ctx, 'advection.summation_by_parts', sbp, [w, xx], sp3, config=c, scale_floor=1.0)

      # centred advection equals its defining formula
      d_cc = np.diff(cen).reshape([K - 1 if i == ax else 1 for i in range(len(shape))])

      def adv_ref(w, x):
        dx = jnu.diff(x, axis=ax) / d_cc
        wd = jnp.concatenate([zero_slab, w * dx, zero_slab], axis=ax)
        lo = jax.lax.slice_in_dim(wd, 0, K, axis=ax); hi = jax.lax.slice_in_dim(wd, 1, K + 1, axis=ax)
        return sc.centered_vertical_advection(w, x, coords, axis=axis), -0.5 * (lo + hi)
      prove_close(ctx, 'advection.centered_definition', adv_ref, [w, xx], sp3, config=c, scale_floor=1.0)

      # optional boundary values (top, bottom) for w and for dx/dsigma enter exactly as documented: the padded products are averaged
      wt = PolyArr.variables(sp3, 'wt', col_shape); wb = PolyArr.variables(sp3, 'wb', col_shape)
      gt = PolyArr.variables(sp3, 'gt', col_shape); gb = PolyArr.variables(sp3, 'gb', col_shape)

      def adv_bnd(w, x, wt, wb, gt, gb):
        dx = jnu.diff(x, axis=ax) / d_cc
        wd = jnp.concatenate([wt * gt, w * dx, wb * gb], axis=ax)
        lo = jax.lax.slice_in_dim(wd, 0, K, axis=ax); hi = jax.lax.slice_in_dim(wd, 1, K + 1, axis=ax)
        wd_w = jnp.concatenate([wt * 0.0, w * dx, wb * 0.0], axis=ax)            # only w boundary values given: dx/dsigma boundary stays 0
        lo_w = jax.lax.slice_in_dim(wd_w, 0, K, axis=ax); hi_w = jax.lax.slice_in_dim(wd_w, 1, K + 1, axis=ax)
        return ((sc.centered_vertical_advection(w, x, coords, axis=axis, w_boundary_values=(wt, wb), dx_dsigma_boundary_values=(gt, gb)),
                 sc.centered_vertical_advection(w, x, coords, axis=axis, w_boundary_values=(wt, wb))),
                (-0.5 * (lo + hi), -0.5 * (lo_w + hi_w)))
      prove_close(ctx, 'advection.boundary_values_enter_as_documented', adv_bnd, [w, xx, wt, wb, gt, gb], sp3, config=c, scale_floor=1.0)

      # upwind advection = one-sided differences, by sign pattern of w
      for pattern in ('nonneg', 'nonpos', 'mixed'):
        sp4 = Space(bits=11)
        x4 = PolyArr.variables(sp4, 'x', shape)
        n_w = int(np.prod(dshape))
        if pattern == 'nonneg':
          lo, hi = np.zeros(dshape), np.ones(dshape)
        elif pattern == 'nonpos':
          lo, hi = -np.ones(dshape), np.zeros(dshape)
        else:
          sgn = ctx.rng.integers(0, 2, size=dshape)
          lo, hi = np.where(sgn, 0.0, -1.0), np.where(sgn, 1.0, 0.0)
        w4 = PolyArr.variables(sp4, 'w', dshape, lo=lo, hi=hi)
        pos = (lo >= 0).astype(float); neg = 1.0 - pos

        def upwind(w, x):
          dx = jnu.diff(x, axis=ax) / d_cc
          up = jnp.concatenate([zero_slab, (w * pos) * dx], axis=ax)      # w_{k-1/2}^+ * dx_{k-1/2}
          dn = jnp.concatenate([(w * neg) * dx, zero_slab], axis=ax)      # w_{k+1/2}^- * dx_{k+1/2}
          return sc.upwind_vertical_advection(w, x, coords, axis=axis), -(up + dn)
        prove_close(ctx, 'advection.upwind_one_sided', upwind, [w4, x4], sp4, config=dict(c, sign_pattern=pattern), scale_floor=1.0)

  # geopotential operator = R * trapezoidal integral of T in log sigma (surface upward), both methods
  shape = (K, 2, 3)
  sp5 = Space(bits=12)
  T = PolyArr.variables(sp5, 'T', shape)
  alpha = np.empty(K)
  alpha[:-1] = np.diff(np.log(cen)) / 2; alpha[-1] = -np.log(cen[-1])   # documented sigma ratios

  def geopot(T):
    return ((pe.get_geopotential_diff(T, coords, R, method='dense'), pe.get_geopotential_diff(T, coords, R, method='sparse')),
            (R * sc.cumulative_log_sigma_integral(T, coords, downward=False),) * 2)
  prove_close(ctx, 'geopotential.equals_R_log_sigma_trapezoid', geopot, [T], sp5, config=conf)
  # ... and equals the documented explicit sum  R [alpha_k T_k + sum_{j>k} (alpha_j + alpha_{j-1}) T_j]
  G = np.zeros((K, K))
  for j in range(K):
    G[j, j] = alpha[j]
    for k in range(j + 1, K):
      G[j, k] = alpha[k] + alpha[k - 1]
  prove_close(ctx, 'geopotential.documented_weights',
              lambda T: (pe.get_geopotential_diff(T, coords, R), R * jnp.einsum('gh,hml->gml', G, T)), [T], sp5, config=conf)
  # cumulative log-sigma integral against its definition (trapezoid; constant below the lowest centre)
  dlog = np.diff(np.log(cen), append=0.0)

  def logint(T):
    integrand = jnp.concatenate([(T[1:] + T[:-1]) / 2, T[-1:]], axis=0) * dlog[:, None, None]
    tri = np.tril(np.ones((K, K)))
    return ((sc.cumulative_log_sigma_integral(T, coords), sc.cumulative_log_sigma_integral(T, coords, downward=False)),
            (jnp.einsum('ij,jml->iml', tri, integrand), jnp.einsum('ji,jml->iml', tri, integrand)))
  prove_close(ctx, 'log_sigma_integral.definition', logint, [T], sp5, config=conf)


def task_long_axis(ctx, K):
  """Level counts far beyond the usual ones (hundreds to thousands of layers; size-dependent strategy switches inside the cumulative-sum helpers
  would only show here): cumulative sums and cumulative / total sigma integrals on an equidistant K-layer set, data symbolic (K unknowns)."""
  from dinosaur import sigma_coordinates as sc, jax_numpy_utils as jnu, primitive_equations as pe
  coords = sc.SigmaCoordinates.equidistant(K)
  ctx.encoded(jnu.cumsum, jnu.reverse_cumsum, jnu._single_device_dot_cumsum, sc.cumulative_sigma_integral, sc.sigma_integral, pe.get_geopotential_diff)
  dsig = np.full(K, 1.0 / K)
  tri = np.tril(np.ones((K, K)))
  for shape, axis in (((K,), 0), ((2, K), 1)):
    c = dict(levels=f'equidistant-{K}', K=K, shape=list(shape), axis=axis)
    sp = Space(bits=(12 if 2 * K < 4000 else 14))
    x = PolyArr.variables(sp, 'x', shape)

    def cumsum_ref(x):
      xm = jnp.moveaxis(x, axis, -1)
      pre = jnp.moveaxis(jnp.einsum('ij,...j->...i', tri, xm), -1, axis); suf = jnp.moveaxis(jnp.einsum('ji,...j->...i', tri, xm), -1, axis)
      return ((jnu.cumsum(x, axis), jnu.reverse_cumsum(x, axis), jnu.cumsum(x, axis, method='jax'), jnu.reverse_cumsum(x, axis, method='jax'),
               sc.cumulative_sigma_integral(x, coords, axis=axis), sc.cumulative_sigma_integral(x, coords, axis=axis, downward=False),
               sc.sigma_integral(x, coords, axis=axis)),
              (pre, suf, pre, suf, pre / K, suf / K, jnp.sum(x, axis=axis, keepdims=True) / K))
    prove_close(ctx, 'long_axis.cumulative_sums_and_integrals_equal_prefix_sums', cumsum_ref, [x], sp, config=c, scale_floor=1.0)
  # both geopotential strategies on the long column (the cumulative-sum one is chosen automatically under a vertical mesh)
  sp = Space(bits=(12 if 2 * K < 4000 else 14))
  t = PolyArr.variables(sp, 'T', (K, 1, 1))
  prove_close(ctx, 'long_axis.geopotential_strategies_agree', lambda t: (pe.get_geopotential_diff(t, coords, 1.3, method='sparse'), pe.get_geopotential_diff(t, coords, 1.3, method='dense')),
              [t], sp, config=dict(levels=f'equidistant-{K}', K=K), scale_floor=1.0)


def task_integer_data(ctx, lname, boundaries):
  """The same calculus on integer-valued column data STORED as int64 / int32 (level indices, counts, categorical masks): integrals,
  cumulative sums (both strategies), centred differences and centred advection of an integer field equal the documented formulas
  evaluated on the real values.  The functions are traced with an integer argument; witnesses are integer arrays."""
  from dinosaur import sigma_coordinates as sc, jax_numpy_utils as jnu
  b = np.asarray(boundaries, float)
  coords = sc.SigmaCoordinates(b)
  K = coords.layers
  ctx.encoded(sc.cumulative_sigma_integral, sc.sigma_integral, sc.centered_difference, sc.centered_vertical_advection, jnu.cumsum, jnu.reverse_cumsum)
  dsig = np.diff(b); cen = (b[1:] + b[:-1]) / 2
  for dt in ('int64', 'int32'):
    for shape, axis in (((K, 2, 1), -3), ((2, K), 1)):
      ax = axis % len(shape)
      c = dict(levels=lname, K=K, shape=list(shape), axis=axis, data_dtype=dt, values='integers in [-4, 4]')
      sp = Space(bits=12)
      x = harness.with_dtype(sp, PolyArr.variables(sp, 'x', shape, lo=-4.0, hi=4.0), dt)
      dshape = tuple(K - 1 if i == ax else s_ for i, s_ in enumerate(shape))
      w = PolyArr.variables(sp, 'w', dshape)
      bshape = [1] * len(shape); bshape[ax] = K
      ds = dsig.reshape(bshape)
      tri = np.tril(np.ones((K, K)))
      d_cc = np.diff(cen).reshape([K - 1 if i == ax else 1 for i in range(len(shape))])
      col_shape = tuple(1 if i == ax else s_ for i, s_ in enumerate(shape))
      zero_slab = np.zeros(col_shape)

      def integrals(x):
        xr = x.astype(jnp.float64)
        pre = lambda t: jnp.moveaxis(jnp.einsum('ij,...j->...i', tri, jnp.moveaxis(t, ax, -1)), -1, ax)
        return ((sc.sigma_integral(x, coords, axis=axis), sc.cumulative_sigma_integral(x, coords, axis=axis),
                 sc.cumulative_sigma_integral(x, coords, axis=axis, cumsum_method='jax'),
                 jnu.cumsum(x, axis, method='dot'), jnu.cumsum(x, axis, method='jax')),
                (jnp.sum(xr * ds, axis=ax, keepdims=True), pre(xr * ds), pre(xr * ds), pre(xr), pre(xr)))
      prove_close(ctx, 'integer_data.integrals_and_cumulative_sums', integrals, [x], sp, config=c, scale_floor=1.0)
      if K >= 2:
        def differences(x, w):
          xr = x.astype(jnp.float64)
          dx = (jax.lax.slice_in_dim(xr, 1, K, axis=ax) - jax.lax.slice_in_dim(xr, 0, K - 1, axis=ax)) / d_cc
          wd = jnp.concatenate([zero_slab, w * dx, zero_slab], axis=ax)
          lo = jax.lax.slice_in_dim(wd, 0, K, axis=ax); hi = jax.lax.slice_in_dim(wd, 1, K + 1, axis=ax)
          return ((sc.centered_difference(x, coords, axis=axis), sc.centered_vertical_advection(w, x, coords, axis=axis)),
                  (dx, -0.5 * (lo + hi)))
        prove_close(ctx, 'integer_data.centered_difference_and_advection', differences, [x, w], sp, config=c, scale_floor=1.0)


def task_validation(ctx, K):
  """SigmaCoordinates(boundaries) with SYMBOLIC boundaries: the real constructor is executed on every feasible path
  (decision-replay exploration, branch feasibility by z3); accepted  <=>  strictly increasing from 0 to 1 (to np.isclose tolerance)."""
  import z3
  from dinosaur import sigma_coordinates as sc
  from dverif.pysym import BranchReal, PathExplorer
  from dverif import smt
  ctx.encoded(sc.SigmaCoordinates.__init__)

  def isclose(a, b, rtol=1e-5, atol=1e-8):          # documented contract of np.isclose (np.isfinite has no object loop)
    return abs(a - b) <= atol + rtol * abs(b)
  sc.np.isclose = isclose
  bs = [z3.Real(f'b{i}') for i in range(K + 1)]
  box = [z3.And(b >= -2, b <= 3) for b in bs]
  ex = PathExplorer(box, max_paths=512)

  def run():
    arr = np.empty(K + 1, dtype=object)
    for i, b in enumerate(bs):
      arr[i] = BranchReal(b)
    return sc.SigmaCoordinates(arr)
  paths = ex.explore(run)
  from fractions import Fraction
  q = lambda v: z3.RealVal(Fraction(float(v)))
  absz = lambda t: z3.If(t >= 0, t, -t)
  spec = z3.And(*([bs[i] < bs[i + 1] for i in range(K)] + [absz(bs[0]) <= q(1e-8), absz(bs[K] - 1) <= q(1e-8 + 1e-5 * 1.0)]))   # the double the code computes for atol + rtol*|1|
  conf = dict(K=K, paths=len(paths), feasibility_queries=ex.queries, exhaustive=bool(ex.exhausted), stubs=['np.isclose -> |a-b| <= atol + rtol |b|'])
  bad = []
  nq = 0
  for pc, (kind, val) in paths:
    if kind == 'return':
      v, m = smt.check_z3(box + pc + [z3.Not(spec)], 'QF_LRA', 20000, want_model=True); nq += 1
      if v != 'unsat':
        bad.append(('accepted although not strictly increasing from 0 to 1', v, m))
    elif isinstance(val, ValueError):
      v, m = smt.check_z3(box + pc + [spec], 'QF_LRA', 20000, want_model=True); nq += 1
      if v != 'unsat':
        bad.append(('rejected although valid', v, m))
    else:
      bad.append((f'unexpected exception {type(val).__name__}: {val}', 'sat', None))
  # the explored path conditions cover the whole box
  v, _ = smt.check_z3(box + [z3.Not(z3.Or(*[z3.And(*pc) if pc else z3.BoolVal(True) for pc, _ in paths]))], 'QF_LRA', 20000); nq += 1
  if v != 'unsat' or not ex.exhausted:
    bad.append(('paths do not cover the input box', v, None))
  ctx.clause('level_sets_not_strictly_increasing_from_0_to_1_are_rejected', 'discharged' if not bad else 'failed', config=conf, queries=nq + ex.queries)
  for msg, v, m in bad:
    if m is not None:
      vals = []
      for b in bs:
        x = m.eval(b, model_completion=True)
        vals.append(float(x.as_fraction()))
      try:
        from dinosaur import sigma_coordinates as real
        import importlib
        real.np.isclose = np.isclose if not hasattr(np.isclose, '__wrapped__') else np.isclose
        sc_ok = True
        try:
          import numpy
          importlib.reload(numpy.core.numeric) if False else None
        except Exception:
          pass
      except Exception:
        pass
      ctx.violation('level_sets_not_strictly_increasing_from_0_to_1_are_rejected', dict(config=dict(K=K), kind=msg), dict(inputs=[vals]), f'SigmaCoordinates({vals}): {msg}')
    else:
      ctx.error('sigma validation', msg)


def task_validation_nonfinite(ctx):
  """Level sets containing NaN or an infinity are not increasing sequences of numbers from 0 to 1 and must be rejected.  The symbolic exploration
  above ranges over the reals, which cannot represent these IEEE values, so this clause enumerates them: every position of every valid base set
  (1-4 layers) replaced by NaN, +inf, -inf (exhaustive over positions x special values; reported as enumeration)."""
  import itertools
  from dinosaur import sigma_coordinates as sc
  ctx.encoded(sc.SigmaCoordinates.__init__)
  bases = [[0.0, 1.0], [0.0, 0.4, 1.0], [0.0, 0.2, 0.7, 1.0], [0.0, 0.1, 0.3, 0.6, 1.0]]
  accepted = []
  n = 0
  for b in bases:
    for pos, val in itertools.product(range(len(b)), (float('nan'), float('inf'), float('-inf'))):
      c = list(b); c[pos] = val
      n += 1
      try:
        with np.errstate(all='ignore'):
          sc.SigmaCoordinates(np.array(c))
        accepted.append(c)
      except ValueError:
        pass
    for p1, p2 in itertools.combinations(range(1, len(b) - 1), 2):
      c = list(b); c[p1] = float('nan'); c[p2] = float('nan'); n += 1
      try:
        with np.errstate(all='ignore'):
          sc.SigmaCoordinates(np.array(c))
        accepted.append(c)
      except ValueError:
        pass
  conf = dict(cases=n, base_sets=len(bases), special_values=['nan', 'inf', '-inf'])
  ctx.clause('level_sets_with_non_finite_boundaries_are_rejected', 'discharged' if not accepted else 'failed', config=dict(conf, exhaustive=True), queries=0, elements=n)
  if accepted:
    ctx.violation('level_sets_with_non_finite_boundaries_are_rejected', dict(config=conf, kind='nonfinite-accepted'), dict(inputs=[[repr(v) for v in c] for c in accepted[:8]]),
                  f'SigmaCoordinates({accepted[0]}) was accepted although it is not strictly increasing from 0 to 1 ({len(accepted)} of {n} non-finite level sets accepted)')


def make_tasks(tier, seed):
  LS = models.level_sets(seed)
  names = ['eq1', 'eq2', 'eq5', 'dy2', 'dy3', 'dy5', 'un4'] + [k for k in LS if k.startswith('rnd')]
  if tier != 'quick':
    rng = np.random.default_rng(seed + 5)
    for k in (6, 8, 12):
      bb = np.sort(rng.uniform(0.02, 0.98, k - 1))
      LS[f'rnd{k}b'] = np.concatenate([[0.0], np.round(bb, 4), [1.0]])
      names.append(f'rnd{k}b')
    names += ['eq3', 'dy4']
  tasks = [dict(name=n, fn='task_levels', kw=dict(lname=n, boundaries=LS[n].tolist())) for n in names]
  for K in (1, 2, 3) if tier == 'quick' else (1, 2, 3, 4):
    tasks.append(dict(name=f'validation-K{K}', fn='task_validation', kw=dict(K=K)))
  tasks.append(dict(name='validation-nonfinite', fn='task_validation_nonfinite', kw={}))
  for K in (130, 600) if tier == 'quick' else (130, 600, 1030, 2050):
    tasks.append(dict(name=f'long-axis-{K}', fn='task_long_axis', kw=dict(K=K)))
  for n in ['dy3', 'un4'] + (['eq5', 'dy5'] if tier != 'quick' else []):
    tasks.append(dict(name=f'integer-data-{n}', fn='task_integer_data', kw=dict(lname=n, boundaries=LS[n].tolist())))
  return tasks


def main(tier='quick', seed=0, jobs=None, only=None, t0=None):
  t0 = t0 or time.time()
  tasks = make_tasks(tier, seed)
  if only:
    tasks = [t for t in tasks if only in t['name']]
  results = harness.run_tasks(MOD, tasks, PID, seed, tier, jobs)
  return harness.finalize(
      PID, tier, seed, results, t0,
      explanation='Bounded symbolic verification of the sigma-coordinate calculus: every identity is decided for ALL column data / '
                  'vertical velocities (symbolic, box [-1,1]) on each enumerated level set, axis and shape; bilinear clauses '
                  '(summation by parts, advection definitions) through monomial abstraction; upwinding by sign patterns of w.',
      bounds=dict(level_sets=[t['name'] for t in tasks], shapes='(K,2,2) axis -3; (K,) axis 0; (2,K,3) axis 1', eps='1e-9 x max(mass, floor)'),
      assumptions=['real-arithmetic semantics of the float64 IR', 'level sets are concrete (validated eagerly by the code), data universally quantified'],
      trusted=['JAX tracing', 'dverif interpreter (validated each run)', 'z3/cvc5'],
      outside=['float rounding of evaluation (e.g. the float32 precision hint in centered_difference)',
               'level-set validation: K <= 3 (quick) / 4 boundaries symbolic in [-2, 3]; np.isclose replaced by its documented contract'])
