"""C02 — spectral differential operators are exact on band-limited fields."""
from __future__ import annotations

import time
import numpy as np

import dverif  # noqa: F401
import jax.numpy as jnp

from dverif import grids, harness
from dverif.harness import prove_close
from dverif.poly import Space, PolyArr

PID = 'C02'
MOD = 'checks.c02'


def quad_degree(cfg):
  n = cfg['nlat']
  return 2 * n - 1 if cfg.get('spacing', 'gauss') == 'gauss' else n - 1


def task_grid(ctx, cfg, used=False):
  from dinosaur import spherical_harmonic as sh, fourier, jax_numpy_utils as jnu
  grid = grids.make_grid(cfg)
  name = grids.cfg_name(cfg) + ('-used' if used else '')
  if used:
    # the clauses run on a grid object that has been used before with other option values (grids.exercise)
    grids.exercise(grid)
  G = sh.Grid
  ctx.encoded(G.d_dlon, G.cos_lat_d_dlat, G.sec_lat_d_dlat_cos2, G.cos_lat_grad, G.div_cos_lat,
              G.curl_cos_lat, G.laplacian, G.inverse_laplacian, G.clip_wavenumbers, G.k_cross,
              G._derivative_recurrence_weights.func, sh.get_cos_lat_vector, sh.vor_div_to_uv_nodal,
              sh.uv_nodal_to_vor_div_modal, fourier.real_basis_derivative,
              fourier.real_basis_derivative_with_zero_imag, jnu.shift, jnu.pad_in_dim,
              type(grid.spherical_harmonics).longitudinal_derivative)
  M, L = cfg['M'], cfg['L']
  ms, ns = grid.modal_shape, grid.nodal_shape
  r = float(grid.radius)
  mm, ll = grid.modal_mesh
  conf = dict(grid=name, spacing=cfg.get('spacing', 'gauss'))
  nlon, nlat = cfg['nlon'], cfg['nlat']
  sel_n = np.zeros(ns, bool); sel_n[:nlon, :nlat] = True
  Y, dl, dt = grids.analytic_basis(grid, cfg)
  mu = np.zeros(ns[1]); mu[:nlat] = np.asarray(grid.nodal_axes[1])[:nlat]
  dt2 = dt - 2 * mu[None, :, None, None] * Y           # sec d/dtheta (cos^2 .) of the basis
  syn = lambda T, x: jnp.einsum('ijml,ml->ij', T, x)
  below = grid.mask & (ll <= L - 2)

  # ---- A. operators against analytic derivatives of the synthesised function (nodal space)
  sp = Space(bits=14)
  x = PolyArr.variables(sp, 'x', ms, free=below)
  y = PolyArr.variables(sp, 'y', ms, free=below)
  prove_close(ctx, 'A.d_dlon', lambda x: (grid.to_nodal(grid.d_dlon(x)), syn(dl, x)), [x], sp, select=[sel_n], config=conf)
  if M <= 4:
    # storage dtype: integer-valued coefficients held in an int64 array give the same derivatives as the same values in float64
    spi = Space(bits=14)
    xi = harness.with_dtype(spi, PolyArr.variables(spi, 'xi', ms, lo=-4.0, hi=4.0, free=below), 'int64')
    ops = lambda z: (grid.d_dlon(z), grid.cos_lat_d_dlat(z), grid.sec_lat_d_dlat_cos2(z), grid.laplacian(z), grid.inverse_laplacian(z),
                     grid.clip_wavenumbers(z), grid.cos_lat_grad(z)[1], grid.div_cos_lat((z, z)), grid.curl_cos_lat((z, z)))
    prove_close(ctx, 'A.integer_stored_coefficients_give_the_same_operators', lambda z: (ops(z), ops(z.astype(jnp.float64))), [xi], spi, config=conf, scale_floor=1.0)
  prove_close(ctx, 'A.cos_lat_d_dlat', lambda x: (grid.to_nodal(grid.cos_lat_d_dlat(x)), syn(dt, x)), [x], sp, select=[sel_n], config=conf)
  prove_close(ctx, 'A.sec_lat_d_dlat_cos2', lambda x: (grid.to_nodal(grid.sec_lat_d_dlat_cos2(x)), syn(dt2, x)), [x], sp, select=[sel_n], config=conf)
  prove_close(ctx, 'A.cos_lat_grad',
              lambda x: (tuple(grid.to_nodal(c) for c in grid.cos_lat_grad(x, clip=False)), (syn(dl, x) / r, syn(dt, x) / r)),
              [x], sp, select=[sel_n, sel_n], config=conf)
  prove_close(ctx, 'A.div_cos_lat',
              lambda x, y: (grid.to_nodal(grid.div_cos_lat((x, y), clip=False)), (syn(dl, x) + syn(dt2, y)) / r),
              [x, y], sp, select=[sel_n], config=conf)
  prove_close(ctx, 'A.curl_cos_lat',
              lambda x, y: (grid.to_nodal(grid.curl_cos_lat((x, y), clip=False)), (syn(dl, y) - syn(dt2, x)) / r),
              [x, y], sp, select=[sel_n], config=conf)
  if L >= 3:
    # default clip=True must not alter anything when the result stays below the top wavenumber
    below3 = grid.mask & (ll <= L - 3)
    sp_c = Space(bits=14)
    xc = PolyArr.variables(sp_c, 'x', ms, free=below3); yc = PolyArr.variables(sp_c, 'y', ms, free=below3)
    prove_close(ctx, 'A.clip_default_transparent',
                lambda x, y: ((grid.cos_lat_grad(x), grid.div_cos_lat((x, y)), grid.curl_cos_lat((x, y))),
                              (grid.cos_lat_grad(x, clip=False), grid.div_cos_lat((x, y), clip=False), grid.curl_cos_lat((x, y), clip=False))),
                [xc, yc], sp_c, exact=True, twin=False, config=conf)

  # ---- B. Laplacian eigenvalues, inverse, clipping (modal space, spec constants from l = column index)
  lcol = np.arange(ms[1], dtype=float)
  eig = np.where(np.arange(ms[1]) < L, -lcol * (lcol + 1) / r ** 2, 0.0)
  sp_b = Space(bits=14)
  xb = PolyArr.variables(sp_b, 'x', ms, free=grid.mask)
  prove_close(ctx, 'B.laplacian_eigenvalues', lambda x: (grid.laplacian(x), x * eig), [xb], sp_b,
              select=[grid.mask], config=conf)
  zm = grid.mask & (ll >= 1)
  sp_b2 = Space(bits=14)
  xz = PolyArr.variables(sp_b2, 'x', ms, free=zm)
  prove_close(ctx, 'B.inverse_laplacian', lambda x: ((grid.inverse_laplacian(grid.laplacian(x)), grid.laplacian(grid.inverse_laplacian(x))), (x, x)),
              [xz], sp_b2, config=conf)
  sp_b3 = Space(bits=14)
  xall = PolyArr.variables(sp_b3, 'x', ms)
  keep = np.ones(ms, bool); keep[:, L - 1:] = False
  prove_close(ctx, 'B.clip_wavenumbers', lambda x: (grid.clip_wavenumbers(x), x * keep), [xall], sp_b3,
              exact=True, twin=False, config=conf)
  # clip counts other than the default, interleaved with the default (each call must honour its own n)
  for nclip in (2, 3):
    if L - nclip < 1:
      continue
    keepn = np.ones(ms, bool); keepn[:, L - nclip:] = False
    prove_close(ctx, 'B.clip_wavenumbers', lambda x, nclip=nclip, keepn=keepn: ((grid.clip_wavenumbers(x, n=nclip), grid.clip_wavenumbers(x)), (x * keepn, x * keep)), [xall], sp_b3,
                exact=True, twin=False, config=dict(conf, n=nclip))
  prove_close(ctx, 'B.inverse_laplacian_mean_and_padding',
              lambda x: (grid.inverse_laplacian(x) * (~zm | (np.arange(ms[1]) >= L)[None, :]) * 1.0, jnp.zeros(ms)), [xall], sp_b3,
              select=[(ll == 0) | (np.arange(ms[1]) >= L)[None, :]], exact=True, twin=False, config=conf)

  # ---- F. leading (batch / level) axes: every operator applied to a stacked field equals the operator applied slice by slice (exact)
  if M <= 4:
    lead = (2, 2)
    sp_f = Space(bits=14)
    xb = PolyArr.variables(sp_f, 'xb', lead + ms); yb = PolyArr.variables(sp_f, 'yb', lead + ms)

    def ops1(x, y):
      out = [grid.d_dlon(x), grid.cos_lat_d_dlat(x), grid.sec_lat_d_dlat_cos2(x), grid.laplacian(x), grid.inverse_laplacian(x), grid.clip_wavenumbers(x),
             grid.clip_wavenumbers(x, n=2) if L > 2 else grid.clip_wavenumbers(x)]
      out += list(grid.cos_lat_grad(x)) + list(grid.cos_lat_grad(x, clip=False)) + [grid.div_cos_lat((x, y)), grid.curl_cos_lat((x, y), clip=False)] + list(grid.k_cross((x, y)))
      if cfg.get('spacing', 'gauss') != 'equiangular_with_poles':
        out += list(sh.get_cos_lat_vector(x, y, grid))
      return tuple(out)

    def batched(x, y):
      whole = ops1(x, y)
      parts = [[ops1(x[i, j], y[i, j]) for j in range(lead[1])] for i in range(lead[0])]
      sl = tuple(jnp.stack([jnp.stack([parts[i][j][k] for j in range(lead[1])]) for i in range(lead[0])]) for k in range(len(whole)))
      return whole, sl
    prove_close(ctx, 'F.leading_axes_act_slice_by_slice', batched, [xb, yb], sp_f, exact=True, twin=False, config=dict(conf, lead=list(lead)))

  # ---- C. winds
  D = quad_degree(cfg)
  l_w = min(L - 2, D // 2)
  mres = grids.resolved_m(cfg)
  if l_w >= 1:
    sup = grid.mask & (ll >= 1) & (ll <= l_w) & (np.abs(mm) <= mres)
    sp_w = Space(bits=14)
    vor = PolyArr.variables(sp_w, 'vor', ms, free=sup); div = PolyArr.variables(sp_w, 'div', ms, free=sup)
    confw = dict(conf, l_w=l_w)
    # analytic winds from stream function / velocity potential
    inv = np.where((np.arange(ms[1]) >= 1) & (np.arange(ms[1]) < L), 1.0 / np.where(eig != 0, eig, 1.0), 0.0)

    def winds(vor, div):
      ucos, vcos = sh.get_cos_lat_vector(vor, div, grid, clip=False)
      psi = vor * inv; chi = div * inv
      return ((grid.to_nodal(ucos), grid.to_nodal(vcos)),
              ((syn(dl, chi) - syn(dt, psi)) / r, (syn(dl, psi) + syn(dt, chi)) / r))
    prove_close(ctx, 'C.cos_lat_vector_analytic', winds, [vor, div], sp_w, select=[sel_n, sel_n], config=confw)

    def roundtrip(vor, div):
      u, v = sh.vor_div_to_uv_nodal(grid, vor, div, clip=False)
      return sh.uv_nodal_to_vor_div_modal(grid, u, v, clip=False), (vor, div)
    selw = grid.mask & (ll <= l_w) & (np.abs(mm) <= mres)
    prove_close(ctx, 'C.vor_div_uv_roundtrip', roundtrip, [vor, div], sp_w, select=[selw, selw], config=confw)
    l_c = min(l_w, L - 3)
    if l_c >= 1:
      supc = sup & (ll <= l_c)
      sp_wc = Space(bits=14)
      vc = PolyArr.variables(sp_wc, 'vor', ms, free=supc); dc = PolyArr.variables(sp_wc, 'div', ms, free=supc)

      def roundtrip_c(vor, div):
        u, v = sh.vor_div_to_uv_nodal(grid, vor, div)
        return sh.uv_nodal_to_vor_div_modal(grid, u, v), (vor, div)
      selc = grid.mask & (ll <= l_c) & (np.abs(mm) <= mres)
      prove_close(ctx, 'C.vor_div_uv_roundtrip_default_clip', roundtrip_c, [vc, dc], sp_wc, select=[selc, selc], config=dict(confw, l_c=l_c))

    # ---- D. vector-calculus identities through the nodal 1/cos^2 (weak form, quadrature exact)
    sp_d = Space(bits=14)
    xs = PolyArr.variables(sp_d, 'x', ms, free=grid.mask & (ll <= l_w) & (np.abs(mm) <= mres))

    def ident(x):
      g = grid.cos_lat_grad(x, clip=False)
      w = tuple(grid.to_modal(grid.to_nodal(c) * grid.sec2_lat) for c in g)
      kx = grid.k_cross(w)
      return ((grid.curl_cos_lat(w, clip=False), grid.div_cos_lat(kx, clip=False), grid.div_cos_lat(w, clip=False)),
              (jnp.zeros(ms), jnp.zeros(ms), grid.laplacian(x)))
    lap_scale = float(np.abs(eig).max())
    prove_close(ctx, 'D.curl_grad_div_rot_div_grad', ident, [xs], sp_d, select=[selw, selw, selw],
                config=confw, scale_floor=lap_scale)

  # ---- E. contribution of the top input wavenumber to the coefficients below it (weak form)
  if cfg.get('spacing', 'gauss') == 'gauss' and 2 * nlat - 1 >= 2 * L and mres >= M - 1:
    sp_e = Space(bits=14)
    xt = PolyArr.variables(sp_e, 'x', ms, free=grid.mask)
    prove_close(ctx, 'E.top_wavenumber_contribution',
                lambda x: ((grid.cos_lat_d_dlat(x), grid.sec_lat_d_dlat_cos2(x)),
                           (grid.to_modal(syn(dt, x)), grid.to_modal(syn(dt2, x)))),
                [xt], sp_e, select=[below, below], config=conf)


def make_tasks(tier, seed):
  G = grids.quick_grids(seed) if tier == 'quick' else grids.thorough_grids(seed)
  tasks = [dict(name=grids.cfg_name(c), fn='task_grid', kw=dict(cfg=c)) for c in G if c['L'] >= 2]
  for c in (G[1], G[2], G[7]) if tier == 'quick' else G[:12]:
    tasks.append(dict(name=grids.cfg_name(c) + '-used', fn='task_grid', kw=dict(cfg=c, used=True)))
  return tasks


def main(tier='quick', seed=0, jobs=None, only=None, t0=None):
  t0 = t0 or time.time()
  tasks = make_tasks(tier, seed)
  if only:
    tasks = [t for t in tasks if only in t['name']]
  results = harness.run_tasks(MOD, tasks, PID, seed, tier, jobs)
  return harness.finalize(
      PID, tier, seed, results, t0,
      explanation='Bounded symbolic verification: every spectral operator of Grid is traced and interpreted on symbolic '
                  'fields; results are compared, for all coefficient values, (A) in nodal space with mpmath-evaluated analytic '
                  'derivatives of the basis, (B) with the eigenvalue specification, (C) winds: analytic and round trip, '
                  '(D) vector identities, (E) top-wavenumber contribution via quadrature. QF_LRA queries.',
      bounds=dict(grids=[t['name'] for t in tasks], coefficient_box='[-1,1]', eps='1e-9 x coefficient-mass of the compared leaf',
                  supports='A: l<=L-2; C/D: l<=min(L-2, quadrature_degree/2), |m|<=(nlon-1)/2; E: gauss grids with 2 nlat-1 >= 2L'),
      assumptions=['real-arithmetic semantics of the float64 IR', 'enumerated grids; inputs universally quantified'],
      trusted=['JAX tracing', 'dverif interpreter (validated at random points every run)', 'z3/cvc5', 'mpmath closed forms'],
      outside=['float rounding of evaluation', 'dynamics on equiangular_with_poles (known finding F9: division by cos(lat)=0)'])
