"""C01 — spherical-harmonic analysis inverts synthesis; discrete orthonormality.

For each enumerated grid the real `Grid.to_nodal / to_modal / integrate` are traced (float64
jaxpr; Legendre/Fourier tables, quadrature weights are the IR's constants) and interpreted on a
fully symbolic spectral field.  Every clause is an SMT query over all coefficients in [-1, 1].
"""
from __future__ import annotations

import time
import numpy as np

import dverif  # noqa: F401
import jax.numpy as jnp

from dverif import grids, harness
from dverif.harness import prove_close
from dverif.poly import Space, PolyArr

PID = 'C01'
MOD = 'checks.c01'


def task_grid(ctx, cfg, lead_shapes=((), (2,)), bilinear=False, analytic=True, used=False):
  from dinosaur import spherical_harmonic as sh, associated_legendre as al, fourier
  grid = grids.make_grid(cfg)
  name = grids.cfg_name(cfg) + ('-used' if used else '')
  if used:
    grids.exercise(grid)      # the clauses run on a grid object that has been used before (other options, dtypes, leading axes)
  ctx.encoded(sh.Grid.to_nodal, sh.Grid.to_modal, sh.Grid.integrate,
              type(grid.spherical_harmonics).transform, type(grid.spherical_harmonics).inverse_transform,
              type(grid.spherical_harmonics).basis.func, al.evaluate, al._evaluate_rhombus,
              sh.LATITUDE_SPACINGS[cfg.get('spacing', 'gauss')], al._compute_weights,
              fourier.real_basis, fourier.real_basis_with_zero_imag, fourier.quadrature_nodes)
  res = grids.resolved_mask(grid, cfg)
  ms = grid.modal_shape; ns = grid.nodal_shape
  # (g) the code's mask and wavenumber tables are the documented triangular truncation (specification written in grids.spec_mask from the
  #     documented layouts): every other clause quantifies over the coefficients this mask declares
  smask = grids.spec_mask(cfg, ms)
  mrow, lcol = grids.spec_modal_axes(cfg, ms)
  ma, la = (np.asarray(t) for t in grid.modal_axes)
  okm = bool(np.array_equal(np.asarray(grid.mask), smask)) and bool(np.array_equal(ma, mrow)) and bool(np.array_equal(la, lcol))
  ctx.clause('g.mask_and_wavenumber_tables_are_the_documented_truncation', 'discharged' if okm else 'failed', config=dict(grid=name), queries=0, elements=int(smask.size))
  if not okm:
    diff = np.argwhere(np.asarray(grid.mask) != smask)[:5].tolist()
    ctx.violation('g.mask_and_wavenumber_tables_are_the_documented_truncation', dict(config=dict(grid=name), kind='mask'),
                  dict(mask_differs_at=diff, m_rows=ma.tolist(), m_rows_spec=mrow.tolist(), l_cols=la.tolist(), l_cols_spec=lcol.tolist()),
                  f'{name}: Grid.mask / modal_axes differ from the documented triangular truncation (first differing mask slots {diff})')
  r2 = float(grid.radius) ** 2
  for lead in lead_shapes:
    conf = dict(grid=name, lead=list(lead))
    shape = tuple(lead) + ms
    # (a) round trip on resolved coefficients
    sp = Space(bits=14)
    x = PolyArr.variables(sp, 'x', shape, free=np.broadcast_to(res, shape))
    prove_close(ctx, 'a.roundtrip', lambda x: (grid.to_modal(grid.to_nodal(x)), x), [x], sp,
                select=[np.broadcast_to(res, shape)], config=conf)
    # (d) integral = r^2 sqrt(4 pi) x00
    c = float(np.sqrt(4 * np.pi))
    prove_close(ctx, 'd.integral', lambda x: (grid.integrate(grid.to_nodal(x)), r2 * c * x[..., 0, 0]), [x], sp,
                config=conf, scale_floor=r2 * c)
    if lead == ():
      # (b) analysis of an arbitrary nodal field has exact zeros outside the truncation mask
      sp2 = Space(bits=14)
      z = PolyArr.variables(sp2, 'z', ns)
      prove_close(ctx, 'b.mask_zero', lambda z: (grid.to_modal(z), jnp.zeros(ms)), [z], sp2,
                  select=[~grid.mask], exact=True, config=conf, twin=False)
      # (c) coefficients outside the mask never influence synthesis (exact)
      sp3 = Space(bits=14)
      xa = PolyArr.variables(sp3, 'xa', ms)
      prove_close(ctx, 'c.no_influence', lambda x: (grid.to_nodal(x), grid.to_nodal(x * grid.mask)), [xa], sp3,
                  exact=True, config=conf, twin=False)
      # (f) synthesis equals the analytic basis (mpmath) on every coefficient inside the mask
      if analytic:
        Y, _, _ = grids.analytic_basis(grid, cfg)
        sp4 = Space(bits=14)
        xm = PolyArr.variables(sp4, 'xm', ms, free=grid.mask)
        nlon, nlat = cfg['nlon'], cfg['nlat']
        sel = np.zeros(ns, bool); sel[:nlon, :nlat] = True
        prove_close(ctx, 'f.analytic_synthesis',
                    lambda x: (grid.to_nodal(x), jnp.einsum('ijml,ml->ij', Y, x)), [xm], sp4,
                    select=[sel], config=conf)
  if bilinear and not used:
    # (h) storage dtype: integer-valued fields held in int64 / int32 arrays (masks, counts, indices) are transformed like their real values
    for dt in ('int64', 'int32'):
      sp6 = Space(bits=14)
      zi = harness.with_dtype(sp6, PolyArr.variables(sp6, 'zi', ns, lo=-4.0, hi=4.0), dt)
      xi = harness.with_dtype(sp6, PolyArr.variables(sp6, 'xi', ms, lo=-4.0, hi=4.0, free=grid.mask), dt)
      prove_close(ctx, 'h.integer_stored_fields_transform_like_their_values',
                  lambda z, x: ((grid.to_modal(z), grid.integrate(z), grid.to_nodal(x)),
                                (grid.to_modal(z.astype(jnp.float64)), grid.integrate(z.astype(jnp.float64)), grid.to_nodal(x.astype(jnp.float64)))),
                  [zi, xi], sp6, config=dict(grid=name, data_dtype=dt), scale_floor=1.0)
  if bilinear:
    # (e) discrete orthonormality as a bilinear form (degree-2 polynomial identity)
    sp5 = Space(bits=10)
    xs = PolyArr.variables(sp5, 'x', ms, free=res)
    ys = PolyArr.variables(sp5, 'y', ms, free=res)
    prove_close(ctx, 'e.orthonormal',
                lambda x, y: (grid.integrate(grid.to_nodal(x) * grid.to_nodal(y)), r2 * jnp.sum(x * y)),
                [xs, ys], sp5, config=dict(grid=name), scale_floor=r2)


def make_tasks(tier, seed):
  G = grids.quick_grids(seed) if tier == 'quick' else grids.thorough_grids(seed)
  tasks = []
  for i, cfg in enumerate(G):
    big = cfg['M'] > 12
    small = cfg['M'] <= 4
    tasks.append(dict(name=grids.cfg_name(cfg), fn='task_grid',
                      kw=dict(cfg=cfg, lead_shapes=((),) if big else ((), (2,), (2, 2)) if small else ((), (2,)),
                              bilinear=small, analytic=not big or True)))
  for cfg in (G[1], G[4], G[7]) if tier == 'quick' else G[:10]:
    tasks.append(dict(name=grids.cfg_name(cfg) + '-used', fn='task_grid', kw=dict(cfg=cfg, lead_shapes=((), (2,)), bilinear=False, analytic=False, used=True)))
  return tasks


def main(tier='quick', seed=0, jobs=None, only=None, t0=None):
  t0 = t0 or time.time()
  tasks = make_tasks(tier, seed)
  if only:
    tasks = [t for t in tasks if only in t['name']]
  results = harness.run_tasks(MOD, tasks, PID, seed, tier, jobs)
  return harness.finalize(
      PID, tier, seed, results, t0,
      explanation='Bounded symbolic verification: Grid.to_nodal/to_modal/integrate traced to float64 jaxprs, '
                  'interpreted on fully symbolic spectral/nodal fields (sparse affine/polynomial normal forms), '
                  'each clause decided for all coefficient values in [-1,1] by QF_LRA queries (z3, cvc5 cross-check); '
                  'synthesis additionally tied to an independent mpmath evaluation of the analytic basis.',
      bounds=dict(grids=[t['name'] for t in tasks], coefficient_box='[-1,1] per free coefficient',
                  eps='1e-9 relative to the coefficient-mass bound of the compared leaf; exact (0) for mask clauses',
                  leading_axes='(), (2,), (2,2)',
                  resolved_rule='gauss: l <= nlat-1; equiangular(_with_poles): 2l <= nlat-1; |m| <= (nlon-1)/2'),
      assumptions=['real-arithmetic semantics of the float64 IR; constants of the IR are taken as exact rationals',
                   'rounding of float evaluation (float32 runs, XLA fusion, precision hints) is outside the claim',
                   'configuration axes are enumerated (listed grids), inputs are universally quantified'],
      trusted=['JAX tracing (make_jaxpr) and primitive.bind for concrete sub-computations', 'dverif interpreter (validated every run against the jitted function at random points)', 'z3 4.x/5.x, cvc5 cross-check on sampled queries', 'mpmath closed-form Legendre functions (oracle)'],
      outside=['float rounding of evaluation', 'grids other than those enumerated'])
