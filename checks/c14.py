"""C14 — stepping and scan combinators equal their sequential definition for every split.

Step, filter, post-processing and scanned functions are UNINTERPRETED (dverif.ufprim): the verdicts
hold for every such function and all data."""
from __future__ import annotations

import itertools
import time
import numpy as np
import z3

import dverif  # noqa: F401
import jax
import jax.numpy as jnp

from dverif import harness, smt
from dverif.ufprim import uf
from dverif.term import TermArr, TermSpace, R
from dverif.jsym import Interp

PID = 'C14'
MOD = 'checks.c14'


def _flat(trees):
  out = []
  for t in jax.tree_util.tree_leaves(trees, is_leaf=lambda x: isinstance(x, TermArr)):
    if isinstance(t, TermArr):
      out.extend(t.a.reshape(-1).tolist())
    else:
      out.extend(np.asarray(t).reshape(-1).tolist())
  return out


def decide_equal(ctx, name, config, fn_impl, fn_spec, arg_shapes, logic='QF_UFLRA', assumptions_fn=None, eps=0.0, replay_args=None, box=None):
  """Interprets both functions on the same symbolic arguments and asks the solver for inputs on
  which any output element differs."""
  sp = TermSpace()
  args = [TermArr.variables(sp, f'a{i}', shp) for i, shp in enumerate(arg_shapes)]
  ex = [jnp.zeros(shp) for shp in arg_shapes]
  t0 = time.time()
  ci, si = jax.make_jaxpr(lambda *a_: fn_impl(*a_), return_shape=True)(*ex)     # fresh function objects: jax caches traces per function
  cs, ss = jax.make_jaxpr(lambda *a_: fn_spec(*a_), return_shape=True)(*ex)
  shapes_i = [tuple(x.shape) for x in jax.tree_util.tree_leaves(si)]
  shapes_s = [tuple(x.shape) for x in jax.tree_util.tree_leaves(ss)]
  if shapes_i != shapes_s or jax.tree_util.tree_structure(si) != jax.tree_util.tree_structure(ss):
    # a structural difference is a violation by itself: replay = the shapes
    ctx.violation(name, dict(config=config, kind='shape'), dict(impl=shapes_i, spec=shapes_s),
                  f'{name}: output structure/shape {shapes_i} differs from the sequential definition {shapes_s}')
    ctx.clause(name, 'failed', config=config, queries=0)
    return False
  # call-history independence: a second trace of the same implementation (same underlying objects) must give the same program
  try:
    ci2 = jax.make_jaxpr(lambda *a_: fn_impl(*a_))(*ex)
    hist = harness._jaxpr_differs(ci, ci2)
  except Exception as e_:  # noqa: BLE001
    hist = f'second evaluation raised {type(e_).__name__}: {e_}'
  if hist:
    rng = np.random.default_rng(0)
    conc = replay_args or [rng.uniform(-1, 1, shp) for shp in arg_shapes]
    try:
      r1 = jax.tree_util.tree_leaves(fn_impl(*conc)); r2 = jax.tree_util.tree_leaves(fn_impl(*conc))
      d = max((float(np.abs(np.asarray(a) - np.asarray(b)).max(initial=0.0)) if np.shape(a) == np.shape(b) else float('inf')) for a, b in zip(r1, r2))
    except Exception as e_:  # noqa: BLE001
      d = float('inf'); hist += f' (replay raised {type(e_).__name__})'
    rs = jax.tree_util.tree_leaves(fn_spec(*conc))
    d_spec = max((float(np.abs(np.asarray(a) - np.asarray(b)).max(initial=0.0)) if np.shape(a) == np.shape(b) else float('inf')) for a, b in zip(jax.tree_util.tree_leaves(fn_impl(*conc)), rs)) if rs else 0.0
    ctx.violation(name + '.repeatable', dict(config=config, kind='history_dependent', detail=hist), dict(inputs=[np.asarray(c).tolist() for c in conc], difference_between_two_calls=d, difference_to_definition_on_a_later_call=d_spec),
                  f'{name}: the result depends on the call history ({hist}); a later call differs from the sequential definition by {d_spec:.3e}')
    ctx.clause(name + '.repeatable', 'failed', config=config, queries=0)
    return False
  oi = Interp(sp).run(ci, *args); os_ = Interp(sp).run(cs, *args)
  fi, fs = _flat(oi), _flat(os_)
  assert len(fi) == len(fs)
  diffs = []
  for a, b in zip(fi, fs):
    a, b = R(a), R(b)
    if z3.is_int(a): a = z3.ToReal(a)
    if z3.is_int(b): b = z3.ToReal(b)
    if a.eq(b):
      continue
    e_ = z3.RealVal(smt.Fraction(float(eps)))
    diffs.append(a != b if eps == 0 else z3.Or(a - b > e_, b - a > e_))
  nq = 0
  ok = True
  if diffs:
    assume = assumptions_fn(sp, args) if assumptions_fn else []
    if box is not None:
      # data box: every argument and every value of an uninterpreted function lies in [-box, box] (needed for an absolute tolerance)
      bq = z3.RealVal(smt.Fraction(float(box)))
      seen = set()

      def walk(e):
        if e.get_id() in seen:
          return
        seen.add(e.get_id())
        if z3.is_app(e) and e.decl().kind() == z3.Z3_OP_UNINTERPRETED and e.sort() == z3.RealSort():
          assume.append(z3.And(e >= -bq, e <= bq))
        for c_ in e.children():
          walk(c_)
      for d_ in diffs:
        walk(d_)
    v, model = smt.check_z3(assume + [z3.Or(*diffs)], logic, 60000, want_model=True)
    nq = 1
    if v == 'sat' and assumptions_fn is not None:
      ctx.error(name, 'identity under axioms is satisfiable (no concrete replay possible for axiomatised functions)')
      ok = False
    elif v == 'sat':
      # replay on the real functions with the fixed concrete stand-in for the uninterpreted functions
      rng = np.random.default_rng(0)
      conc = replay_args or [rng.uniform(-1, 1, shp) for shp in arg_shapes]
      ri = jax.tree_util.tree_leaves(jax.jit(fn_impl)(*conc)); rs = jax.tree_util.tree_leaves(jax.jit(fn_spec)(*conc))
      d = max(float(np.abs(np.asarray(a) - np.asarray(b)).max(initial=0.0)) for a, b in zip(ri, rs))
      if d > 1e-12:
        ctx.violation(name, dict(config=config), dict(inputs=[np.asarray(c).tolist() for c in conc], discrepancy=d),
                      f'{name}: differs from the sequential definition (max |diff| = {d:.3e} with the concrete stand-in functions)')
      else:
        ctx.error(name, 'solver found a difference that does not replay with the concrete stand-in functions')
      ok = False
    elif v != 'unsat':
      ctx.error(name, f'solver verdict {v}')
      ok = False
  ctx.clause(name, 'discharged' if ok else 'failed', config=config, queries=nq, outputs=len(fi), syntactically_equal=len(fi) - len(diffs),
             wall=time.time() - t0)
  return ok


def step(u):
  a, b = u
  return (uf('step_a', a, b), uf('step_b', a, b))


def post(u):
  return uf('post', u[0], u[1])


def filt(k):
  def f(u, un):
    return (uf(f'filt{k}_a', u[0], un[0]), uf(f'filt{k}_b', u[1], un[1]))
  return f


def task_trajectory(ctx, outer, inner, start_with_input, nfilters):
  from dinosaur import time_integration as ti
  ctx.encoded(ti.trajectory_from_step, ti.repeated, ti.step_with_filters)
  filters = [filt(k) for k in range(nfilters)]

  # built ONCE, as a user would: the filtered step and the trajectory function must be reusable (decide_equal traces impl a second time and
  # compares the two programs)
  s_once = ti.step_with_filters(step, filters) if filters else step
  traj_once = ti.trajectory_from_step(s_once, outer, inner, start_with_input=start_with_input, post_process_fn=post)

  def impl(a, b):
    final, frames = traj_once((a, b))
    return final, frames

  def one(u):
    un = step(u)
    for f in filters:
      un = f(u, un)
    return un

  def spec(a, b):
    u = (a, b)
    frames = []
    for k in range(outer):
      if start_with_input:
        frames.append(post(u))
      for _ in range(inner):
        u = one(u)
      if not start_with_input:
        frames.append(post(u))
    return u, jnp.stack(frames)
  decide_equal(ctx, 'trajectory_from_step.equals_sequential_loop', dict(outer=outer, inner=inner, start_with_input=start_with_input, filters=nfilters),
               impl, spec, [(2,), (2,)], logic='QF_UF')
  # the SAME trajectory function applied to a state of another shape (forces jax to trace the filtered step again: scan bodies are cached per
  # function object and input shapes) and the SAME filtered step applied three times at Python level
  decide_equal(ctx, 'trajectory_from_step.equals_sequential_loop', dict(outer=outer, inner=inner, start_with_input=start_with_input, filters=nfilters, reuse='same trajectory function, state of another shape'),
               impl, spec, [(3,), (3,)], logic='QF_UF')

  def impl3(a, b):
    return s_once(s_once(s_once((a, b))))

  def spec3(a, b):
    return one(one(one((a, b))))
  decide_equal(ctx, 'step_with_filters.step_function_is_reusable', dict(filters=nfilters, applications=3), impl3, spec3, [(2,), (2,)], logic='QF_UF')


def task_repeated(ctx):
  from dinosaur import time_integration as ti
  for n in (1, 2, 3, 5):
    def impl(a, b, n=n):
      return ti.repeated(step, n)((a, b))

    def spec(a, b, n=n):
      u = (a, b)
      for _ in range(n):
        u = step(u)
      return u
    decide_equal(ctx, 'repeated.equals_n_applications', dict(n=n), impl, spec, [(3,), (3,)], logic='QF_UF')


def ordered_factorisations(n, max_levels=4):
  out = set()

  def rec(rem, cur):
    if len(cur) > max_levels:
      return
    if rem == 1 and cur:
      out.add(tuple(cur))
    for d in range(2, rem + 1):
      if rem % d == 0:
        rec(rem // d, cur + [d])
  rec(n, [])
  return sorted(out)


def task_nested(ctx, length, lengths, out_shape, with_grad):
  """nested_checkpoint_scan vs lax.scan: carry, stacked outputs (non-scalar per-step outputs) and
  reverse-mode gradients w.r.t. the initial carry and the scanned inputs."""
  from dinosaur import time_integration as ti
  ctx.encoded(ti.nested_checkpoint_scan, ti._inner_nested_scan)

  def f(c, x):
    c2 = (uf('scan_a', c[0], c[1], x['p']), uf('scan_b', c[1], c[0], x['q'][0]))
    y = {'vec': uf('out_v', jnp.broadcast_to(c[0], out_shape), jnp.broadcast_to(x['p'], out_shape)) * (1.0 + jnp.arange(np.prod(out_shape)).reshape(out_shape)),
         'sc': uf('out_s', c[1], x['q'][1])}
    return c2, y

  def pack(p, q):
    return {'p': p, 'q': q}

  def impl(c0, c1, p, q):
    return ti.nested_checkpoint_scan(f, (c0, c1), pack(p, q), nested_lengths=list(lengths))

  def spec(c0, c1, p, q):
    return jax.lax.scan(f, (c0, c1), pack(p, q))
  shapes = [(), (), (length,), (length, 2)]
  conf = dict(length=length, nested_lengths=list(lengths), per_step_output_shape=list(out_shape))
  decide_equal(ctx, 'nested_checkpoint_scan.carry_and_outputs_equal_flat_scan', conf, impl, spec, shapes, logic='QF_UFNRA')
  # interface parity with lax.scan: explicit `length`, identity checkpoint function, and scans without scanned inputs (xs=None)
  def impl_len(c0, c1, p, q):
    return ti.nested_checkpoint_scan(f, (c0, c1), pack(p, q), length, nested_lengths=list(lengths), checkpoint_fn=lambda g: g)
  decide_equal(ctx, 'nested_checkpoint_scan.explicit_length_and_identity_checkpoint', conf, impl_len, spec, shapes, logic='QF_UFNRA')

  def g(c, _):
    c2 = (uf('scan_a', c[0], c[1], c[1]), uf('scan_b', c[1], c[0], c[0]))
    return c2, uf('out_s', c[0], c[1])

  def impl_none(c0, c1):
    return ti.nested_checkpoint_scan(g, (c0, c1), None, length, nested_lengths=list(lengths))

  def spec_none(c0, c1):
    return jax.lax.scan(g, (c0, c1), None, length)
  try:
    decide_equal(ctx, 'nested_checkpoint_scan.no_scanned_inputs', conf, impl_none, spec_none, [(), ()], logic='QF_UFNRA')
  except Exception as e:  # noqa: BLE001
    ctx.clause('nested_checkpoint_scan.no_scanned_inputs', 'inconclusive', config=dict(conf, raised=f'{type(e).__name__}: {str(e)[:100]}'), queries=0)
    ctx.res['notes'].append(f'nested_checkpoint_scan(xs=None) raised {type(e).__name__}')
  bad_len = False
  try:
    ti.nested_checkpoint_scan(f, (0.0, 0.0), pack(jnp.zeros(length), jnp.zeros((length, 2))), length + 1, nested_lengths=list(lengths))
  except ValueError:
    bad_len = True
  ctx.clause('nested_checkpoint_scan.inconsistent_length_rejected', 'discharged' if bad_len else 'failed', config=conf, queries=0)
  if not bad_len:
    ctx.violation('nested_checkpoint_scan.inconsistent_length_rejected', dict(config=conf), {}, f'length={length + 1} accepted with nested_lengths={list(lengths)}')
  if with_grad:
    w = np.arange(1.0, length + 1)

    def loss(fn):
      def L(c0, c1, p, q):
        (a, b), ys = fn(c0, c1, p, q)
        return a + 2.0 * b + jnp.sum(ys['vec'] * w.reshape((length,) + (1,) * len(out_shape))) + jnp.sum(ys['sc'] * w[::-1])
      return L
    gi = jax.grad(loss(impl), argnums=(0, 1, 2, 3)); gs = jax.grad(loss(spec), argnums=(0, 1, 2, 3))
    decide_equal(ctx, 'nested_checkpoint_scan.gradients_equal_flat_scan', conf, gi, gs, shapes, logic='QF_UFNRA')


def task_accumulate(ctx):
  from dinosaur import time_integration as ti
  ctx.encoded(ti.accumulate_repeated, ti.digital_filter_initialization, ti._dfi_lanczos_weights, ti.TimeReversedImExODE.explicit_terms, ti.TimeReversedImExODE.implicit_terms, ti.TimeReversedImExODE.implicit_inverse)
  for n in (1, 3, 6):
    def impl(a, b, w, n=n):
      return ti.accumulate_repeated(step, w, (a, b))

    def spec(a, b, w, n=n):
      u = (a, b); acc = (jnp.zeros_like(a), jnp.zeros_like(b))
      for i in range(n):
        u = step(u)
        acc = (acc[0] + w[i] * u[0], acc[1] + w[i] * u[1])
      return acc
    decide_equal(ctx, 'accumulate_repeated.equals_weighted_sum', dict(n=n), impl, spec, [(2,), (2,), (n,)], logic='QF_UFNRA')
  # digital filter initialisation equals its defining sum  w0 x + sum_n w_n (F^n x + B^n x)  with the normalised Lanczos weights of
  # Lynch & Huang (1992), computed here independently; forward and backward steps are DIFFERENT uninterpreted functions (the solver
  # factory is called with the equation and its time reversal).  Evaluated twice per parameter set: the second evaluation must not
  # see anything left behind by the first (call-history independence).
  import math

  def lanczos_spec(span, cutoff, dt):
    N = round(span / (2 * dt))
    sinc = lambda x: 1.0 if x == 0 else math.sin(math.pi * x) / (math.pi * x)
    w = [sinc(n / (N + 1)) * sinc(n * span / (cutoff * N)) for n in range(1, N + 1)]
    tot = 1.0 + 2 * sum(w)
    return 1.0 / tot, [x / tot for x in w]

  def fstep(u):
    return (uf('fwd_a', u[0], u[1]), uf('fwd_b', u[0], u[1]))

  def bstep(u):
    return (uf('bwd_a', u[0], u[1]), uf('bwd_b', u[0], u[1]))

  def solver2(eq, dt_):
    return bstep if isinstance(eq, ti.TimeReversedImExODE) else fstep
  for (span, cutoff, dt) in ((6.0, 6.0, 1.0), (4.0, 3.0, 0.5), (3.0, 6.0, 0.25)):
    w0, w = lanczos_spec(span, cutoff, dt)

    def impl2(a, b):
      return ti.digital_filter_initialization(ti.ImplicitExplicitODE(), solver2, [filt(0)], span, cutoff, dt)((a, b))

    def spec2(a, b):
      x = (a, b)
      acc = (w0 * a, w0 * b)
      for stp in (fstep, bstep):
        u = x
        for wn in w:
          un = stp(u)
          u = filt(0)(u, un)
          acc = (acc[0] + wn * u[0], acc[1] + wn * u[1])
      return acc
    for call in ('first', 'repeat'):
      decide_equal(ctx, 'digital_filter_initialization.equals_defining_sum', dict(time_span=span, cutoff_period=cutoff, dt=dt, N=len(w), evaluation=call),
                   impl2, spec2, [(2,), (2,)], logic='QF_UFLRA', eps=1e-12, box=1.0)
  # the same defining sum with an UNINTERPRETED EQUATION (explicit terms F, implicit terms G and one uninterpreted solve per step size) driven by the
  # library's own integrators: the backward half must integrate the documented time reversal  dx/dt = -F(x) - G(x), whose implicit solve is
  # (1 - s (-G))^-1 = the forward solve at step size -s.  The reversal is written out here (RevSpec); ti.TimeReversedImExODE must agree with it.
  def _named(s_):
    return repr(float(s_)).replace('-', 'm')

  class UEq(ti.ImplicitExplicitODE):
    def explicit_terms(self, u): return (uf('F_a', u[0], u[1]), uf('F_b', u[0], u[1]))
    def implicit_terms(self, u): return (uf('G_a', u[0], u[1]), uf('G_b', u[0], u[1]))
    def implicit_inverse(self, u, step_size): return (uf(f'solve[{_named(step_size)}]_a', u[0], u[1]), uf(f'solve[{_named(step_size)}]_b', u[0], u[1]))

  class RevSpec(ti.ImplicitExplicitODE):
    def explicit_terms(self, u): return tuple(-x for x in UEq().explicit_terms(u))
    def implicit_terms(self, u): return tuple(-x for x in UEq().implicit_terms(u))
    def implicit_inverse(self, u, step_size): return UEq().implicit_inverse(u, -step_size)
  for s_ in (0.25, -0.5, 1.0):
    decide_equal(ctx, 'time_reversed_equation.terms_and_solve_are_those_of_the_reversed_ode', dict(step_size=s_),
                 lambda a, b, s_=s_: (ti.TimeReversedImExODE(UEq()).explicit_terms((a, b)), ti.TimeReversedImExODE(UEq()).implicit_terms((a, b)), ti.TimeReversedImExODE(UEq()).implicit_inverse((a, b), s_)),
                 lambda a, b, s_=s_: (RevSpec().explicit_terms((a, b)), RevSpec().implicit_terms((a, b)), RevSpec().implicit_inverse((a, b), s_)),
                 [(2,), (2,)], logic='QF_UFLRA')
  for integ, (span, cutoff, dt) in (('backward_forward_euler', (4.0, 3.0, 0.5)), ('crank_nicolson_rk2', (2.0, 3.0, 0.5)), ('imex_rk_sil3', (1.0, 2.0, 0.5))):
    w0, w = lanczos_spec(span, cutoff, dt)
    integrator = getattr(ti, integ)

    def impl3(a, b, integrator=integrator, span=span, cutoff=cutoff, dt=dt):
      return ti.digital_filter_initialization(UEq(), integrator, [filt(0)], span, cutoff, dt)((a, b))

    def spec3(a, b, integrator=integrator, w0=w0, w=w, dt=dt):
      x = (a, b)
      acc = (w0 * a, w0 * b)
      for eq_ in (UEq(), RevSpec()):
        stp = integrator(eq_, dt)
        u = x
        for wn in w:
          un = stp(u)
          u = filt(0)(u, un)
          acc = (acc[0] + wn * u[0], acc[1] + wn * u[1])
      return acc
    decide_equal(ctx, 'digital_filter_initialization.equals_defining_sum_for_uninterpreted_equation', dict(time_span=span, cutoff_period=cutoff, dt=dt, N=len(w), integrator=integ),
                 impl3, spec3, [(2,), (2,)], logic='QF_UFLRA', eps=1e-12, box=1.0)
  # digital filter initialisation returns a steady state unchanged (step(x0) = x0 axiomatised for THIS x0)
  for (span, cutoff, dt) in ((6.0, 6.0, 1.0), (4.0, 3.0, 0.5)):
    def solver(eq, dt_):
      return lambda u: step(u)

    def impl(a, b):
      return ti.digital_filter_initialization(ti.ImplicitExplicitODE(), solver, [filt(0)], span, cutoff, dt)((a, b))

    def spec(a, b):
      return (a, b)

    def steady(sp, args):
      fa = sp.ufs[('step_a', 2)]; fb = sp.ufs[('step_b', 2)]
      f0a = sp.ufs[('filt0_a', 2)]; f0b = sp.ufs[('filt0_b', 2)]
      cons = []
      for x, y in zip(args[0].a.reshape(-1), args[1].a.reshape(-1)):
        cons += [fa(x, y) == x, fb(x, y) == y, f0a(x, x) == x, f0b(y, y) == y, x >= -1, x <= 1, y >= -1, y <= 1]
      return cons
    decide_equal(ctx, 'digital_filter_initialization.steady_state_unchanged', dict(time_span=span, cutoff_period=cutoff, dt=dt),
                 impl, spec, [(2,), (2,)], logic='QF_UFLRA', assumptions_fn=steady, eps=1e-12)


def make_tasks(tier, seed):
  tasks = []
  omax, imax = (3, 3) if tier == 'quick' else (4, 4)
  for o, i, s in itertools.product(range(1, omax + 1), range(1, imax + 1), (False, True)):
    tasks.append(dict(name=f'traj-o{o}-i{i}-s{int(s)}', fn='task_trajectory', kw=dict(outer=o, inner=i, start_with_input=s, nfilters=(o + i) % 3)))
  tasks.append(dict(name='repeated', fn='task_repeated', kw={}))
  tasks.append(dict(name='accumulate-dfi', fn='task_accumulate', kw={}))
  lens = (6, 8, 12) if tier == 'quick' else (6, 8, 12, 16, 18)
  for n in lens:
    facts = ordered_factorisations(n, 3 if tier == 'quick' else 4)
    # also nestings containing 1s
    facts += [(1,) + facts[-1], facts[0] + (1,)]
    for k, fa in enumerate(facts):
      tasks.append(dict(name=f"nested-{n}-{'x'.join(map(str, fa))}", fn='task_nested',
                        kw=dict(length=n, lengths=fa, out_shape=(2,) if k % 2 else (2, 3), with_grad=(n <= 8 or tier != 'quick'))))
  return tasks


def main(tier='quick', seed=0, jobs=None, only=None, t0=None):
  t0 = t0 or time.time()
  tasks = make_tasks(tier, seed)
  if only:
    tasks = [t for t in tasks if only in t['name']]
  results = harness.run_tasks(MOD, tasks, PID, seed, tier, jobs)
  return harness.finalize(
      PID, tier, seed, results, t0,
      explanation='The combinators are traced with UNINTERPRETED step / filter / post-processing / scanned functions (JAX primitives uf, ufd with a '
                  'JVP rule) on a 2-leaf pytree state; implementation and sequential definition are interpreted to z3 terms and the solver is asked '
                  'for inputs on which any output element (values and reverse-mode gradients) differs (QF_UF / QF_UFNRA).',
      bounds=dict(tasks=len(tasks), outer_inner='<= 3 (quick) / 4', scan_lengths='6, 8, 12 with every ordered factorisation of <= 3 levels plus nestings with 1s',
                  filters='0-2', weights='<= 6 symbolic'),
      assumptions=['the split space is enumerated; functions and data are universally quantified (uninterpreted)'],
      trusted=['JAX tracing/autodiff (the gradient IR is what is interpreted)', 'dverif interpreter', 'z3'],
      outside=['second derivatives', 'scan lengths beyond the enumerated ones'])
