"""CrossHair harnesses for C06: the real factories are called with coefficient lists of symbolic
lengths; `post: __return__` must hold on every path (True = rejected-or-consistent)."""
import os
import sys
sys.path.insert(0, os.environ.get('DVERIF_REPO', '/repo'))
from dinosaur import time_integration as ti

NARGS = {'low_storage_accepts_only_consistent_lengths': 3, 'butcher_tableau_accepts_only_consistent_lengths': 4}


class _Eq(ti.ImplicitExplicitODE):
  def explicit_terms(self, s): return s
  def implicit_terms(self, s): return s
  def implicit_inverse(self, s, eta): return s


def low_storage_accepts_only_consistent_lengths(na: int, nb: int, ng: int) -> bool:
  """
  pre: 0 <= na <= 7 and 0 <= nb <= 7 and 0 <= ng <= 7
  post: __return__
  """
  try:
    ti.low_storage_runge_kutta_crank_nicolson([0.0] * na, [0.0] * nb, [0.0] * ng, _Eq(), 0.1)
  except ValueError:
    return True
  return na - 1 == nb == ng


def butcher_tableau_accepts_only_consistent_lengths(nae: int, nai: int, nbe: int, nbi: int) -> bool:
  """
  pre: 0 <= nae <= 5 and 0 <= nai <= 5 and 0 <= nbe <= 5 and 0 <= nbi <= 5
  post: __return__
  """
  try:
    ti.ImExButcherTableau(a_ex=[[0.0]] * nae, a_im=[[0.0]] * nai, b_ex=[0.0] * nbe, b_im=[0.0] * nbi)
  except ValueError:
    return True
  return nae + 1 == nai + 1 == nbe == nbi
