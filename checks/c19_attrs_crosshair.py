"""CrossHair harnesses for the coordinate-system attribute round trip (C19): grid sizes, spacing, offset, radius and the layer count are
SYMBOLIC; the real Grid.asdict / CoordinateSystem.asdict / coordinate_system_from_attrs run on them (no numpy table is built: the Grid's
tables are lazy).  `attrs_roundtrip_reachable` is the reachability twin: its postcondition is False, so CrossHair must find a call."""
import os
import sys
sys.path.insert(0, os.environ.get('DVERIF_REPO', '/repo'))
from dinosaur import spherical_harmonic as sh, coordinate_systems as cs, layer_coordinates as lc, xarray_utils as xu

SPACINGS = ['gauss', 'equiangular', 'equiangular_with_poles']
IMPLS = [sh.RealSphericalHarmonics, sh.FastSphericalHarmonics]


def _trip(M, L, nlon, nlat, spacing, offset, radius, layers, impl):
  g = sh.Grid(M, L, nlon, nlat, latitude_spacing=SPACINGS[spacing], longitude_offset=offset, radius=radius, spherical_harmonics_impl=IMPLS[impl])
  c = cs.CoordinateSystem(g, lc.LayerCoordinates(layers))
  c2 = xu.coordinate_system_from_attrs(c.asdict())
  h = c2.horizontal
  return (h.longitude_wavenumbers == M and h.total_wavenumbers == L and h.longitude_nodes == nlon and h.latitude_nodes == nlat and
          h.latitude_spacing == SPACINGS[spacing] and h.longitude_offset == offset and h.radius == radius and
          type(c2.vertical) is lc.LayerCoordinates and c2.vertical.layers == layers)


def _mk(impl):
  def f(M: int, L: int, nlon: int, nlat: int, spacing: int, offset: float, radius: float, layers: int) -> bool:
    return _trip(M, L, nlon, nlat, spacing, offset, radius, layers, impl)
  return f


def attrs_roundtrip_real(M: int, L: int, nlon: int, nlat: int, spacing: int, offset: float, radius: float, layers: int) -> bool:
  """
  pre: 1 <= M <= 1024 and 1 <= L <= 1024 and 1 <= nlon <= 4096 and 1 <= nlat <= 2048 and 0 <= spacing <= 2 and 1 <= layers <= 256
  pre: -7.0 <= offset <= 7.0 and 1e-3 <= radius <= 1e7
  post: _
  """
  return _trip(M, L, nlon, nlat, spacing, offset, radius, layers, 0)


def attrs_roundtrip_fast(M: int, L: int, nlon: int, nlat: int, spacing: int, offset: float, radius: float, layers: int) -> bool:
  """
  pre: 1 <= M <= 1024 and 1 <= L <= 1024 and 1 <= nlon <= 4096 and 1 <= nlat <= 2048 and 0 <= spacing <= 2 and 1 <= layers <= 256
  pre: -7.0 <= offset <= 7.0 and 1e-3 <= radius <= 1e7
  post: _
  """
  return _trip(M, L, nlon, nlat, spacing, offset, radius, layers, 1)


def attrs_roundtrip_reachable(M: int, L: int, nlon: int, nlat: int, spacing: int, offset: float, radius: float, layers: int) -> bool:
  """
  pre: 1 <= M <= 1024 and 1 <= L <= 1024 and 1 <= nlon <= 4096 and 1 <= nlat <= 2048 and 0 <= spacing <= 2 and 1 <= layers <= 256
  pre: -7.0 <= offset <= 7.0 and 1e-3 <= radius <= 1e7
  post: not _
  """
  return _trip(M, L, nlon, nlat, spacing, offset, radius, layers, 1)
