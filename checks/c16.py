"""C16 — conservative regridding preserves constants, bounds and integrals."""
from __future__ import annotations

import itertools
import time
import numpy as np
import z3

import dverif  # noqa: F401
import jax
import jax.numpy as jnp

from dverif import grids, harness, smt
from dverif.harness import prove_close
from dverif.poly import Space, PolyArr
from dverif.term import TermArr, TermSpace, R
from dverif.jsym import Interp

PID = 'C16'
MOD = 'checks.c16'


def Q(v):
  from fractions import Fraction
  return z3.RealVal(Fraction(float(v)))


def _r(t):
  t = R(t)
  return z3.ToReal(t) if z3.is_int(t) else t


def decide(ctx, name, config, assumptions, bad, logic, timeout=60000, core=True):
  v, model = smt.check_z3(list(assumptions) + [bad], logic, timeout, want_model=True)
  if v == 'unsat':
    ctx.clause(name, 'discharged', config=config, queries=1)
    return True, None
  if v == 'sat':
    ctx.clause(name, 'failed', config=config, queries=1)
    return False, model
  ctx.clause(name, 'inconclusive', config=config, queries=1)
  ctx.res['inconclusive'].append(dict(clause=name, config=config, verdict=v))
  if core:
    ctx.error(name, f'solver verdict {v}')
  return False, None


def _model_vals(model, terms):
  out = []
  for t in terms:
    v = model.eval(t, model_completion=True)
    try:
      out.append(float(v.as_fraction()))
    except Exception:
      out.append(float(v.approx(20).as_fraction()))
  return out


# ---------------------------------------------------------------------------
def task_vertical_overlap(ctx, ns, nt):
  """_interval_overlap with SYMBOLIC strictly increasing bounds: o >= 0, row sums = |target cell ∩ source
  range|, column sums = |source cell ∩ target range| (pure QF_LRA with ite)."""
  from dinosaur import vertical_interpolation as vi
  ctx.encoded(vi._interval_overlap, vi.conservative_regrid_weights)
  sp = TermSpace()
  s = TermArr.variables(sp, 's', (ns + 1,)); t = TermArr.variables(sp, 't', (nt + 1,))
  cl = jax.make_jaxpr(vi._interval_overlap)(jnp.arange(ns + 1.0), jnp.arange(nt + 1.0))
  o = Interp(sp).run(cl, s, t)[0]
  sv, tv = s.a, t.a
  inc = [sv[i] < sv[i + 1] for i in range(ns)] + [tv[i] < tv[i + 1] for i in range(nt)]
  conf = dict(source_cells=ns, target_cells=nt)
  O = [[_r(o.a[i, j]) for j in range(ns)] for i in range(nt)]
  mn = lambda a, b: z3.If(a < b, a, b); mx = lambda a, b: z3.If(a > b, a, b); pos = lambda a: z3.If(a > 0, a, 0)
  rows = [sum(O[i]) for i in range(nt)]; cols = [sum(O[i][j] for i in range(nt)) for j in range(ns)]
  cov_t = [pos(mn(tv[i + 1], sv[ns]) - mx(tv[i], sv[0])) for i in range(nt)]
  cov_s = [pos(mn(sv[j + 1], tv[nt]) - mx(sv[j], tv[0])) for j in range(ns)]
  for cname, bad in (('overlap_nonnegative', z3.Or(*[x < 0 for r_ in O for x in r_])),
                     ('row_sums_equal_covered_target_thickness', z3.Or(*[rows[i] != cov_t[i] for i in range(nt)])),
                     ('column_sums_equal_covered_source_thickness', z3.Or(*[cols[j] != cov_s[j] for j in range(ns)]))):
    ok, model = decide(ctx, 'vertical.' + cname, conf, inc, bad, 'QF_LRA')
    if not ok and model is not None:
      sb = _model_vals(model, list(sv)); tb = _model_vals(model, list(tv))
      real = np.asarray(vi._interval_overlap(jnp.asarray(sb), jnp.asarray(tb)))
      ctx.violation('vertical.' + cname, dict(config=conf), dict(inputs=[sb, tb], overlap=real.tolist()), f'_interval_overlap: {cname} fails for source {sb}, target {tb}')
  # weights = overlap / row sum with the overlaps abstracted to arbitrary non-negative numbers (cut points)
  clw = jax.make_jaxpr(vi.conservative_regrid_weights)(jnp.arange(ns + 1.0), jnp.arange(nt + 1.0))
  sp.obligations.clear()
  w = Interp(sp).run(clw, s, t)[0]
  q = [[z3.Real(f'q_{i}_{j}') for j in range(ns)] for i in range(nt)]
  subs = [(O[i][j], q[i][j]) for i in range(nt) for j in range(ns) if z3.is_app(O[i][j]) and not z3.is_rational_value(O[i][j])]
  W = [[z3.substitute(_r(w.a[i, j]), *subs) for j in range(ns)] for i in range(nt)]
  leftovers = [v for row in W for x in row for v in _vars_of(x) if str(v).startswith(('s_', 't_'))]
  pre = [x >= 0 for r_ in q for x in r_] + [sum(q[i]) > 0 for i in range(nt)]
  if leftovers:
    ctx.error('vertical.weights', 'cut-point substitution incomplete (weights depend on the bounds other than through the overlaps)')
  for cname, bad in (('weights.rows_sum_to_one', z3.Or(*[sum(W[i]) != 1 for i in range(nt)])),
                     ('weights.in_unit_interval', z3.Or(*[z3.Or(x < 0, x > 1) for r_ in W for x in r_]))):
    ok, model = decide(ctx, 'vertical.' + cname, dict(conf, abstraction='overlaps -> arbitrary q_ij >= 0 with positive row sums'), pre, bad, 'QF_NRA')
    if not ok and model is not None:
      # concretise: bounds realising a failing row are found on the un-abstracted terms
      Wc = [[_r(w.a[i, j]) for j in range(ns)] for i in range(nt)]
      pre2 = inc + [tv[i + 1] > sv[0] for i in range(nt)] + [tv[i] < sv[ns] for i in range(nt)]
      bad2 = z3.Or(*[sum(Wc[i]) != 1 for i in range(nt)]) if 'rows' in cname else z3.Or(*[z3.Or(x < 0, x > 1) for r_ in Wc for x in r_])
      v2, m2 = smt.check_z3(pre2 + [bad2], 'QF_NRA', 60000, want_model=True)
      if v2 == 'sat':
        sb = _model_vals(m2, list(sv)); tb = _model_vals(m2, list(tv))
        real = np.asarray(vi.conservative_regrid_weights(jnp.asarray(sb), jnp.asarray(tb)))
        rs = real.sum(axis=1)
        if np.abs(rs - 1).max() > 1e-9 or real.min() < -1e-12 or real.max() > 1 + 1e-12:
          ctx.violation('vertical.' + cname, dict(config=conf), dict(inputs=[sb, tb], weights=real.tolist()),
                        f'conservative_regrid_weights: {cname} fails for source {sb}, target {tb}: row sums {rs.tolist()}')
          continue
      ctx.error('vertical.' + cname, 'abstract counterexample could not be concretised')


def _vars_of(e):
  seen = set(); out = []
  def rec(x):
    if x.get_id() in seen:
      return
    seen.add(x.get_id())
    if z3.is_const(x) and x.decl().kind() == z3.Z3_OP_UNINTERPRETED:
      out.append(x)
    for c in x.children():
      rec(c)
  rec(e)
  return out


def hybrid_sets():
  return {
      'full-column-4': (np.array([0.0, 20.0, 60.0, 30.0, 0.0]), np.array([0.0, 0.0, 0.2, 0.65, 1.0])),
      'low-top-4': (np.array([10.0, 40.0, 80.0, 30.0, 0.0]), np.array([0.0, 0.0, 0.15, 0.7, 1.0])),       # lid at 10 hPa
      'pure-sigma-3': (np.zeros(4), np.array([0.0, 0.3, 0.7, 1.0])),
  }


def task_hybrid(ctx, hname, sname, sigma_bounds):
  """regrid_hybrid_to_sigma with SYMBOLIC surface pressure and field values (concrete hybrid a, b):
  constants reproduced, output within the input range, thickness-weighted integral over the covered range."""
  from dinosaur import vertical_interpolation as vi, sigma_coordinates as sc
  a, b = hybrid_sets()[hname]
  hyb = vi.HybridCoordinates(a_boundaries=a, b_boundaries=b)
  sig = sc.SigmaCoordinates(np.asarray(sigma_bounds))
  ns, nt = hyb.layers, sig.layers
  ctx.encoded(vi.regrid_hybrid_to_sigma, vi.HybridCoordinates.get_sigma_boundaries, vi.conservative_regrid_weights, vi._interval_overlap)
  sp = TermSpace()
  ps = TermArr.variables(sp, 'ps', (1, 1)); f = TermArr.variables(sp, 'f', (ns, 1, 1))
  cl = jax.make_jaxpr(lambda f, ps: vi.regrid_hybrid_to_sigma(f, hyb, sig, ps))(jnp.ones((ns, 1, 1)), 1000.0 * jnp.ones((1, 1)))
  out = Interp(sp).run(cl, f, ps)[0]
  p = ps.a.reshape(-1)[0]
  fv = [x for x in f.a.reshape(-1)]
  conf = dict(hybrid=hname, sigma=sname, ps_range=[400.0, 1100.0])
  rng_ps = [p >= 400, p <= 1100]
  # hybrid sigma boundaries are strictly increasing for every admissible surface pressure
  hb = Interp(sp).run(jax.make_jaxpr(hyb.get_sigma_boundaries)(1000.0 * jnp.ones(())), TermArr(np.array(p, dtype=object).reshape(()), sp))[0]
  hbv = [_r(x) for x in hb.a.reshape(-1)]
  ok, model = decide(ctx, 'hybrid.boundaries_increasing', conf, rng_ps, z3.Or(*[hbv[k] >= hbv[k + 1] for k in range(ns)]), 'QF_NRA')
  # overlaps as cut points
  tb = [float(v) for v in sig.boundaries]
  O = [[None] * ns for _ in range(nt)]
  mn = lambda x, y: z3.If(x <= y, x, y); mx = lambda x, y: z3.If(x >= y, x, y)
  ov = Interp(sp).run(jax.make_jaxpr(vi._interval_overlap)(jnp.arange(ns + 1.0), jnp.arange(nt + 1.0)), hb, np.asarray(tb))[0]
  q = [[z3.Real(f'q_{i}_{j}') for j in range(ns)] for i in range(nt)]
  subs = []
  for i in range(nt):
    for j in range(ns):
      tij = ov.a[i, j]
      if isinstance(tij, z3.ExprRef) and not z3.is_rational_value(tij):
        subs.append((tij, q[i][j]))
  outs = [z3.substitute(_r(x), *subs) for x in out.a.reshape(-1)]
  left = [v for x in outs for v in _vars_of(x) if str(v).startswith('ps')]
  # rows that are structurally empty for some ps (target layer entirely above the model top) are excluded by q-row-sum > 0
  pre = [x >= 0 for r_ in q for x in r_] + [sum(q[i]) > 0 for i in range(nt)] + [x >= -1 for x in fv] + [x <= 1 for x in fv]
  if left:
    # fall back to the un-abstracted terms (slower)
    outs = [_r(x) for x in out.a.reshape(-1)]
    rows_pos = [sum(_r(ov.a[i, j]) for j in range(ns)) > 0 for i in range(nt)]
    pre = rng_ps + rows_pos + [x >= -1 for x in fv] + [x <= 1 for x in fv]
    conf = dict(conf, abstraction='none')
  else:
    conf = dict(conf, abstraction='overlaps -> q_ij >= 0')
  c = z3.Real('c')
  const_sub = [(x, c) for x in fv]
  bad_const = z3.Or(*[z3.substitute(o_, *const_sub) != c for o_ in outs])
  okc, mc = decide(ctx, 'hybrid.constants_reproduced', conf, pre + [c >= -1, c <= 1], bad_const, 'QF_NRA')
  # range: the output is a CONVEX combination of the inputs: out_i = sum_j W_ij f_j with W_ij >= 0 and rows summing to one
  # (rows: the constants clause above); convex combinations stay within [min f, max f] (mathematics)
  def unit(j):
    return [(x, z3.RealVal(1 if k == j else 0)) for k, x in enumerate(fv)]
  Wc = [[z3.simplify(z3.substitute(o_, *unit(j))) for j in range(ns)] for o_ in outs]
  okw, mw = decide(ctx, 'hybrid.weights_nonnegative', conf, pre, z3.Or(*[w_ < 0 for r_ in Wc for w_ in r_]), 'QF_NRA', timeout=30000)
  okl, ml = decide(ctx, 'hybrid.output_is_weighted_sum_of_inputs', conf, pre,
                   z3.Or(*[o_ != sum(Wc[i][j] * fv[j] for j in range(ns)) for i, o_ in enumerate(outs)]), 'QF_NRA', timeout=30000)
  okr, mr = (okw and okl), (mw or ml)
  # thickness-weighted integral over the covered range, against an INDEPENDENT specification of the source layers: hybrid level k sits at
  # pressure a_k + b_k ps, i.e. sigma_k(ps) = (a_k + b_k ps) / ps (documented definition of hybrid coordinates); covered thickness of target
  # layer i: |t_i ∩ [sigma_0, sigma_ns]|, of source layer j: |s_j ∩ [t_0, t_nt]|.  sum_i out_i cov_i = sum_j f_j c_j for every ps and field.
  sb = [(Q(a[k]) + Q(b[k]) * p) / p for k in range(ns + 1)]
  tbq = [Q(v) for v in tb]
  ovl = lambda lo1, hi1, lo2, hi2: mx(mn(hi1, hi2) - mx(lo1, lo2), z3.RealVal(0))
  cov = [ovl(tbq[i], tbq[i + 1], sb[0], sb[ns]) for i in range(nt)]
  cj = [ovl(sb[j], sb[j + 1], tbq[0], tbq[nt]) for j in range(ns)]
  outs_raw = [_r(x) for x in out.a.reshape(-1)]
  lhs_i = sum(o_ * c_ for o_, c_ in zip(outs_raw, cov)); rhs_i = sum(fv[j] * cj[j] for j in range(ns))
  pre_i = rng_ps + [c_ > 0 for c_ in cov] + [x >= -1 for x in fv] + [x <= 1 for x in fv]
  tol_i = Q(1e-9)
  oki, mi = decide(ctx, 'hybrid.thickness_weighted_integral_over_covered_range_conserved', dict(conf, abstraction='none', source_layers='independent specification (a_k + b_k ps) / ps'),
                   pre_i, z3.Or(lhs_i - rhs_i > tol_i, rhs_i - lhs_i > tol_i), 'QF_NRA', timeout=120000)
  if not oki and mi is not None:
    pv = _model_vals(mi, [p])[0]; fc = np.array(_model_vals(mi, fv))
    found = None
    for pc in [pv] + list(np.linspace(400, 1100, 15)):
      res = np.asarray(vi.regrid_hybrid_to_sigma(jnp.asarray(fc).reshape(ns, 1, 1), hyb, sig, pc * jnp.ones((1, 1)))).reshape(-1)
      sbn = (np.asarray(a) + np.asarray(b) * pc) / pc
      covn = np.maximum(np.minimum(np.asarray(tb)[1:], sbn[-1]) - np.maximum(np.asarray(tb)[:-1], sbn[0]), 0)
      cjn = np.maximum(np.minimum(sbn[1:], tb[-1]) - np.maximum(sbn[:-1], tb[0]), 0)
      if np.all(covn > 0):
        d = abs(float(np.sum(res * covn)) - float(np.sum(fc * cjn)))
        if d > 1e-9:
          found = (float(pc), d, float(np.sum(res * covn)), float(np.sum(fc * cjn))); break
    if found:
      ctx.violation('hybrid.thickness_weighted_integral_over_covered_range_conserved', dict(config=conf, kind='integral'), dict(inputs=[found[0], fc.tolist()], output_integral=found[2], input_integral=found[3]),
                    f'regrid_hybrid_to_sigma({hname}->{sname}): thickness-weighted integral over the covered range changes from {found[3]} to {found[2]} at ps={found[0]}')
    else:
      ctx.error('hybrid.integral', 'counterexample did not replay on the real function')
  for okx, mm, cname in ((okc, mc, 'constants_reproduced'), (okr, mr, 'output_within_input_range')):
    if not okx and mm is not None:
      # concretise on the real function: search surface pressures on a grid for a replay
      found = None
      for pv in np.linspace(400, 1100, 29):
        res = np.asarray(vi.regrid_hybrid_to_sigma(jnp.ones((ns, 1, 1)), hyb, sig, pv * jnp.ones((1, 1)))).reshape(-1)
        if np.nanmax(np.abs(res - 1)) > 1e-9:
          found = (float(pv), res.tolist()); break
      if found:
        ctx.violation('hybrid.' + cname, dict(config=conf), dict(inputs=[found[0]], output_for_constant_one=found[1]),
                      f'regrid_hybrid_to_sigma({hname}->{sname}): constant 1 is mapped to {found[1]} at ps={found[0]}')
      else:
        ctx.error('hybrid.' + cname, 'abstract counterexample did not replay on the surface-pressure grid')


# ---------------------------------------------------------------------------
def task_latitude(ctx, ns, nt):
  """_latitude_overlap with SYMBOLIC increasing centres in (-pi/2, pi/2); sin uninterpreted + monotonicity
  instances on the occurring arguments."""
  from dinosaur import horizontal_interpolation as hi
  ctx.encoded(hi._latitude_overlap, hi._latitude_cell_bounds, hi.conservative_latitude_weights)
  sp = TermSpace()
  s = TermArr.variables(sp, 's', (ns,)); t = TermArr.variables(sp, 't', (nt,))
  cl = jax.make_jaxpr(hi._latitude_overlap)(jnp.linspace(-1, 1, ns), jnp.linspace(-1, 1, nt))
  o = Interp(sp).run(cl, s, t)[0]
  half_pi = z3.RealVal(smt.Fraction(float(np.pi / 2)))
  sv, tv = list(s.a), list(t.a)
  pre = [sv[i] < sv[i + 1] for i in range(ns - 1)] + [tv[i] < tv[i + 1] for i in range(nt - 1)]
  pre += [sv[0] > -half_pi, sv[-1] < half_pi, tv[0] > -half_pi, tv[-1] < half_pi]
  sin = sp.ufs['sin']
  one = z3.RealVal(1)
  # spec-side cell bounds; sin at the poles is the concrete value the traced code folded (sin(fl(pi/2)) = 1.0)
  sb = [-half_pi] + [(sv[i] + sv[i + 1]) / 2 for i in range(ns - 1)] + [half_pi]
  tb = [-half_pi] + [(tv[i] + tv[i + 1]) / 2 for i in range(nt - 1)] + [half_pi]
  S = lambda x: (-one if x.eq(-half_pi) else (one if x.eq(half_pi) else sin(x)))
  allapps = list(sp.uf_apps.get('sin', [])) + [(x, S(x)) for x in sb + tb]
  # sin is strictly increasing on [-pi/2, pi/2]: instantiated on every pair of occurring arguments
  for (a1, r1), (a2, r2) in itertools.combinations(allapps, 2):
    if a1.eq(a2):
      continue
    pre += [z3.Implies(a1 < a2, r1 < r2), z3.Implies(a1 == a2, r1 == r2), z3.Implies(a1 > a2, r1 > r2)]
  O = [[_r(o.a[i, j]) for j in range(ns)] for i in range(nt)]
  conf = dict(source_points=ns, target_points=nt, sin='uninterpreted + strictly monotone on occurring arguments')
  rows = [sum(O[i]) for i in range(nt)]; cols = [sum(O[i][j] for i in range(nt)) for j in range(ns)]
  for cname, bad in (('overlap_nonnegative', z3.Or(*[x < 0 for r_ in O for x in r_])),
                     ('row_sums_equal_target_cell_area', z3.Or(*[rows[i] != S(tb[i + 1]) - S(tb[i]) for i in range(nt)])),
                     ('column_sums_equal_source_cell_area', z3.Or(*[cols[j] != S(sb[j + 1]) - S(sb[j]) for j in range(ns)]))):
    ok, model = decide(ctx, 'latitude.' + cname, conf, pre, bad, 'QF_UFLRA')
    if not ok and model is not None:
      sc_ = _model_vals(model, sv); tc = _model_vals(model, tv)
      real = np.asarray(hi._latitude_overlap(jnp.asarray(sc_), jnp.asarray(tc)))
      sbn = np.concatenate([[-np.pi / 2], (np.asarray(sc_)[:-1] + np.asarray(sc_)[1:]) / 2, [np.pi / 2]])
      tbn = np.concatenate([[-np.pi / 2], (np.asarray(tc)[:-1] + np.asarray(tc)[1:]) / 2, [np.pi / 2]])
      d = max(np.abs(real.sum(1) - np.diff(np.sin(tbn))).max(), np.abs(real.sum(0) - np.diff(np.sin(sbn))).max(), -real.min())
      if d > 1e-9:
        ctx.violation('latitude.' + cname, dict(config=conf), dict(inputs=[sc_, tc], discrepancy=float(d)), f'_latitude_overlap: {cname} fails for centres {sc_} -> {tc}')
      else:
        ctx.error('latitude.' + cname, 'counterexample did not replay (sin axioms too weak?)')


# ---------------------------------------------------------------------------
def _specialize_toint(terms, assumptions, timeout_ms=5000):
  """Replaces every ToInt(t) whose value is fixed by `assumptions` (one sat + one unsat query each) by that integer."""
  found = {}
  seen = set()

  def rec(t):
    if t.get_id() in seen:
      return
    seen.add(t.get_id())
    if z3.is_app(t) and t.decl().kind() == z3.Z3_OP_TO_INT:
      found[t.get_id()] = t
    for c in t.children():
      rec(c)
  for t in terms:
    rec(t)
  s = z3.Solver(); s.set('timeout', timeout_ms); s.add(list(assumptions))
  subs = []
  nq = 0
  for t in found.values():
    nq += 2
    if str(s.check()) != 'sat':
      continue
    n = s.model().eval(t, model_completion=True)
    s.push(); s.add(t != n); r = str(s.check()); s.pop()
    if r == 'unsat':
      subs.append((t, n))
  out = [z3.simplify(z3.substitute(t, *subs)) if subs else t for t in terms]
  return out, len(found), len(subs), nq


def task_longitude(ctx, ns, nt, rot_s=(0, 0), rot_t=(0, 0)):
  """_longitude_overlap with SYMBOLIC increasing centres spanning less than one period.  rot = (k, j): the first j
  centres lie in [2 pi k, 2 pi (k+1)) and the others one period higher (so `points % period` is a rotation of the
  array; k = j = 0 is the plain [0, 2 pi) layout).  Validity domain (see DESIGN 9.3, F10): every gap between neighbouring
  centres (periodically) is below half a period and every source cell and target cell together are narrower than
  half a period.  Clauses: overlap >= 0, row sums = target cell widths, column sums = source cell widths (QF_LRA)."""
  from dinosaur import horizontal_interpolation as hi
  from dverif.term import specialize
  ctx.encoded(hi._longitude_overlap, hi._periodic_overlap, hi._periodic_upper_bounds, hi._periodic_lower_bounds, hi._align_phase_with)
  sp = TermSpace()
  s = TermArr.variables(sp, 's', (ns,)); t = TermArr.variables(sp, 't', (nt,))
  # argument order of conservative_longitude_weights: (target, source)
  cl = jax.make_jaxpr(lambda a, b: hi._longitude_overlap(a, b))(jnp.linspace(0, 6, nt), jnp.linspace(0, 6, ns))
  o = Interp(sp).run(cl, t, s)[0]
  sv, tv = list(s.a), list(t.a)
  twopi = z3.RealVal(smt.Fraction(float(2 * np.pi)))
  pre = [sv[i] < sv[i + 1] for i in range(ns - 1)] + [tv[i] < tv[i + 1] for i in range(nt - 1)]
  pre += [sv[-1] - sv[0] < twopi, tv[-1] - tv[0] < twopi]
  for v, n, (k, j) in ((sv, ns, rot_s), (tv, nt, rot_t)):
    for i in range(n):
      kk = k if i < j or j == 0 else k + 1
      # (a centre exactly at a negative multiple of the period is left out: trunc(-q) is two-valued there)
      pre += [v[i] >= twopi * kk if kk >= 0 else v[i] > twopi * kk, v[i] < twopi * (kk + 1)]

  def widths(v, n):
    return [((v[i] + v[(i + 1) % n] + (twopi if i == n - 1 else 0)) - ((v[i - 1] - (twopi if i == 0 else 0)) + v[i])) / 2 for i in range(n)]
  ws, wt = widths(sv, ns), widths(tv, nt)
  gaps = lambda v, n: [(v[(i + 1) % n] + (twopi if i == n - 1 else 0)) - v[i] for i in range(n)]
  valid = [a + b < twopi / 2 for a in ws for b in wt] + [g < twopi / 2 for g in gaps(sv, ns) + gaps(tv, nt)]
  conf = dict(source_points=ns, target_points=nt, source_rotation=list(rot_s), target_rotation=list(rot_t),
              domain='gaps < pi and source width + target width < pi')
  O = [_r(x) for x in o.a.reshape(-1)]
  O = specialize(O, pre)
  O, n_toint, n_fixed, nq = _specialize_toint(O, pre)
  O = specialize(O, pre + valid[len(ws) * len(wt):])
  ctx.clause('longitude.modulo_resolved_by_case', 'discharged' if n_fixed == n_toint else 'inconclusive', config=conf, queries=nq)
  if n_fixed != n_toint:
    ctx.error('longitude.modulo_resolved_by_case', f'{n_toint - n_fixed} floor terms not fixed by the case assumptions')
    return
  O = [[O[i * ns + j] for j in range(ns)] for i in range(nt)]
  # vacuity: the validity domain is inhabited for this size / rotation
  v, _ = smt.check_z3(pre + valid, 'QF_LRA', 20000)
  if v != 'sat':
    ctx.clause('longitude.domain_inhabited', 'inconclusive' if v != 'unsat' else 'failed', config=conf, queries=1)
    ctx.error('longitude.domain_inhabited', f'validity domain {v} for {ns}x{nt} (needs 1/ns + 1/nt < 1/2)')
    return
  ctx.clause('longitude.domain_inhabited', 'discharged', config=conf, queries=1)
  rows = [sum(O[i]) for i in range(nt)]; cols = [sum(O[i][j] for i in range(nt)) for j in range(ns)]
  for cname, bad in (('overlap_nonnegative', z3.Or(*[x < 0 for r_ in O for x in r_])),
                     ('row_sums_equal_target_cell_width', z3.Or(*[rows[i] != wt[i] for i in range(nt)])),
                     ('column_sums_equal_source_cell_width', z3.Or(*[cols[j] != ws[j] for j in range(ns)]))):
    ok, model = decide(ctx, 'longitude.' + cname, conf, pre + valid, bad, 'QF_LRA', timeout=300000)
    if not ok and model is not None:
      sc_ = _model_vals(model, sv); tc = _model_vals(model, tv)
      real = np.asarray(hi._longitude_overlap(jnp.asarray(tc), jnp.asarray(sc_)))
      wsn = np.asarray(_model_vals(model, ws)); wtn = np.asarray(_model_vals(model, wt))
      d = max(np.abs(real.sum(1) - wtn).max(), np.abs(real.sum(0) - wsn).max(), -real.min())
      if d > 1e-9:
        ctx.violation('longitude.' + cname, dict(config=conf), dict(inputs=[sc_, tc], discrepancy=float(d), overlap=real.tolist()),
                      f'_longitude_overlap: {cname} fails for source centres {sc_}, target centres {tc} (inside the validity domain)')
      else:
        ctx.error('longitude.' + cname, 'counterexample did not replay')


def grid_pairs(tier):
  G = lambda **k: k
  pairs = [
      ('gauss16x8->gauss12x6', G(M=4, L=5, nlon=16, nlat=8), G(M=3, L=4, nlon=12, nlat=6)),
      ('gauss8x4->gauss12x6 (finer)', G(M=2, L=3, nlon=8, nlat=4), G(M=3, L=4, nlon=12, nlat=6)),
      ('equiangular10x9->gauss8x5 offset', G(M=3, L=4, nlon=10, nlat=9, spacing='equiangular', offset=0.3), G(M=3, L=4, nlon=8, nlat=5)),
      ('gauss12x6->poles9x7 offset', G(M=3, L=4, nlon=12, nlat=6, offset=0.1), G(M=3, L=4, nlon=9, nlat=7, spacing='equiangular_with_poles', offset=0.5)),
      ('same grid', G(M=3, L=4, nlon=8, nlat=5), G(M=3, L=4, nlon=8, nlat=5)),
      ('gauss12x6 offset -pi->gauss8x5', G(M=3, L=4, nlon=12, nlat=6, offset=-3.141592653589793), G(M=3, L=4, nlon=8, nlat=5)),
      ('gauss10x5 offset 1.0->gauss8x4 offset -0.2', G(M=3, L=4, nlon=10, nlat=5, offset=1.0), G(M=2, L=3, nlon=8, nlat=4, offset=-0.2)),
      ('coarse lon 3->3 offset', G(M=1, L=2, nlon=3, nlat=3), G(M=1, L=2, nlon=3, nlat=4, offset=1.0471975511965976)),
      ('coarse lon 4->3 offset', G(M=1, L=2, nlon=4, nlat=3), G(M=1, L=2, nlon=3, nlat=3, offset=0.2617993877991494)),
      ('coarse lon 5->4 offset', G(M=2, L=3, nlon=5, nlat=4), G(M=1, L=2, nlon=4, nlat=3, offset=0.4)),
      # the SAME node counts on both sides but a different layout: other latitude spacing, shifted longitudes, both
      ('gauss12x6->equiangular12x6', G(M=3, L=4, nlon=12, nlat=6), G(M=3, L=4, nlon=12, nlat=6, spacing='equiangular')),
      ('gauss12x6->gauss12x6 shifted 0.3 cell', G(M=3, L=4, nlon=12, nlat=6), G(M=3, L=4, nlon=12, nlat=6, offset=0.15707963267948966)),
      ('equiangular10x7->poles10x7 shifted', G(M=3, L=4, nlon=10, nlat=7, spacing='equiangular', offset=0.2), G(M=3, L=4, nlon=10, nlat=7, spacing='equiangular_with_poles')),
  ]
  if tier != 'quick':
    pairs += [('gauss32x16->equiangular20x11', G(M=8, L=9, nlon=32, nlat=16), G(M=5, L=6, nlon=20, nlat=11, spacing='equiangular')),
              ('fast padded 16x8->12x6', G(M=4, L=5, nlon=16, nlat=8, impl='fast', base=1), G(M=3, L=4, nlon=12, nlat=6, impl='fast', base=1))]
  return pairs


def _cell_areas(grid):
  lon = np.asarray(grid.longitudes); lat = np.asarray(grid.latitudes)
  n = len(lon)
  up = (lon + np.roll(lon, -1)) / 2; up[-1] += np.pi           # periodic midpoints
  lo = np.roll(up, 1); lo[0] -= 2 * np.pi
  dl = up - lo
  lb = np.concatenate([[-np.pi / 2], (lat[:-1] + lat[1:]) / 2, [np.pi / 2]])
  return np.outer(dl, np.diff(np.sin(lb)))


def task_horizontal_pair(ctx, pname, src, tgt):
  """ConservativeRegridder on a concrete grid pair, ALL fields symbolic: constants, range, area-weighted integral;
  NaN handling for enumerated missing-value patterns (values symbolic)."""
  from dinosaur import horizontal_interpolation as hi
  gs, gt = grids.make_grid(src), grids.make_grid(tgt)
  ctx.encoded(hi.ConservativeRegridder.__call__, hi.ConservativeRegridder._mean, hi.conservative_longitude_weights, hi.conservative_latitude_weights,
              hi._longitude_overlap, hi._periodic_overlap, hi._align_phase_with, hi._periodic_upper_bounds, hi._periodic_lower_bounds, hi._latitude_overlap)
  rg = hi.ConservativeRegridder(gs, gt)
  wide = bool(2 * np.pi / src['nlon'] + 2 * np.pi / tgt['nlon'] > np.pi)
  conf = dict(pair=pname, source=grids.cfg_name(src), target=grids.cfg_name(tgt), cell_widths_sum_exceeds_half_circle=wide)
  sp = Space(bits=12)
  f = PolyArr.variables(sp, 'f', gs.nodal_shape)
  c = PolyArr.variables(sp, 'c', ())
  As, At = _cell_areas(gs), _cell_areas(gt)
  prove_close(ctx, 'horizontal.constants_reproduced', lambda c: (rg(jnp.ones(gs.nodal_shape) * c), jnp.ones(gt.nodal_shape) * c), [c], sp, config=conf, scale_floor=1.0)
  prove_close(ctx, 'horizontal.area_weighted_integral_conserved',
              lambda f: (jnp.sum(rg(f) * At), jnp.sum(f * As)), [f], sp, config=conf, scale_floor=float(As.sum()))
  # range: for fields in [-1,1] every output lies in [-1,1]  (with rows summing to one this is weights >= 0)
  outs, td, it = harness.interpret(lambda f: rg(f), [f], sp)
  lo, hi_ = outs[0].bounds()
  worst = float(max(hi_.max() - 1, -1 - lo.min()))
  # decided by the solver on the worst row
  import scipy.sparse as sps
  M = outs[0].M.tocsr()
  rid = int(np.argmax(np.maximum(hi_.reshape(-1) - 1, -1 - lo.reshape(-1))))
  s_, e_ = M.indptr[rid], M.indptr[rid + 1]
  terms = ' '.join(f'(* {smt.rat(v)} y{c_})' for c_, v in zip(M.indices[s_:e_], M.data[s_:e_]) if c_ != 0)
  decl = '\n'.join(f'(declare-const y{c_} Real)(assert (<= (- 1.0) y{c_} 1.0))' for c_ in M.indices[s_:e_] if c_ != 0)
  tol = 1e-9
  text = f'{decl}\n(assert (or (> (+ 0.0 {terms}) {smt.rat(1 + tol)}) (< (+ 0.0 {terms}) {smt.rat(-1 - tol)})))'
  v, _ = smt.check_text(text, 'QF_LRA')
  allrows_ok = worst <= tol
  if v == 'unsat' and allrows_ok:
    ctx.clause('horizontal.output_within_input_range', 'discharged', config=conf, queries=1, worst_excess=worst)
  else:
    xv = np.sign(np.asarray(M[rid].todense()).reshape(-1)[1:1 + f.size]).reshape(gs.nodal_shape)
    real = np.asarray(rg(jnp.asarray(xv)))
    if np.abs(real).max() > 1 + tol:
      ctx.violation('horizontal.output_within_input_range', dict(config=conf), dict(inputs=[xv.tolist()], max_abs_output=float(np.abs(real).max())),
                    f'{pname}: output {np.abs(real).max():.6f} outside the input range [-1,1] (negative weight)')
    else:
      ctx.error('horizontal.range', 'range counterexample did not replay')
  # NaN patterns
  from dverif import jsym
  jsym.OPTIONS['div0_to_nan'] = True
  rng = np.random.default_rng(0)
  for skipna in (False, True):
    rgn = hi.ConservativeRegridder(gs, gt, skipna=skipna)
    Wlon = np.asarray(rgn.lon_weights); Wlat = np.asarray(rgn.lat_weights)
    for pat in range(3):
      mask = np.zeros(gs.nodal_shape, bool)
      if pat == 0:
        mask[rng.integers(0, gs.nodal_shape[0]), rng.integers(0, gs.nodal_shape[1])] = True
      elif pat == 1:
        mask[:, rng.integers(0, gs.nodal_shape[1])] = True
      else:
        mask[rng.random(gs.nodal_shape) < 0.3] = True
      spn = Space(bits=12)
      fn_ = PolyArr.variables(spn, 'f', gs.nodal_shape)

      def g(x, mask=mask, rgn=rgn):
        return rgn(jnp.where(mask, jnp.nan, x))
      try:
        on, _, _ = harness.interpret(g, [fn_], spn)
      except Exception as e:  # noqa: BLE001
        ctx.error('horizontal.nan', f'{type(e).__name__}: {e}')
        continue
      Mn = on[0].M.tocsr()
      got_nan = np.asarray([np.isnan(Mn.data[Mn.indptr[r]:Mn.indptr[r + 1]]).any() for r in range(Mn.shape[0])]).reshape(gt.nodal_shape)
      # documented: any overlapping missing cell -> missing (skipna False, up to the 1e-3 fraction threshold);
      # all overlapping cells missing -> missing (skipna True)
      contrib = np.einsum('ab,cd->acbd', Wlon > 0, Wlat > 0)             # target (a,c) <- source (b,d)
      frac_missing = np.einsum('ab,cd,bd->ac', Wlon, Wlat, mask.astype(float))
      if skipna:
        # all cells with a (strictly) positive weight are missing
        present = np.einsum('acbd,bd->ac', contrib.astype(float), (~mask).astype(float))
        expect = present == 0
      else:
        expect = ~np.isclose(1 - frac_missing, 1, rtol=1e-3)
      okn = bool(np.array_equal(got_nan, expect))
      ctx.clause('horizontal.missing_values_as_documented', 'discharged' if okn else 'failed', config=dict(conf, skipna=skipna, pattern=pat), queries=0)
      if not okn:
        ctx.violation('horizontal.missing_values_as_documented', dict(config=dict(conf, skipna=skipna, pattern=pat)),
                      dict(mask=mask.tolist(), got=got_nan.tolist(), expected=expect.tolist()), f'{pname}: NaN pattern differs from the documented rule (skipna={skipna})')
      elif skipna:
        # values where defined: weighted mean over the non-missing cells (symbolic identity)
        wts = np.einsum('ab,cd->acbd', Wlon, Wlat) * (~mask)[None, None]
        den = wts.sum(axis=(2, 3))
        sel = ~expect

        def gref(x, mask=mask, wts=wts, den=den):
          return rgn(jnp.where(mask, jnp.nan, x)), jnp.einsum('acbd,bd->ac', wts, x) / jnp.where(den > 0, den, 1.0)
        # compare only the defined entries; rows with NaN are masked out of the comparison
        on2, td2, it2 = harness.interpret(gref, [fn_], spn)
        a_, b_ = on2
        a_ = a_.select_rows(sel)
        prove_close(ctx, 'horizontal.skipna_mean_over_present_cells', gref, [fn_], spn, select=[sel], config=dict(conf, pattern=pat),
                    pre=([a_, b_], td2, it2), validate=False, scale_floor=1.0)


def task_field_dtype(ctx, pname, src, tgt):
  """ConservativeRegridder on integer- and boolean-valued fields (land/sea masks, categorical data stored as integers): with the field
  values SYMBOLIC integers (z3 Int / Bool, term domain; conversions int -> float exact, float -> int truncation as ToInt) the output equals
  the output for the same values given as float64 — i.e. constants, range and integrals hold for every field dtype.  A counterexample is
  replayed on the real regridder with an array of that dtype."""
  from dinosaur import horizontal_interpolation as hi
  gs, gt = grids.make_grid(src), grids.make_grid(tgt)
  ctx.encoded(hi.ConservativeRegridder.__call__, hi.ConservativeRegridder._mean)
  for skipna in (False, True):
    rg = hi.ConservativeRegridder(gs, gt, skipna=skipna)
    for dname, dt, sort in (('int64', jnp.int64, 'int'), ('int32', jnp.int32, 'int'), ('bool', jnp.bool_, 'bool')):
      conf = dict(pair=pname, source=grids.cfg_name(src), target=grids.cfg_name(tgt), field_dtype=dname, skipna=skipna, values='[-8, 8]' if sort == 'int' else '{0,1}')
      cname = 'horizontal.integer_and_boolean_fields_regrid_like_their_float_values'
      sp = TermSpace()
      n = int(np.prod(gs.nodal_shape))
      if sort == 'int':
        fi = TermArr.variables(sp, 'f', gs.nodal_shape, sort='int')
        pre = [z3.And(x >= -8, x <= 8) for x in fi.a.reshape(-1)]
      else:
        arr = np.empty(n, dtype=object)
        for i in range(n):
          arr[i] = z3.Bool(f'f_{i}'); sp.vars.append(arr[i])
        fi = TermArr(arr.reshape(gs.nodal_shape), sp); pre = []
      ff = fi.to_float()
      try:
        cl_i = jax.make_jaxpr(lambda f: rg(f))(jnp.zeros(gs.nodal_shape, dt))
        cl_f = jax.make_jaxpr(lambda f: rg(f))(jnp.zeros(gs.nodal_shape, jnp.float64))
        oi = Interp(sp).run(cl_i, fi)[0]; of = Interp(sp).run(cl_f, ff)[0]
      except Exception as e:  # noqa: BLE001
        ctx.error(cname, f'{dname}: {type(e).__name__}: {e}')
        continue
      li = [_r(x) for x in oi.to_float().a.reshape(-1)]; lf = [_r(x) for x in of.a.reshape(-1)]
      tol = Q(1e-9)
      ok, model = decide(ctx, cname, conf, pre, z3.Or(*[z3.Or(a - b > tol, b - a > tol) for a, b in zip(li, lf)]), 'QF_LIRA', timeout=60000)
      if not ok and model is not None:
        vals = []
        for x in fi.a.reshape(-1):
          v = model.eval(x, model_completion=True)
          vals.append(bool(z3.is_true(v)) if sort == 'bool' else int(v.as_long()))
        xv = np.asarray(vals).reshape(gs.nodal_shape).astype(np.dtype(dname))
        got = np.asarray(rg(jnp.asarray(xv))); want = np.asarray(rg(jnp.asarray(xv, jnp.float64)))
        d = float(np.max(np.abs(got.astype(float) - want)))
        if d > 1e-9:
          ctx.violation(cname, dict(config=conf, kind='field-dtype'), dict(inputs=[xv.tolist()], dtype=dname, output_dtype=str(got.dtype), max_abs_difference=d),
                        f'{pname}: regridding a {dname} field gives {got.dtype} values that differ by {d:.3g} from regridding the same values as float64 '
                        '(constants / integrals are not preserved for this field dtype)')
        else:
          ctx.error(cname, f'{dname}: counterexample did not replay on the real regridder')



def make_tasks(tier, seed):
  tasks = []
  sizes = [(3, 2), (4, 3), (6, 5)] + ([(8, 6)] if tier != 'quick' else [])
  for ns, nt in sizes:
    tasks.append(dict(name=f'vertical-overlap-{ns}x{nt}', fn='task_vertical_overlap', kw=dict(ns=ns, nt=nt)))
  sig = {'even3': [0, 1 / 3, 2 / 3, 1.0], 'uneven3': [0, 0.05, 0.4, 1.0], 'uneven4': [0.0, 0.02, 0.2, 0.6, 1.0]}
  for hn, sn in (('full-column-4', 'even3'), ('low-top-4', 'uneven3'), ('low-top-4', 'uneven4'), ('pure-sigma-3', 'uneven3')):
    tasks.append(dict(name=f'hybrid-{hn}-{sn}', fn='task_hybrid', kw=dict(hname=hn, sname=sn, sigma_bounds=sig[sn])))
  for ns, nt in [(3, 3), (4, 3)] + ([(5, 4)] if tier != 'quick' else []):
    tasks.append(dict(name=f'latitude-{ns}x{nt}', fn='task_latitude', kw=dict(ns=ns, nt=nt)))
  rots = [((0, 0), (0, 0)), ((-1, 2), (0, 0)), ((0, 0), (0, 1)), ((0, 3), (-1, 2))]
  if tier != 'quick':
    rots = [(a, b) for a in [(0, 0)] + [(k, j) for k in (-1, 0) for j in range(1, 5)] for b in [(0, 0)] + [(k, j) for k in (-1, 0) for j in range(1, 4)]]
  for rs, rt in rots:
    tasks.append(dict(name=f'longitude-5x4-rot{rs[0]}.{rs[1]}-{rt[0]}.{rt[1]}', fn='task_longitude', kw=dict(ns=5, nt=4, rot_s=rs, rot_t=rt)))
  if tier != 'quick':
    for ns, nt in ((4, 5), (7, 3), (6, 4)):
      tasks.append(dict(name=f'longitude-{ns}x{nt}', fn='task_longitude', kw=dict(ns=ns, nt=nt)))
  for pname, s, t in grid_pairs(tier):
    tasks.append(dict(name=f'pair-{pname}', fn='task_horizontal_pair', kw=dict(pname=pname, src=s, tgt=t)))
  for pname, s, t in grid_pairs(tier)[:(2 if tier == 'quick' else 6)]:
    tasks.append(dict(name=f'dtype-{pname}', fn='task_field_dtype', kw=dict(pname=pname, src=s, tgt=t)))
  return tasks


def main(tier='quick', seed=0, jobs=None, only=None, t0=None):
  t0 = t0 or time.time()
  tasks = make_tasks(tier, seed)
  if only:
    tasks = [t for t in tasks if only in t['name']]
  results = harness.run_tasks(MOD, tasks, PID, seed, tier, jobs)
  return harness.finalize(
      PID, tier, seed, results, t0,
      explanation='Vertical: _interval_overlap / conservative_regrid_weights / regrid_hybrid_to_sigma interpreted with SYMBOLIC grid bounds, '
                  'surface pressure and field (z3 terms with ite); overlap lemmas in QF_LRA, normalised weights through cut-point abstraction in '
                  'QF_NRA. Horizontal: latitude overlaps with symbolic centres (sin uninterpreted + monotonicity instances); concrete grid pairs '
                  'with ALL fields symbolic (constants, range, area integral); NaN rules on enumerated missing patterns with symbolic values.',
      bounds=dict(tasks=[t['name'] for t in tasks], vertical_cells='<= 6 source x 5 target symbolic', surface_pressure='[400, 1100] hPa',
                  latitude_points='<= 4 x 3 symbolic', field_box='[-1,1]'),
      assumptions=['real-arithmetic semantics', 'strictly increasing bounds / centres (documented precondition)',
                   'isclose(fraction, 1, rtol=1e-3) threshold is part of the documented NaN rule'],
      trusted=['JAX tracing', 'dverif interpreter', 'z3'],
      outside=['longitude overlaps with symbolic centres (concrete pairs only)', 'float32 precision hint of the einsum'])
