"""C12 — physical results do not depend on the non-dimensionalisation scale."""
from __future__ import annotations

import time
import numpy as np

import dverif  # noqa: F401
import jax
import jax.numpy as jnp

from dverif import grids, harness, models
from dverif.harness import prove_close
from dverif.poly import Space, PolyArr

PID = 'C12'
MOD = 'checks.c12'
SQRT4PI = float(np.sqrt(4 * np.pi))


def scale_table(seed):
  from dinosaur import scales
  u = scales.units
  rng = np.random.default_rng(seed + 31)
  dec = lambda: float(10.0 ** rng.uniform(-2, 2))
  return {
      'default': scales.DEFAULT_SCALE,
      'atmospheric': scales.ATMOSPHERIC_SCALE,
      'si': scales.Scale(1 * u.m, 1 * u.s, 1 * u.kg, 1 * u.degK),
      'odd': scales.Scale(scales.RADIUS / 37, 5.3 / (2 * scales.OMEGA), 16.4 * u.kg, 3.15 * u.degK),
      'seeded': scales.Scale(scales.RADIUS * dec(), dec() / (2 * scales.OMEGA), dec() * u.kg, dec() * u.degK),
      # the default scale with ONE base unit changed (a stale value keyed on the other three, or on the grid alone, only shows here)
      'default_time_only': scales.Scale(scales.RADIUS, 7.3 / (2 * scales.OMEGA), 1 * u.kg, 1 * u.degK),
      'default_length_only': scales.Scale(scales.RADIUS * 0.31, 1 / (2 * scales.OMEGA), 1 * u.kg, 1 * u.degK),
      'default_mass_only': scales.Scale(scales.RADIUS, 1 / (2 * scales.OMEGA), 250.0 * u.kg, 1 * u.degK),
      'default_temperature_only': scales.Scale(scales.RADIUS, 1 / (2 * scales.OMEGA), 1 * u.kg, 41.0 * u.degK),
  }


def base_si(scale):
  """(L, T, M, Theta) of a scale in SI magnitudes — read from the stored base quantities."""
  g = lambda k: float(scale[k].to_base_units().magnitude)
  return g('[length]'), g('[time]'), g('[mass]'), g('[temperature]')


def factors(sA, sB):
  """Multipliers converting scale-A non-dimensional numbers into scale-B numbers, per physical kind
  (computed by hand from the base scales, independent of Scale.nondimensionalize)."""
  LA, TA, MA, HA = base_si(sA); LB, TB, MB, HB = base_si(sB)
  f = dict(rate=TB / TA, temperature=HA / HB, length=LA / LB, time=TA / TB)
  pA = MA / (LA * TA ** 2); pB = MB / (LB * TB ** 2)      # pressure scales
  f['log_pressure_shift'] = float(np.log(pA / pB))
  f['potential'] = (LA / LB) ** 2 * (TB / TA) ** 2           # geopotential m^2/s^2
  return f


def task_pe(ctx, cfg, levels, lname, kind, sa, sb, seed, step=False):
  from dinosaur import primitive_equations as pe, scales, time_integration as ti
  u = scales.units
  T = scale_table(seed)
  sA, sB = T[sa], T[sb]
  f = factors(sA, sB)
  K = len(levels) - 1
  radius_si = scales.RADIUS
  def build(scale):
    specs = pe.PrimitiveEquationsSpecs.from_si(scale=scale)
    c = dict(cfg, radius=float(specs.radius))
    coords = models.make_coords(c, levels)
    return specs, coords
  specsA, coordsA = build(sA); specsB, coordsB = build(sB)
  grid = coordsA.horizontal
  base, zm = models.admissible_masks(grid)
  rng = np.random.default_rng(13)
  tref_si = np.linspace(220.0, 290.0, K)
  oro_si = rng.uniform(-800, 800, grid.modal_shape) * base             # metres (modal)
  cls = {'moist': pe.MoistPrimitiveEquations, 'cloud': pe.MoistPrimitiveEquationsWithCloudMoisture}.get(kind, pe.PrimitiveEquations)
  mk_eq = lambda specs, coords: cls(np.asarray(specs.nondimensionalize(tref_si * u.degK)),
                                    np.asarray(specs.nondimensionalize(oro_si * u.m)), coords, specs)
  eqA = mk_eq(specsA, coordsA); eqB = mk_eq(specsB, coordsB)
  ctx.encoded(cls.explicit_terms, cls.implicit_terms, cls.implicit_inverse, pe.PrimitiveEquationsSpecs.from_si, scales.Scale.nondimensionalize,
              scales.Scale._scaling_factor, pe.get_geopotential_diff, pe.get_temperature_implicit)
  tracers = {'moist': ['specific_humidity'], 'cloud': ['specific_humidity', 'specific_cloud_liquid_water_content', 'specific_cloud_ice_water_content']}.get(kind, [])
  sp = Space(bits=10)
  # state in scale-A numbers; boxes chosen so that the SI magnitudes are atmospheric (vorticity ~1e-5/s * T_A ...)
  LA, TA, MA, HA = base_si(sA)
  rate_box = 2e-5 * TA; temp_box = 10.0 / HA
  ms = coordsA.modal_shape; ss = coordsA.surface_modal_shape
  b_ = np.broadcast_to
  xs = [PolyArr.variables(sp, 'vor', ms, -rate_box, rate_box, free=b_(zm, ms)),
        PolyArr.variables(sp, 'div', ms, -rate_box, rate_box, free=b_(zm, ms)),
        PolyArr.variables(sp, 'T', ms, -temp_box, temp_box, free=b_(base, ms)),
        PolyArr.variables(sp, 'lsp', ss, -0.05, 0.05, free=b_(base & (grid.modal_mesh[1] >= 1), ss))]
  for t in tracers:
    xs.append(PolyArr.variables(sp, t, ms, -0.005, 0.005, free=b_(base, ms)))
  lsp0_A = float(np.log(specsA.nondimensionalize(1e5 * u.pascal))) * SQRT4PI      # mean surface pressure 1000 hPa

  def mk(v, d, t, p, *q):
    trd = dict(zip(tracers, q))
    if kind in ('moist', 'cloud'):
      return pe.StateWithTime(v, d, t, p, 0.0, trd)
    return pe.State(v, d, t, p, trd)

  def leaves(s):
    return (s.vorticity, s.divergence, s.temperature_variation, s.log_surface_pressure) + tuple(s.tracers[k] for k in tracers)

  def toB(v, d, t, p, *q):
    return (v * f['rate'], d * f['rate'], t * f['temperature'], p.at[0, 0, 0].add(f['log_pressure_shift'] * SQRT4PI)) + tuple(q)

  def tendB(ls):     # convert scale-A tendencies to scale-B numbers
    r = f['rate']
    return (ls[0] * r * r, ls[1] * r * r, ls[2] * f['temperature'] * r, ls[3] * r) + tuple(x * r for x in ls[4:])
  conf = dict(grid=grids.cfg_name(cfg), levels=lname, kind=kind, scale_a=sa, scale_b=sb)

  def both(v, d, t, p, *q):
    p = p.at[0, 0, 0].add(lsp0_A)
    a = mk(v, d, t, p, *q); b = mk(*toB(v, d, t, p, *q))
    ea = leaves(eqA.explicit_terms(a)) + leaves(eqA.implicit_terms(a))
    eb = leaves(eqB.explicit_terms(b)) + leaves(eqB.implicit_terms(b))
    n = len(ea) // 2
    return eb, tendB(ea[:n]) + tendB(ea[n:])
  prove_close(ctx, 'tendencies_equal_in_SI', both, xs, sp, config=conf)
  if step:
    dt_si = 600.0
    dtA = float(specsA.nondimensionalize(dt_si * u.s)); dtB = float(specsB.nondimensionalize(dt_si * u.s))
    stA = ti.backward_forward_euler(eqA, dtA); stB = ti.backward_forward_euler(eqB, dtB)
    ctx.encoded(ti.backward_forward_euler)

    def both_step(v, d, t, p, *q):
      p = p.at[0, 0, 0].add(lsp0_A)
      a = stA(mk(v, d, t, p, *q)); b = stB(mk(*toB(v, d, t, p, *q)))
      return leaves(b), toB(*leaves(a))
    prove_close(ctx, 'euler_step_equal_in_SI', both_step, xs, sp, config=dict(conf, dt_si=dt_si))


def task_held_suarez(ctx, cfg, levels, lname, sa, sb, seed):
  """Held-Suarez forcing under two scales: SI-equal tendencies for all states.  exp / log / pow / max are atoms; their
  elementary laws (exp(c+r) = e^c exp(r), log(c e^r) = log c + r, (c e^r)^k = c^k e^(k r), relu(s a) = s relu(a)) normalise
  the atoms so that the two runs meet in the same symbols."""
  from dinosaur import held_suarez as hs, primitive_equations as pe, scales
  u = scales.units
  T = scale_table(seed)
  sA, sB = T[sa], T[sb]
  f = factors(sA, sB)
  K = len(levels) - 1

  def build(scale):
    specs = pe.PrimitiveEquationsSpecs.from_si(scale=scale)
    coords = models.make_coords(dict(cfg, radius=float(specs.radius)), levels)
    return specs, coords
  specsA, coordsA = build(sA); specsB, coordsB = build(sB)
  grid = coordsA.horizontal
  base, zm = models.admissible_masks(grid)
  tref_si = np.linspace(230.0, 290.0, K)
  mk = lambda specs, coords: hs.HeldSuarezForcing(coords, specs, np.asarray(specs.nondimensionalize(tref_si * u.degK)))
  fA, fB = mk(specsA, coordsA), mk(specsB, coordsB)
  ctx.encoded(hs.HeldSuarezForcing.__init__, hs.HeldSuarezForcing.explicit_terms, hs.HeldSuarezForcing.equilibrium_temperature, hs.HeldSuarezForcing.kv, hs.HeldSuarezForcing.kt)
  sp = Space(bits=10)
  sp.normalise_atoms = True
  LA, TA, MA, HA = base_si(sA)
  rate_box = 2e-5 * TA; temp_box = 10.0 / HA
  ms = coordsA.modal_shape; ss = coordsA.surface_modal_shape
  b_ = np.broadcast_to
  xs = [PolyArr.variables(sp, 'vor', ms, -rate_box, rate_box, free=b_(zm, ms)), PolyArr.variables(sp, 'div', ms, -rate_box, rate_box, free=b_(zm, ms)),
        PolyArr.variables(sp, 'T', ms, -temp_box, temp_box, free=b_(base, ms)),
        PolyArr.variables(sp, 'lsp', ss, -0.05, 0.05, free=b_(base & (grid.modal_mesh[1] >= 1), ss))]
  lsp0_A = float(np.log(specsA.nondimensionalize(1e5 * u.pascal))) * SQRT4PI
  r = f['rate']

  def both(v, d, t, p):
    p = p.at[0, 0, 0].add(lsp0_A)
    a = fA.explicit_terms(pe.State(v, d, t, p))
    b = fB.explicit_terms(pe.State(v * r, d * r, t * f['temperature'], p.at[0, 0, 0].add(f['log_pressure_shift'] * SQRT4PI)))
    return ((b.vorticity, b.divergence, b.temperature_variation, b.log_surface_pressure),
            (a.vorticity * r * r, a.divergence * r * r, a.temperature_variation * f['temperature'] * r, a.log_surface_pressure * r))
  prove_close(ctx, 'held_suarez.tendencies_equal_in_SI', both, xs, sp, config=dict(grid=grids.cfg_name(cfg), levels=lname, scale_a=sa, scale_b=sb, atoms='normalised by exp/log/pow/relu laws'),
              validate=True)


def task_sw(ctx, cfg, sa, sb, seed):
  from dinosaur import shallow_water as sw, scales, coordinate_systems as cs, layer_coordinates as lc
  u = scales.units
  T = scale_table(seed)
  sA, sB = T[sa], T[sb]
  f = factors(sA, sB)
  nl = 2
  dens = np.array([1.0, 1.1]) * scales.WATER_DENSITY
  rng = np.random.default_rng(21)

  def build(scale):
    specs = sw.ShallowWaterSpecs.from_si(densities=dens, scale=scale)
    grid = grids.make_grid(dict(cfg, radius=float(specs.radius)))
    coords = cs.CoordinateSystem(grid, lc.LayerCoordinates(nl))
    return specs, coords
  specsA, coordsA = build(sA); specsB, coordsB = build(sB)
  grid = coordsA.horizontal
  base, zm = models.admissible_masks(grid)
  oro_si = rng.uniform(-2e3, 2e3, grid.modal_shape) * base                      # geopotential m^2/s^2
  phi_si = np.array([3.0e4, 5.0e4])
  g = lambda specs, arr: np.asarray(specs.nondimensionalize(arr * u.m ** 2 / u.s ** 2))
  eqA = sw.ShallowWaterEquations(coordsA, specsA, g(specsA, oro_si), g(specsA, phi_si))
  eqB = sw.ShallowWaterEquations(coordsB, specsB, g(specsB, oro_si), g(specsB, phi_si))
  ctx.encoded(sw.ShallowWaterEquations.explicit_terms, sw.ShallowWaterEquations.implicit_terms, sw.ShallowWaterSpecs.from_si)
  LA, TA, MA, HA = base_si(sA)
  ms = (nl,) + grid.modal_shape
  sp = Space(bits=10)
  b_ = np.broadcast_to
  rate_box = 2e-5 * TA; pot_box = 500.0 * TA ** 2 / LA ** 2
  v = PolyArr.variables(sp, 'v', ms, -rate_box, rate_box, free=b_(zm, ms)); d = PolyArr.variables(sp, 'd', ms, -rate_box, rate_box, free=b_(zm, ms))
  p = PolyArr.variables(sp, 'p', ms, -pot_box, pot_box, free=b_(base, ms))
  r = f['rate']; fp = f['potential']

  def both(v, d, p):
    a = sw.State(v, d, p); b = sw.State(v * r, d * r, p * fp)
    ea = eqA.explicit_terms(a); ia = eqA.implicit_terms(a)
    eb = eqB.explicit_terms(b); ib = eqB.implicit_terms(b)
    return ((eb.vorticity, eb.divergence, eb.potential, ib.divergence, ib.potential),
            (ea.vorticity * r * r, ea.divergence * r * r, ea.potential * fp * r, ia.divergence * r * r, ia.potential * fp * r))
  prove_close(ctx, 'sw.tendencies_equal_in_SI', both, [v, d, p], sp, config=dict(grid=grids.cfg_name(cfg), scale_a=sa, scale_b=sb))


def task_sw_trajectory(ctx, cfg, sa, sb, seed, outer=2):
  """The same SI shallow-water problem (constants, orography, mean potentials, time step of 600 s, filters) integrated by the library's own
  trajectory builder under two unit scales: every saved frame is equal once converted back to SI, for ALL pairs of starting time levels."""
  from dinosaur import shallow_water as sw, scales, coordinate_systems as cs, layer_coordinates as lc
  u = scales.units
  T = scale_table(seed)
  sA, sB = T[sa], T[sb]
  f = factors(sA, sB)
  nl = 1
  dens = np.array([1.0]) * scales.WATER_DENSITY
  rng = np.random.default_rng(23)
  dt_si = 600.0 * u.s

  def build(scale):
    specs = sw.ShallowWaterSpecs.from_si(densities=dens, scale=scale)
    grid = grids.make_grid(dict(cfg, radius=float(specs.radius)))
    coords = cs.CoordinateSystem(grid, lc.LayerCoordinates(nl))
    return specs, coords
  specsA, coordsA = build(sA); specsB, coordsB = build(sB)
  grid = coordsA.horizontal
  base, zm = models.admissible_masks(grid)
  oro_si = rng.uniform(-2e3, 2e3, grid.modal_shape) * base
  phi_si = np.array([4.0e4])
  g = lambda specs, arr: np.asarray(specs.nondimensionalize(arr * u.m ** 2 / u.s ** 2))
  ctx.encoded(sw.shallow_water_leapfrog_trajectory, sw.default_filters, sw.ShallowWaterSpecs.from_si)

  def traj(specs, coords):
    dt = float(specs.nondimensionalize(dt_si))
    return sw.shallow_water_leapfrog_trajectory(coords, dt, specs, inner_steps=1, outer_steps=outer, mean_potential=g(specs, phi_si), orography=g(specs, oro_si),
                                                filters=(__import__('dinosaur.time_integration', fromlist=['x']).robert_asselin_leapfrog_filter(0.05),), alpha=0.5)
  tA = traj(specsA, coordsA); tB = traj(specsB, coordsB)
  LA, TA, MA, HA = base_si(sA)
  ms = (nl,) + grid.modal_shape
  sp = Space(bits=10)
  b_ = np.broadcast_to
  rate_box = 2e-5 * TA; pot_box = 500.0 * TA ** 2 / LA ** 2
  mk = lambda pre: [PolyArr.variables(sp, pre + 'v', ms, -rate_box, rate_box, free=b_(zm, ms)), PolyArr.variables(sp, pre + 'd', ms, -rate_box, rate_box, free=b_(zm, ms)),
                    PolyArr.variables(sp, pre + 'p', ms, -pot_box, pot_box, free=b_(base, ms))]
  r = f['rate']; fp = f['potential']

  def both(v0, d0, p0, v1, d1, p1):
    _, fa = tA((sw.State(v0, d0, p0), sw.State(v1, d1, p1)))
    _, fb = tB((sw.State(v0 * r, d0 * r, p0 * fp), sw.State(v1 * r, d1 * r, p1 * fp)))
    return (fb.vorticity, fb.divergence, fb.potential), (fa.vorticity * r, fa.divergence * r, fa.potential * fp)
  prove_close(ctx, 'sw.trajectory_frames_equal_in_SI', both, mk('a') + mk('b'), sp, config=dict(grid=grids.cfg_name(cfg), scale_a=sa, scale_b=sb, frames=outer, dt_si='600 s'))


def make_tasks(tier, seed):
  LS = models.level_sets(seed)
  cfg = dict(M=3, L=4, nlon=8, nlat=5)
  cfgf = dict(M=3, L=4, nlon=8, nlat=5, impl='fast')
  tasks = []

  def add(c, ln, kind, sa, sb, step=False):
    tasks.append(dict(name=f'pe-{kind}-{grids.cfg_name(c)}-{ln}-{sa}-{sb}' + ('-step' if step else ''), fn='task_pe',
                      kw=dict(cfg=c, levels=LS[ln].tolist(), lname=ln, kind=kind, sa=sa, sb=sb, seed=seed, step=step)))
  add(cfg, 'dy2', 'dry', 'default', 'odd', step=True)
  add(cfg, 'dy3', 'dry', 'default', 'si')
  add(cfgf, 'dy2', 'dry', 'atmospheric', 'seeded')
  add(cfg, 'dy2', 'moist', 'default', 'odd')
  add(cfg, 'dy2', 'moist', 'si', 'seeded')
  add(cfg, 'dy2', 'cloud', 'default', 'odd')        # cloud-condensate variant (liquid / ice loading in the virtual temperature)
  for one in ('time', 'length', 'mass', 'temperature'):
    add(cfg, 'dy2', 'moist' if one in ('mass', 'temperature') else 'dry', 'default', f'default_{one}_only')
  tasks.append(dict(name='held-suarez-default-time-only', fn='task_held_suarez', kw=dict(cfg=cfg, levels=LS['dy2'].tolist(), lname='dy2', sa='default', sb='default_time_only', seed=seed)))
  tasks.append(dict(name='sw-default-time-only', fn='task_sw', kw=dict(cfg=cfg, sa='default', sb='default_time_only', seed=seed)))
  cfg2 = dict(M=2, L=3, nlon=5, nlat=4)
  tasks.append(dict(name='sw-trajectory-default-odd', fn='task_sw_trajectory', kw=dict(cfg=cfg2, sa='default', sb='odd', seed=seed)))
  tasks.append(dict(name='sw-trajectory-default-time-only', fn='task_sw_trajectory', kw=dict(cfg=cfg2, sa='default', sb='default_time_only', seed=seed)))
  tasks.append(dict(name='held-suarez-default-odd', fn='task_held_suarez', kw=dict(cfg=cfg, levels=LS['dy3'].tolist(), lname='dy3', sa='default', sb='odd', seed=seed)))
  tasks.append(dict(name='held-suarez-si-seeded', fn='task_held_suarez', kw=dict(cfg=cfg, levels=LS['dy2'].tolist(), lname='dy2', sa='si', sb='seeded', seed=seed)))
  for sa, sb in (('default', 'odd'), ('si', 'seeded')):
    tasks.append(dict(name=f'sw-{sa}-{sb}', fn='task_sw', kw=dict(cfg=cfg, sa=sa, sb=sb, seed=seed)))
  if tier != 'quick':
    add(dict(M=4, L=5, nlon=12, nlat=6), 'dy3', 'dry', 'odd', 'seeded', step=True)
    add(cfgf, 'dy3', 'moist', 'atmospheric', 'odd', step=True)
    add(cfg, 'un4', 'dry', 'default', 'seeded')
  return tasks


def main(tier='quick', seed=0, jobs=None, only=None, t0=None):
  t0 = t0 or time.time()
  tasks = make_tasks(tier, seed)
  if only:
    tasks = [t for t in tasks if only in t['name']]
  results = harness.run_tasks(MOD, tasks, PID, seed, tier, jobs)
  return harness.finalize(
      PID, tier, seed, results, t0,
      explanation='The same SI problem (constants, radius, orography, reference temperatures, state, time step) is built under two Scale objects '
                  'through from_si; the state is symbolic; tendencies / one Euler-pair step of the two runs, converted with hand-computed '
                  'conversion factors, are equal as polynomials in the state coefficients (QF_LRA monomial abstraction); Held-Suarez forcing with exp/log/pow/max '
                  'as atoms normalised by their elementary laws.',
      bounds=dict(tasks=[t['name'] for t in tasks], state_box='vorticity/divergence |.|<=2e-5/s, T\' <= 10 K, ln ps perturbation <= 0.05, humidity 5e-3',
                  eps='1e-9 x coefficient mass of the compared leaf'),
      assumptions=['real-arithmetic semantics of the float64 IR'],
      trusted=['JAX tracing', 'dverif interpreter', 'z3/cvc5'],
      outside=['radiation under two scales', 'float rounding'])
