"""C20 — physical forcings are bounded, periodic and dissipative."""
from __future__ import annotations

import itertools
import time
from fractions import Fraction
import numpy as np
import z3

import dverif  # noqa: F401
import jax
import jax.numpy as jnp

from dverif import grids, harness, models, smt
from dverif.harness import prove_close
from dverif.poly import Space, PolyArr
from dverif.term import TermArr, TermSpace, R, specialize
from dverif.jsym import Interp

PID = 'C20'
MOD = 'checks.c20'


def Q(v):
  return z3.RealVal(Fraction(float(v)))


def _r(t):
  t = R(t)
  return z3.ToReal(t) if z3.is_int(t) else t


def decide(ctx, name, config, pre, bad, logic='QF_UFNRA', timeout=60000, violation_msg=None):
  v, model = smt.check_z3(list(pre) + [bad], logic, timeout, want_model=True)
  if v == 'unsat':
    ctx.clause(name, 'discharged', config=config, queries=1)
    return True, None
  if v == 'sat':
    ctx.clause(name, 'failed', config=config, queries=1)
    return False, model
  ctx.clause(name, 'inconclusive', config=config, queries=1)
  ctx.error(name, f'solver verdict {v}')
  return False, None


def trig_axioms(sp):
  """sin^2+cos^2 = 1 on arguments where both occur; |sin|,|cos| <= 1 everywhere."""
  ax = []
  sins = sp.uf_apps.get('sin', []); coss = sp.uf_apps.get('cos', [])
  for a, r in sins + coss:
    ax += [r <= 1, r >= -1]
  for (a1, s), (a2, c) in itertools.product(sins, coss):
    if a1.eq(a2):
      ax.append(s * s + c * c == 1)
  return ax


def task_radiation(ctx):
  from dinosaur import radiation as rad
  ctx.encoded(rad.get_radiation_flux, rad.get_solar_sin_altitude, rad.get_hour_angle, rad.equation_of_time, rad.get_declination,
              rad.get_direct_solar_irradiance, rad.get_normalized_radiation_flux)
  sp = TermSpace()
  phi = TermArr.variables(sp, 'phi', ()); syn = TermArr.variables(sp, 'syn', ()); lon = TermArr.variables(sp, 'lon', (1,)); lat = TermArr.variables(sp, 'lat', (1,))
  S0 = TermArr.variables(sp, 'S', ()); dS = TermArr.variables(sp, 'dS', ())

  def pieces(phi, syn, lon, lat, S, dS):
    ot = rad.OrbitalTime(phi, syn)
    sa = rad.get_solar_sin_altitude(phi, syn, lon, lat)
    irr = rad.get_direct_solar_irradiance(phi, S, dS)
    return rad.get_radiation_flux(ot, lon, lat, S, dS), sa, irr, rad.get_normalized_radiation_flux(ot, lon, lat, S, dS)
  cl = jax.make_jaxpr(pieces)(0.1, 0.2, jnp.zeros(1), jnp.zeros(1), 1361.0, 47.0)
  flux, sa, irr, nflux = Interp(sp).run(cl, phi, syn, lon, lat, S0, dS)
  fl = _r(flux.a.reshape(-1)[0]); sav = _r(sa.a.reshape(-1)[0]); irv = _r(irr.a.reshape(-1)[0]); nf = _r(nflux.a.reshape(-1)[0])
  S, d = S0.a.reshape(-1)[0], dS.a.reshape(-1)[0]
  pre = trig_axioms(sp) + [S > 0, d >= 0, d < S]
  conf = dict(symbolic='orbital phase, synodic phase, longitude, latitude, solar constant S, variation dS (0 <= dS < S)')
  # lemma A: |sin(altitude)| <= 1  (from sin^2+cos^2 = 1 on latitude and declination, |cos(hour angle)| <= 1)
  decide(ctx, 'radiation.sin_altitude_in_unit_interval', conf, pre, z3.Or(sav > 1, sav < -1))
  # lemma B: 0 < S - dS <= irradiance <= S + dS
  decide(ctx, 'radiation.irradiance_between_aphelion_and_perihelion_values', conf, pre, z3.Or(irv < S - d, irv > S + d, irv <= 0))
  # flux through cut points sigma = sin(altitude) in [-1,1], iota = irradiance in [S-dS, S+dS]
  sg, io = z3.Real('sigma'), z3.Real('iota')
  fl_c = z3.substitute(fl, (sav, sg), (irv, io))
  left = [v for v in _vars(fl_c) if str(v) not in ('sigma', 'iota')]
  if left:
    ctx.error('radiation.cut', f'flux depends on {left} other than through sin(altitude) and irradiance')
  prec = [sg >= -1, sg <= 1, io >= S - d, io <= S + d, S > 0, d >= 0, d < S]
  decide(ctx, 'radiation.flux_nonnegative', conf, prec, fl_c < 0, 'QF_NRA')
  decide(ctx, 'radiation.flux_at_most_perihelion_solar_constant', conf, prec, fl_c > S + d, 'QF_NRA')
  decide(ctx, 'radiation.flux_zero_iff_sun_at_or_below_horizon', conf, prec, z3.Or(z3.And(sg <= 0, fl_c != 0), z3.And(sg > 0, fl_c <= 0)), 'QF_NRA')
  # normalised flux <= 1
  sp.obligations.clear()
  nirr = None
  # normalised irradiance and flux: substitute the same cut point for sin(altitude)
  nf_c = z3.substitute(nf, (sav, sg))
  decide(ctx, 'radiation.normalized_flux_in_unit_interval', conf, pre + [sg >= -1, sg <= 1], z3.Or(nf_c > 1, nf_c < 0))
  # periodicity in both phases: shifting a phase by 2 pi changes every trig argument by a multiple of 2 pi
  two_pi = Q(2 * np.pi)
  for which in ('orbital', 'synodic'):
    sp2 = TermSpace()
    p2 = TermArr.variables(sp2, 'phi', ()); s2 = TermArr.variables(sp2, 'syn', ()); lo2 = TermArr.variables(sp2, 'lon', (1,)); la2 = TermArr.variables(sp2, 'lat', (1,))
    S2 = TermArr.variables(sp2, 'S', ()); d2 = TermArr.variables(sp2, 'dS', ())
    f1 = _r(Interp(sp2).run(cl, p2, s2, lo2, la2, S2, d2)[0].a.reshape(-1)[0])
    n1 = {k: len(v) for k, v in sp2.uf_apps.items()}
    shift = lambda t: TermArr(np.array(t.a.reshape(-1)[0] + two_pi, dtype=object).reshape(()), sp2)
    f2 = _r(Interp(sp2).run(cl, shift(p2) if which == 'orbital' else p2, s2 if which == 'orbital' else shift(s2), lo2, la2, S2, d2)[0].a.reshape(-1)[0])
    # normalisation modulo 2 pi periodicity: every trig application of the shifted run whose argument differs from an
    # application of the base run by an exact multiple of 2 pi (decided by linear simplification, inner applications first)
    # is replaced by the base application
    subs = []
    for fn in ('sin', 'cos'):
      apps = sp2.uf_apps.get(fn, [])
      base_apps = apps[:n1.get(fn, 0)]; new_apps = apps[n1.get(fn, 0):]
      sp2.uf_apps[fn + '_base'] = base_apps; sp2.uf_apps[fn + '_new'] = new_apps
    changed = True
    rounds = 0
    mapped = {}
    while changed and rounds < 6:
      changed = False; rounds += 1
      for fn in ('sin', 'cos'):
        for (a2, r2) in sp2.uf_apps[fn + '_new']:
          if r2.get_id() in mapped:
            continue
          a2n = z3.simplify(z3.substitute(a2, *subs)) if subs else a2
          for (a1, r1) in sp2.uf_apps[fn + '_base']:
            dlt = z3.simplify(a2n - a1)
            if z3.is_rational_value(dlt):
              kk = float(dlt.as_fraction()) / (2 * np.pi)
              if abs(kk - round(kk)) < 1e-12:
                subs.append((r2, r1)); mapped[r2.get_id()] = True; changed = True
                break
    f2n = z3.simplify(z3.substitute(f2, *subs)) if subs else f2
    tol = Q(1e-6)
    unmapped = sum(len(sp2.uf_apps[fn + '_new']) for fn in ('sin', 'cos')) - len(mapped)
    decide(ctx, f'radiation.flux_periodic_in_{which}_phase', dict(conf, period='2 pi', trig_applications_normalised=len(mapped), not_normalised=unmapped),
           trig_axioms(sp2)[:0], z3.Or(f2n - f1 > tol, f1 - f2n > tol), timeout=60000)


def _vars(e):
  seen = set(); out = []
  def rec(x):
    if x.get_id() in seen:
      return
    seen.add(x.get_id())
    if z3.is_const(x) and x.decl().kind() == z3.Z3_OP_UNINTERPRETED:
      out.append(x)
    for c in x.children():
      rec(c)
  rec(e)
  return out


def task_orbital_time(ctx, scale_name):
  """time_to_orbital_time: phases in [0, 2 pi), equal to reference + rate*t modulo 2 pi, periodic."""
  import datetime
  from dinosaur import radiation as rad, primitive_equations as pe, scales
  ctx.encoded(rad.SolarRadiation.time_to_orbital_time, rad.SolarRadiation.__init__, rad.datetime_to_orbital_time)
  scale = {'default': scales.DEFAULT_SCALE, 'si': scales.Scale(1 * scales.units.m, 1 * scales.units.s, 1 * scales.units.kg, 1 * scales.units.degK)}[scale_name]
  specs = pe.PrimitiveEquationsSpecs.from_si(scale=scale)
  coords = models.make_coords(dict(M=2, L=3, nlon=4, nlat=3), [0, 1.0])
  sr = rad.SolarRadiation(coords, specs, datetime.datetime(1979, 3, 7, 13, 20))
  sp = TermSpace()
  t = TermArr.variables(sp, 't', ())
  cl = jax.make_jaxpr(lambda t: jax.tree_util.tree_leaves(sr.time_to_orbital_time(t)))(0.0)
  out = Interp(sp).run(cl, t)
  tv = t.a.reshape(-1)[0]
  two_pi = Q(2 * np.pi)
  rate = [float(sr.orbital_rate.orbital_phase), float(sr.orbital_rate.synodic_phase)]
  ref = [float(sr.reference_orbital_time.orbital_phase), float(sr.reference_orbital_time.synodic_phase)]
  year = float(specs.nondimensionalize(1 * scales.units.year)); day = float(specs.nondimensionalize(1 * scales.units.day))
  tmax = 100 * year
  conf = dict(scale=scale_name, t_range=[-tmax, tmax])
  for k, nm in enumerate(('orbital_phase', 'synodic_phase')):
    ph0 = _r(out[k].a.reshape(-1)[0])
    # cut point: the un-reduced phase  u = reference + rate * t  (the term the traced code builds first)
    lin_t = Interp(sp).run(jax.make_jaxpr(lambda t: jax.tree_util.tree_leaves(sr.reference_orbital_time + sr.orbital_rate * t))(0.0), t)[k]
    lin_term = _r(lin_t.a.reshape(-1)[0])
    u = z3.Real(f'u{k}')
    ph_u = z3.substitute(ph0, (lin_term, u))
    if any(str(v) == 't' for v in _vars(ph_u)):
      ctx.error(f'orbital_time.{nm}', 'phase depends on t other than through reference + rate * t')
      continue
    # the reduction u -> u - floor(u / 2 pi) 2 pi is decided for |u| <= 2000 rad (z3's mixed integer reasoning does not
    # terminate in the budget for the 2.3e5 rad reached by the daily phase after 100 years): ~318 years of orbital phase, ~318 days of daily phase
    U = min(abs(ref[k]) + abs(rate[k]) * tmax, 2000.0)
    for side, pre in (('positive', [u >= Q(1e-9), u <= Q(U)]), ('negative', [u >= Q(-U), u <= Q(-1e-9)]), ('zero', [u == 0])):
      ph = specialize([ph_u], pre)[0]
      c = dict(conf, side=side, cut_point='u = reference + rate * t', u_range=[-U, U])
      decide(ctx, f'orbital_time.{nm}_in_[0,2pi)', c, pre, z3.Or(ph < 0, ph >= two_pi), 'QF_LIRA')
      fl = z3.ToReal(z3.ToInt(u / two_pi))
      tol = Q(1e-9)
      decide(ctx, f'orbital_time.{nm}_congruent_to_elapsed_time_mod_2pi', c, pre, z3.Or(ph - (u - two_pi * fl) > tol, (u - two_pi * fl) - ph > tol), 'QF_LIRA')
  # periods: rate * period = 2 pi (to rounding) -> phases repeat modulo 2 pi
  for k, (nm, period) in enumerate((('orbital_phase', year), ('synodic_phase', day))):
    err = abs(rate[k] * period - 2 * np.pi)
    okp = err <= 1e-12 * 2 * np.pi
    ctx.clause(f'orbital_time.{nm}_period_is_one_{"year" if k == 0 else "day"}', 'discharged' if okp else 'failed', config=dict(conf, rate_times_period_minus_2pi=err), queries=0)
    if not okp:
      ctx.violation(f'orbital_time.{nm}_period', dict(config=conf), dict(rate=rate[k], period=period), f'{nm}: rate*period - 2pi = {err}')


def task_held_suarez_rates(ctx):
  """kv, kt with FULLY SYMBOLIC sigma levels and parameters, run through the real numpy code (TermArr as duck array)."""
  from dinosaur import held_suarez as hs
  ctx.encoded(hs.HeldSuarezForcing.kv, hs.HeldSuarezForcing.kt, hs.HeldSuarezForcing.equilibrium_temperature)
  K = 4
  sp = TermSpace()

  class Fake:
    pass
  f = Fake()
  f.sigma = TermArr.variables(sp, 'sigma', (K,)); f.sigma_b = TermArr.variables(sp, 'sigma_b', ()); f.kf = TermArr.variables(sp, 'kf', ())
  f.ka = TermArr.variables(sp, 'ka', ()); f.ks = TermArr.variables(sp, 'ks', ())
  f.lat = np.arcsin(np.array([[-0.9, -0.3, 0.0, 0.5, 1.0]]))
  kv = hs.HeldSuarezForcing.kv(f); kt = hs.HeldSuarezForcing.kt(f)
  sg = list(f.sigma.a); sb = f.sigma_b.a.reshape(-1)[0]; kf = f.kf.a.reshape(-1)[0]; ka = f.ka.a.reshape(-1)[0]; ks = f.ks.a.reshape(-1)[0]
  pre = [z3.And(s > 0, s < 1) for s in sg] + [sb > 0, sb < 1, kf >= 0, ka >= 0, ks >= ka]
  conf = dict(symbolic='sigma levels in (0,1), sigma_b in (0,1), kf >= 0, ks >= ka >= 0', K=K)
  kvv = [_r(x) for x in kv.a.reshape(-1)]
  decide(ctx, 'held_suarez.friction_rate_nonnegative', conf, pre, z3.Or(*[x < 0 for x in kvv]), 'QF_NRA')
  decide(ctx, 'held_suarez.friction_zero_above_boundary_layer', conf, pre, z3.Or(*[z3.And(sg[k] <= sb, kvv[k] != 0) for k in range(K)]), 'QF_NRA')
  decide(ctx, 'held_suarez.friction_is_kf_times_normalised_depth_below', conf, pre,
         z3.Or(*[z3.And(sg[k] > sb, kvv[k] * (1 - sb) != kf * (sg[k] - sb)) for k in range(K)]), 'QF_NRA')
  ktv = [_r(x) for x in kt.a.reshape(-1)]
  decide(ctx, 'held_suarez.relaxation_rate_nonnegative_and_between_ka_ks', conf, pre, z3.Or(*[z3.Or(x < ka, x > ks) for x in ktv]), 'QF_NRA')


def task_held_suarez_state(ctx, cfg, levels, lname):
  from dinosaur import held_suarez as hs, primitive_equations as pe, scales
  coords = models.make_coords(cfg, levels)
  grid = coords.horizontal
  K = coords.vertical.layers
  specs = models.unit_specs()
  u = scales.units
  tref = np.linspace(250.0, 290.0, K)
  forcing = hs.HeldSuarezForcing(coords, specs, tref, p0=1.0 * u.dimensionless, kf=0.7 * u.dimensionless, ka=0.02 * u.dimensionless,
                                 ks=0.3 * u.dimensionless, minT=200 * u.dimensionless, maxT=315 * u.dimensionless, dTy=60 * u.dimensionless,
                                 dThz=10 * u.dimensionless) if False else None
  # non-dimensional parameters are produced by physics_specs.nondimensionalize: use a specs object whose scale is the identity
  class IdSpecs:
    kappa = 2.0 / 7.0
    def nondimensionalize(self, q):
      return float(getattr(q, 'magnitude', q))
  forcing = hs.HeldSuarezForcing(coords, IdSpecs(), tref, p0=1.0, sigma_b=0.7, kf=0.7, ka=0.02, ks=0.3, minT=200.0, maxT=315.0, dTy=60.0, dThz=10.0)
  ctx.encoded(hs.HeldSuarezForcing.explicit_terms, hs.HeldSuarezForcing.equilibrium_temperature, hs.HeldSuarezForcing.kv, hs.HeldSuarezForcing.kt)
  base, zm = models.admissible_masks(grid)
  ms = coords.modal_shape; ss = coords.surface_modal_shape
  m, l = grid.modal_mesh
  L = grid.total_wavenumbers
  conf = dict(grid=grids.cfg_name(cfg), levels=lname)
  # drag: vorticity/divergence tendencies = -kv_k * (vorticity, divergence) below the top wavenumber; independent of T and ln ps
  sp = Space(bits=12)
  xs = models.pe_state_vars(sp, coords, box=1.0, lsp_box=0.05)
  kv = np.asarray(forcing.kv()).reshape(-1)
  sel = np.broadcast_to(base, ms)

  def drag(v, d, t, p):
    e = forcing.explicit_terms(pe.State(v, d, t, p))
    return (e.vorticity, e.divergence, e.log_surface_pressure), (-kv[:, None, None] * v, -kv[:, None, None] * d, jnp.zeros(ss))
  from dverif import jsym
  prove_close(ctx, 'held_suarez.linear_drag_and_no_surface_pressure_tendency', drag, xs, sp, select=[sel, sel, np.ones(ss, bool)], config=conf, scale_floor=1.0)
  # temperature relaxation: affine in T with slope -to_modal(kt * to_nodal(.)), independent of vorticity/divergence
  sp2 = Space(bits=12)
  a = models.pe_state_vars(sp2, coords, box=1.0, lsp_box=0.05)
  b = models.pe_state_vars(sp2, coords, box=1.0, prefix='b_')
  kt = np.asarray(forcing.kt())

  def relax(v, d, t, p, v2, d2, t2, p2):
    e1 = forcing.explicit_terms(pe.State(v, d, t, p)).temperature_variation
    e2 = forcing.explicit_terms(pe.State(v2, d2, t2, p)).temperature_variation       # same surface pressure
    return e1 - e2, -grid.to_modal(kt * grid.to_nodal(t - t2))
  prove_close(ctx, 'held_suarez.temperature_relaxation_affine_in_T_independent_of_wind', relax, a + b, sp2, config=conf, scale_floor=1.0)
  # equilibrium temperature bounded below by its floor: Teq - minT is a relu atom (>= 0 by construction of max)
  sp3 = Space(bits=12)
  lsp = PolyArr.variables(sp3, 'lsp', ss, -0.05, 0.05, free=np.broadcast_to(base, ss))
  outs, td, it = harness.interpret(lambda p: forcing.equilibrium_temperature(jnp.exp(grid.to_nodal(p))) - forcing.minT, [lsp], sp3)
  lo, hi = outs[0].bounds()
  okb = bool(lo.min() >= -1e-9)
  ctx.clause('held_suarez.equilibrium_temperature_at_least_floor', 'discharged' if okb else 'failed', config=conf, queries=0, min_lower_bound=float(lo.min()),
             note='max(minT, T) is interpreted as minT + relu(T - minT); interval bound of the normal form')
  if not okb:
    ctx.error('held_suarez.equilibrium_temperature_at_least_floor', f'lower bound {lo.min()}')


def make_tasks(tier, seed):
  LS = models.level_sets(seed)
  tasks = [dict(name='radiation', fn='task_radiation', kw={}),
           dict(name='orbital-time-default', fn='task_orbital_time', kw=dict(scale_name='default')),
           dict(name='orbital-time-si', fn='task_orbital_time', kw=dict(scale_name='si')),
           dict(name='held-suarez-rates', fn='task_held_suarez_rates', kw={}),
           dict(name='held-suarez-state', fn='task_held_suarez_state', kw=dict(cfg=dict(M=3, L=4, nlon=8, nlat=5), levels=LS['dy3'].tolist(), lname='dy3'))]
  if tier != 'quick':
    tasks.append(dict(name='held-suarez-state-fast', fn='task_held_suarez_state', kw=dict(cfg=dict(M=4, L=5, nlon=12, nlat=6, impl='fast'), levels=LS['un4'].tolist(), lname='un4')))
  return tasks


def main(tier='quick', seed=0, jobs=None, only=None, t0=None):
  t0 = t0 or time.time()
  tasks = make_tasks(tier, seed)
  if only:
    tasks = [t for t in tasks if only in t['name']]
  results = harness.run_tasks(MOD, tasks, PID, seed, tier, jobs)
  return harness.finalize(
      PID, tier, seed, results, t0,
      explanation='Radiation: the flux functions are interpreted with SYMBOLIC phases, position and solar constants (sin/cos uninterpreted with '
                  'instantiated Pythagoras / range / periodicity axioms); bounds decided through lemmas and cut points (QF_UFNRA / QF_NRA). Orbital time with '
                  'floor modelled by to_int (QF_NIRA). Held-Suarez: rates with fully symbolic sigma levels and parameters run through the real numpy code; '
                  'drag / relaxation laws as polynomial identities with atoms (exp/log/pow/max) cancelling.',
      bounds=dict(tasks=[t['name'] for t in tasks], time_range='+-100 years', held_suarez_state_box='[-1,1], ln ps perturbation 0.05'),
      assumptions=['trigonometric axioms instantiated on occurring arguments (mathematics)', 'real-arithmetic semantics'],
      trusted=['JAX tracing', 'dverif interpreter', 'z3'],
      outside=['global mean of the flux = S/4 up to quadrature error (no exact bound to assert: integrand contains max(0,.))',
               'datetime arithmetic in datetime_to_orbital_time (covered by C18)'])
