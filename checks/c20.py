"""C20 — physical forcings are bounded, periodic and dissipative."""
from __future__ import annotations

import itertools
import time
from fractions import Fraction
import numpy as np
import z3

import dverif  # noqa: F401
import jax
import jax.numpy as jnp

from dverif import grids, harness, models, smt
from dverif.harness import prove_close
from dverif.poly import Space, PolyArr
from dverif.term import TermArr, TermSpace, R, specialize
from dverif.jsym import Interp

PID = 'C20'
MOD = 'checks.c20'


def Q(v):
  return z3.RealVal(Fraction(float(v)))


def _r(t):
  t = R(t)
  return z3.ToReal(t) if z3.is_int(t) else t


def decide(ctx, name, config, pre, bad, logic='QF_UFNRA', timeout=60000, violation_msg=None):
  v, model = smt.check_z3(list(pre) + [bad], logic, timeout, want_model=True)
  if v == 'unsat':
    ctx.clause(name, 'discharged', config=config, queries=1)
    return True, None
  if v == 'sat':
    ctx.clause(name, 'failed', config=config, queries=1)
    return False, model
  ctx.clause(name, 'inconclusive', config=config, queries=1)
  ctx.error(name, f'solver verdict {v}')
  return False, None


def trig_axioms(sp):
  """sin^2+cos^2 = 1 on arguments where both occur; |sin|,|cos| <= 1 everywhere."""
  ax = []
  sins = sp.uf_apps.get('sin', []); coss = sp.uf_apps.get('cos', [])
  for a, r in sins + coss:
    ax += [r <= 1, r >= -1]
  for (a1, s), (a2, c) in itertools.product(sins, coss):
    if a1.eq(a2):
      ax.append(s * s + c * c == 1)
  return ax


def _radiation_replay(ctx, name, conf, model, syms):
  """A satisfiable radiation query is only reported after the REAL functions violate the clause at concrete inputs: the solver's values for
  the phases / position / constants (trig functions are uninterpreted in the query, so its model may be spurious) plus a deterministic sample."""
  from dinosaur import radiation as rad
  rng = np.random.default_rng(0)
  cands = []
  if model is not None:
    try:
      cands.append([_fval(model, _r(t.a.reshape(-1)[0])) for t in syms])
    except Exception:  # noqa: BLE001
      pass
  for _ in range(400):
    S = rng.uniform(0.5, 2000.0)
    cands.append([rng.uniform(-7, 7), rng.uniform(-7, 7), rng.uniform(-7, 7), rng.uniform(-np.pi / 2, np.pi / 2), S, rng.uniform(0, 0.99) * S])
  for phi, syn, lon, lat, S, dS in cands:
    if not (S > 0 and 0 <= dS < S):
      continue
    ot = rad.OrbitalTime(phi, syn)
    lo = jnp.asarray([lon]); la = jnp.asarray([lat])
    fl = float(rad.get_radiation_flux(ot, lo, la, S, dS)[0]); sa = float(rad.get_solar_sin_altitude(phi, syn, lo, la)[0])
    irr = float(rad.get_direct_solar_irradiance(phi, S, dS)); nf = float(rad.get_normalized_radiation_flux(ot, lo, la, S, dS)[0])
    tol = 1e-12 * (S + dS)
    bad = []
    if not (fl >= 0): bad.append('flux < 0')
    if not (fl <= S + dS + tol): bad.append('flux > S + dS')
    if sa <= 0 and fl != 0: bad.append('flux != 0 with the sun at or below the horizon')
    if sa > 1e-12 and not fl > 0: bad.append('flux = 0 with the sun above the horizon')
    if abs(sa) > 1 + 1e-12: bad.append('|sin altitude| > 1')
    if not (S - dS - tol <= irr <= S + dS + tol): bad.append('irradiance outside [S - dS, S + dS]')
    if not (-1e-12 <= nf <= 1 + 1e-12): bad.append('normalised flux outside [0, 1]')
    f2 = float(rad.get_radiation_flux(rad.OrbitalTime(phi + 2 * np.pi, syn), lo, la, S, dS)[0]); f3 = float(rad.get_radiation_flux(rad.OrbitalTime(phi, syn + 2 * np.pi), lo, la, S, dS)[0])
    if abs(f2 - fl) > 1e-9 * (S + dS) or abs(f3 - fl) > 1e-9 * (S + dS): bad.append('flux not 2 pi periodic in a phase')
    if bad:
      inp = dict(orbital_phase=phi, synodic_phase=syn, longitude=lon, latitude=lat, S=S, dS=dS)
      ctx.violation(name, dict(config=conf, kind='radiation', what=bad), dict(inputs=inp, flux=fl, sin_altitude=sa, irradiance=irr, normalized_flux=nf),
                    f'{name}: real functions at {inp}: {"; ".join(bad)} (flux={fl}, sin altitude={sa}, irradiance={irr})')
      return True
  ctx.error(name, 'query satisfiable but the real functions satisfy the clause at the solver model and on 400 sampled inputs (inconclusive)')
  return False


def task_radiation(ctx):
  from dinosaur import radiation as rad
  ctx.encoded(rad.get_radiation_flux, rad.get_solar_sin_altitude, rad.get_hour_angle, rad.equation_of_time, rad.get_declination,
              rad.get_direct_solar_irradiance, rad.get_normalized_radiation_flux)
  sp = TermSpace()
  phi = TermArr.variables(sp, 'phi', ()); syn = TermArr.variables(sp, 'syn', ()); lon = TermArr.variables(sp, 'lon', (1,)); lat = TermArr.variables(sp, 'lat', (1,))
  S0 = TermArr.variables(sp, 'S', ()); dS = TermArr.variables(sp, 'dS', ())

  def pieces(phi, syn, lon, lat, S, dS):
    ot = rad.OrbitalTime(phi, syn)
    sa = rad.get_solar_sin_altitude(phi, syn, lon, lat)
    irr = rad.get_direct_solar_irradiance(phi, S, dS)
    return rad.get_radiation_flux(ot, lon, lat, S, dS), sa, irr, rad.get_normalized_radiation_flux(ot, lon, lat, S, dS)
  cl = jax.make_jaxpr(pieces)(0.1, 0.2, jnp.zeros(1), jnp.zeros(1), 1361.0, 47.0)
  flux, sa, irr, nflux = Interp(sp).run(cl, phi, syn, lon, lat, S0, dS)
  fl = _r(flux.a.reshape(-1)[0]); sav = _r(sa.a.reshape(-1)[0]); irv = _r(irr.a.reshape(-1)[0]); nf = _r(nflux.a.reshape(-1)[0])
  S, d = S0.a.reshape(-1)[0], dS.a.reshape(-1)[0]
  pre = trig_axioms(sp) + [S > 0, d >= 0, d < S]
  conf = dict(symbolic='orbital phase, synodic phase, longitude, latitude, solar constant S, variation dS (0 <= dS < S)')
  syms = [phi, syn, lon, lat, S0, dS]

  def _dec(name, config, pre_, bad_, *a, **k):
    ok_, model_ = decide(ctx, name, config, pre_, bad_, *a, **k)
    if not ok_ and model_ is not None:
      _radiation_replay(ctx, name, config, model_, syms)
    return ok_, model_
  # lemma A: |sin(altitude)| <= 1  (from sin^2+cos^2 = 1 on latitude and declination, |cos(hour angle)| <= 1)
  _dec('radiation.sin_altitude_in_unit_interval', conf, pre, z3.Or(sav > 1, sav < -1))
  # lemma B: 0 < S - dS <= irradiance <= S + dS
  _dec('radiation.irradiance_between_aphelion_and_perihelion_values', conf, pre, z3.Or(irv < S - d, irv > S + d, irv <= 0))
  # flux through cut points sigma = sin(altitude) in [-1,1], iota = irradiance in [S-dS, S+dS]
  sg, io = z3.Real('sigma'), z3.Real('iota')
  fl_c = z3.substitute(fl, (sav, sg), (irv, io))
  left = [v for v in _vars(fl_c) if str(v) not in ('sigma', 'iota')]
  if left:
    ctx.error('radiation.cut', f'flux depends on {left} other than through sin(altitude) and irradiance')
  prec = [sg >= -1, sg <= 1, io >= S - d, io <= S + d, S > 0, d >= 0, d < S]
  _dec('radiation.flux_nonnegative', conf, prec, fl_c < 0, 'QF_NRA')
  _dec('radiation.flux_at_most_perihelion_solar_constant', conf, prec, fl_c > S + d, 'QF_NRA')
  _dec('radiation.flux_zero_iff_sun_at_or_below_horizon', conf, prec, z3.Or(z3.And(sg <= 0, fl_c != 0), z3.And(sg > 0, fl_c <= 0)), 'QF_NRA')
  # normalised flux <= 1
  sp.obligations.clear()
  nirr = None
  # normalised irradiance and flux: substitute the same cut point for sin(altitude)
  nf_c = z3.substitute(nf, (sav, sg))
  _dec('radiation.normalized_flux_in_unit_interval', conf, pre + [sg >= -1, sg <= 1], z3.Or(nf_c > 1, nf_c < 0))
  # periodicity in both phases: shifting a phase by 2 pi changes every trig argument by a multiple of 2 pi
  two_pi = Q(2 * np.pi)
  for which in ('orbital', 'synodic'):
    sp2 = TermSpace()
    p2 = TermArr.variables(sp2, 'phi', ()); s2 = TermArr.variables(sp2, 'syn', ()); lo2 = TermArr.variables(sp2, 'lon', (1,)); la2 = TermArr.variables(sp2, 'lat', (1,))
    S2 = TermArr.variables(sp2, 'S', ()); d2 = TermArr.variables(sp2, 'dS', ())
    f1 = _r(Interp(sp2).run(cl, p2, s2, lo2, la2, S2, d2)[0].a.reshape(-1)[0])
    n1 = {k: len(v) for k, v in sp2.uf_apps.items()}
    shift = lambda t: TermArr(np.array(t.a.reshape(-1)[0] + two_pi, dtype=object).reshape(()), sp2)
    f2 = _r(Interp(sp2).run(cl, shift(p2) if which == 'orbital' else p2, s2 if which == 'orbital' else shift(s2), lo2, la2, S2, d2)[0].a.reshape(-1)[0])
    # normalisation modulo 2 pi periodicity: every trig application of the shifted run whose argument differs from an
    # application of the base run by an exact multiple of 2 pi (decided by linear simplification, inner applications first)
    # is replaced by the base application
    subs = []
    for fn in ('sin', 'cos'):
      apps = sp2.uf_apps.get(fn, [])
      base_apps = apps[:n1.get(fn, 0)]; new_apps = apps[n1.get(fn, 0):]
      sp2.uf_apps[fn + '_base'] = base_apps; sp2.uf_apps[fn + '_new'] = new_apps
    changed = True
    rounds = 0
    mapped = {}
    while changed and rounds < 6:
      changed = False; rounds += 1
      for fn in ('sin', 'cos'):
        for (a2, r2) in sp2.uf_apps[fn + '_new']:
          if r2.get_id() in mapped:
            continue
          a2n = z3.simplify(z3.substitute(a2, *subs)) if subs else a2
          for (a1, r1) in sp2.uf_apps[fn + '_base']:
            dlt = z3.simplify(a2n - a1)
            if z3.is_rational_value(dlt):
              kk = float(dlt.as_fraction()) / (2 * np.pi)
              if abs(kk - round(kk)) < 1e-12:
                subs.append((r2, r1)); mapped[r2.get_id()] = True; changed = True
                break
    f2n = z3.simplify(z3.substitute(f2, *subs)) if subs else f2
    tol = Q(1e-6)
    unmapped = sum(len(sp2.uf_apps[fn + '_new']) for fn in ('sin', 'cos')) - len(mapped)
    decide(ctx, f'radiation.flux_periodic_in_{which}_phase', dict(conf, period='2 pi', trig_applications_normalised=len(mapped), not_normalised=unmapped),
           trig_axioms(sp2)[:0], z3.Or(f2n - f1 > tol, f1 - f2n > tol), timeout=60000)


def _vars(e):
  seen = set(); out = []
  def rec(x):
    if x.get_id() in seen:
      return
    seen.add(x.get_id())
    if z3.is_const(x) and x.decl().kind() == z3.Z3_OP_UNINTERPRETED:
      out.append(x)
    for c in x.children():
      rec(c)
  rec(e)
  return out


def task_orbital_time(ctx, scale_name):
  """time_to_orbital_time: phases in [0, 2 pi), equal to reference + rate*t modulo 2 pi, periodic."""
  import datetime
  from dinosaur import radiation as rad, primitive_equations as pe, scales
  ctx.encoded(rad.SolarRadiation.time_to_orbital_time, rad.SolarRadiation.__init__, rad.datetime_to_orbital_time)
  scale = {'default': scales.DEFAULT_SCALE, 'si': scales.Scale(1 * scales.units.m, 1 * scales.units.s, 1 * scales.units.kg, 1 * scales.units.degK)}[scale_name]
  specs = pe.PrimitiveEquationsSpecs.from_si(scale=scale)
  coords = models.make_coords(dict(M=2, L=3, nlon=4, nlat=3), [0, 1.0])
  sr = rad.SolarRadiation(coords, specs, datetime.datetime(1979, 3, 7, 13, 20))
  sp = TermSpace()
  t = TermArr.variables(sp, 't', ())
  cl = jax.make_jaxpr(lambda t: jax.tree_util.tree_leaves(sr.time_to_orbital_time(t)))(0.0)
  out = Interp(sp).run(cl, t)
  tv = t.a.reshape(-1)[0]
  two_pi = Q(2 * np.pi)
  rate = [float(sr.orbital_rate.orbital_phase), float(sr.orbital_rate.synodic_phase)]
  ref = [float(sr.reference_orbital_time.orbital_phase), float(sr.reference_orbital_time.synodic_phase)]
  year = float(specs.nondimensionalize(1 * scales.units.year)); day = float(specs.nondimensionalize(1 * scales.units.day))
  tmax = 100 * year
  conf = dict(scale=scale_name, t_range=[-tmax, tmax])
  for k, nm in enumerate(('orbital_phase', 'synodic_phase')):
    ph0 = _r(out[k].a.reshape(-1)[0])
    # cut point: the un-reduced phase  u = reference + rate * t  (the term the traced code builds first)
    lin_t = Interp(sp).run(jax.make_jaxpr(lambda t: jax.tree_util.tree_leaves(sr.reference_orbital_time + sr.orbital_rate * t))(0.0), t)[k]
    lin_term = _r(lin_t.a.reshape(-1)[0])
    u = z3.Real(f'u{k}')
    ph_u = z3.substitute(ph0, (lin_term, u))
    direct = any(str(v) == 't' for v in _vars(ph_u))
    if direct:
      # the traced program does not reduce the term  reference + rate * t  as a whole (no cut point): the same clauses are asked directly in t,
      # with u DEFINED as reference + rate * t (the specification side: phase elapsed since the reference datetime)
      ph_u = ph0
      u_def = [u == Q(ref[k]) + Q(rate[k]) * tv]
    else:
      u_def = []

    def settle(cname, c, ok_model, kind):
      ok, model = ok_model
      if ok or model is None:
        return
      # a satisfiable query is settled on the REAL method at the solver's time (and, as the query is in real arithmetic, at nearby times)
      uval = _fval(model, u)
      tval = _fval(model, tv) if direct else (uval - ref[k]) / rate[k]
      for tc in (tval, np.nextafter(tval, np.inf), np.nextafter(tval, -np.inf)):
        got = float(jax.tree_util.tree_leaves(sr.time_to_orbital_time(tc))[k])
        uu = ref[k] + rate[k] * tc
        want = uu - 2 * np.pi * np.floor(uu / (2 * np.pi))
        dist = abs(got - want)                  # the clause asks for the REDUCED phase (the query compares with u - 2 pi floor(u / 2 pi))
        bad = (not np.isfinite(got)) or got < 0 or got >= 2 * np.pi if kind == 'range' else (dist > 1e-9 * max(1.0, abs(uu)) and min(want, 2 * np.pi - want) > 1e-6)
        if bad:
          ctx.violation(cname, dict(config=c, kind='orbital-phase-' + kind), dict(inputs=dict(time=tc, reference_datetime='1979-03-07T13:20'), obtained=got, expected=want),
                        f'{cname}: time_to_orbital_time({tc!r}).{nm} = {got!r}, expected {want!r} in [0, 2 pi)')
          return
      ctx.error(cname, f'query satisfiable but the real method satisfies the clause at t = {tval!r}')
    # the reduction u -> u - floor(u / 2 pi) 2 pi is decided for |u| <= 2000 rad (z3's mixed integer reasoning does not
    # terminate in the budget for the 2.3e5 rad reached by the daily phase after 100 years): ~318 years of orbital phase, ~318 days of daily phase
    U = min(abs(ref[k]) + abs(rate[k]) * tmax, 2000.0)
    for side, pre in (('positive', [u >= Q(1e-9), u <= Q(U)]), ('negative', [u >= Q(-U), u <= Q(-1e-9)]), ('zero', [u == 0])):
      ph = specialize([ph_u], pre)[0] if not direct else ph_u
      pre = list(pre) + u_def
      c = dict(conf, side=side, cut_point=('u = reference + rate * t' if not direct else 'none (asked directly in t)'), u_range=[-U, U])
      settle(f'orbital_time.{nm}_in_[0,2pi)', c, decide(ctx, f'orbital_time.{nm}_in_[0,2pi)', c, pre, z3.Or(ph < 0, ph >= two_pi), 'QF_LIRA'), 'range')
      fl = z3.ToReal(z3.ToInt(u / two_pi))
      tol = Q(1e-9)
      settle(f'orbital_time.{nm}_congruent_to_elapsed_time_mod_2pi', c,
             decide(ctx, f'orbital_time.{nm}_congruent_to_elapsed_time_mod_2pi', c, pre, z3.Or(ph - (u - two_pi * fl) > tol, (u - two_pi * fl) - ph > tol), 'QF_LIRA'), 'congruence')
  # periods: rate * period = 2 pi (to rounding) -> phases repeat modulo 2 pi
  for k, (nm, period) in enumerate((('orbital_phase', year), ('synodic_phase', day))):
    err = abs(rate[k] * period - 2 * np.pi)
    okp = err <= 1e-12 * 2 * np.pi
    ctx.clause(f'orbital_time.{nm}_period_is_one_{"year" if k == 0 else "day"}', 'discharged' if okp else 'failed', config=dict(conf, rate_times_period_minus_2pi=err), queries=0)
    if not okp:
      ctx.violation(f'orbital_time.{nm}_period', dict(config=conf), dict(rate=rate[k], period=period), f'{nm}: rate*period - 2pi = {err}')


def task_held_suarez_rates(ctx):
  """kv, kt with FULLY SYMBOLIC sigma levels and parameters, run through the real numpy code of a REAL HeldSuarezForcing object whose level /
  parameter attributes are replaced by symbolic duck arrays (methods may call each other).  A satisfiable query is settled on the same object
  with the solver's values as concrete attributes (violation if the real rates break the clause or are not finite)."""
  import copy
  from dinosaur import held_suarez as hs, primitive_equations as pe, scales
  ctx.encoded(hs.HeldSuarezForcing.kv, hs.HeldSuarezForcing.kt, hs.HeldSuarezForcing.equilibrium_temperature)
  K = 4
  sp = TermSpace()
  coords = models.make_coords(dict(M=2, L=3, nlon=5, nlat=5), np.linspace(0, 1, K + 1))
  specs = pe.PrimitiveEquationsSpecs.from_si()
  real = hs.HeldSuarezForcing(coords, specs, np.full(K, float(specs.nondimensionalize(288 * scales.units.degK))))
  lat = np.arcsin(np.array([[-0.9, -0.3, 0.0, 0.5, 1.0]]))
  f = copy.copy(real)
  f.sigma = TermArr.variables(sp, 'sigma', (K,)); f.sigma_b = TermArr.variables(sp, 'sigma_b', ()); f.kf = TermArr.variables(sp, 'kf', ())
  f.ka = TermArr.variables(sp, 'ka', ()); f.ks = TermArr.variables(sp, 'ks', ())
  f.lat = lat
  kv = f.kv(); kt = f.kt()
  sg = list(f.sigma.a); sb = f.sigma_b.a.reshape(-1)[0]; kf = f.kf.a.reshape(-1)[0]; ka = f.ka.a.reshape(-1)[0]; ks = f.ks.a.reshape(-1)[0]
  pre = [z3.And(s > 0, s < 1) for s in sg] + [sb > 0, sb < 1, kf >= 0, ka >= 0, ks >= ka]
  conf = dict(symbolic='sigma levels in (0,1), sigma_b in (0,1), kf >= 0 (friction may be switched off), ks >= ka >= 0', K=K)

  def settle(name, ok_model):
    ok, model = ok_model
    if ok or model is None:
      return
    vals = dict(sigma=[_fval(model, s_) for s_ in sg], sigma_b=_fval(model, sb), kf=_fval(model, kf), ka=_fval(model, ka), ks=_fval(model, ks))
    g = copy.copy(real)
    g.sigma = np.asarray(vals['sigma']); g.sigma_b = vals['sigma_b']; g.kf = vals['kf']; g.ka = vals['ka']; g.ks = vals['ks']; g.lat = lat
    with np.errstate(all='ignore'):
      kvc = np.asarray(g.kv(), float).reshape(-1); ktc = np.asarray(g.kt(), float)
    bad = []
    if not np.all(np.isfinite(kvc)) or np.any(kvc < 0): bad.append(f'friction rate {kvc.tolist()}')
    if not np.all(np.isfinite(ktc)) or np.any(ktc < vals['ka'] - 1e-12) or np.any(ktc > vals['ks'] + 1e-12): bad.append(f'relaxation rate range [{np.nanmin(ktc) if np.isfinite(ktc).any() else float("nan")}, {np.nanmax(ktc) if np.isfinite(ktc).any() else float("nan")}] (non-finite entries: {int((~np.isfinite(ktc)).sum())})')
    for k in range(K):
      exp = vals['kf'] * max(0.0, (vals['sigma'][k] - vals['sigma_b']) / (1 - vals['sigma_b']))
      if np.isfinite(kvc[k]) and abs(kvc[k] - exp) > 1e-9 * max(1.0, abs(exp)): bad.append(f'kv[{k}] = {kvc[k]} but kf * depth = {exp}')
    if bad:
      ctx.violation(name, dict(config=conf, kind='held-suarez-rates'), dict(inputs=vals, problems=bad), f'{name}: with {vals}: ' + '; '.join(bad[:2]))
    else:
      ctx.error(name, f'query satisfiable but the real rates satisfy the clause at the solver values {vals}')
  kvv = [_r(x) for x in kv.a.reshape(-1)]
  settle('held_suarez.friction_rate_nonnegative', decide(ctx, 'held_suarez.friction_rate_nonnegative', conf, pre, z3.Or(*[x < 0 for x in kvv]), 'QF_NRA'))
  settle('held_suarez.friction_zero_above_boundary_layer', decide(ctx, 'held_suarez.friction_zero_above_boundary_layer', conf, pre, z3.Or(*[z3.And(sg[k] <= sb, kvv[k] != 0) for k in range(K)]), 'QF_NRA'))
  settle('held_suarez.friction_is_kf_times_normalised_depth_below', decide(ctx, 'held_suarez.friction_is_kf_times_normalised_depth_below', conf, pre,
         z3.Or(*[z3.And(sg[k] > sb, kvv[k] * (1 - sb) != kf * (sg[k] - sb)) for k in range(K)]), 'QF_NRA'))
  ktv = [_r(x) for x in kt.a.reshape(-1)]
  settle('held_suarez.relaxation_rate_nonnegative_and_between_ka_ks', decide(ctx, 'held_suarez.relaxation_rate_nonnegative_and_between_ka_ks', conf, pre, z3.Or(*[z3.Or(x < ka, x > ks) for x in ktv]), 'QF_NRA'))


def task_held_suarez_equilibrium(ctx):
  """The equilibrium temperature is the published Held-Suarez (1994) profile with ONLY a floor:
       T_eq = max( T_min, [ T_max - dT_y sin^2(lat) - dTheta_z log(p/p0) cos^2(lat) ] (p/p0)^kappa ),   p = sigma p_s,
  for every surface pressure (p_s / p0 in [0.4, 1.3]: p may exceed p0 in the lowest layers under a surface high), every level and all parameter
  values; log and pow are uninterpreted (the same applications occur on both sides).  A satisfiable query is settled on the real method at the
  solver's surface pressure and on a pressure sweep."""
  import copy
  from dinosaur import held_suarez as hs, primitive_equations as pe, scales
  ctx.encoded(hs.HeldSuarezForcing.equilibrium_temperature)
  K = 3
  coords = models.make_coords(dict(M=2, L=3, nlon=5, nlat=5), [0.0, 0.5, 0.9, 1.0])
  specs = pe.PrimitiveEquationsSpecs.from_si()
  real = hs.HeldSuarezForcing(coords, specs, np.full(K, float(specs.nondimensionalize(288 * scales.units.degK))))
  lat = np.arcsin(np.array([[-0.9, 0.0, 0.4]]))
  sig = np.array([0.25, 0.7, 0.95])
  kappa = float(specs.kappa)
  sp = TermSpace()
  ps = TermArr.variables(sp, 'ps', (1, 3))
  pm = {k: TermArr.variables(sp, k, ()) for k in ('minT', 'maxT', 'dTy', 'dThz')}

  def impl(ps, minT, maxT, dTy, dThz):
    g = copy.copy(real); g.sigma = sig; g.lat = lat; g.p0 = 1.0
    g.minT, g.maxT, g.dTy, g.dThz = minT, maxT, dTy, dThz
    return g.equilibrium_temperature(ps)

  def spec(ps, minT, maxT, dTy, dThz):
    pr = sig[:, None, None] * ps / 1.0
    return pr ** kappa * (maxT - dTy * np.sin(lat) ** 2 - dThz * jnp.log(pr) * np.cos(lat) ** 2)
  ex = (jnp.ones((1, 3)), 200.0, 315.0, 60.0, 10.0)
  got = Interp(sp).run(jax.make_jaxpr(impl)(*ex), ps, pm['minT'], pm['maxT'], pm['dTy'], pm['dThz'])[0]
  spec_inner = Interp(sp).run(jax.make_jaxpr(spec)(*ex), ps, pm['minT'], pm['maxT'], pm['dTy'], pm['dThz'])[0]
  minT = pm['minT'].a.reshape(-1)[0]; maxT = pm['maxT'].a.reshape(-1)[0]; dTy = pm['dTy'].a.reshape(-1)[0]; dThz = pm['dThz'].a.reshape(-1)[0]
  pre = [z3.And(p_ >= Q(0.4), p_ <= Q(1.3)) for p_ in ps.a.reshape(-1)] + [minT >= 100, minT <= 250, maxT >= 280, maxT <= 340, dTy >= 0, dTy <= 80, dThz >= 0, dThz <= 20]
  ga = np.asarray(got.a, dtype=object).reshape(-1); sa = np.asarray(spec_inner.a, dtype=object).reshape(-1)
  tolq = Q(1e-9)
  bad = z3.Or(*[z3.Or(_r(g_) - z3.If(_r(s_) >= minT, _r(s_), minT) > tolq, z3.If(_r(s_) >= minT, _r(s_), minT) - _r(g_) > tolq) for g_, s_ in zip(ga, sa)])
  conf = dict(symbolic='surface pressure / p0 in [0.4, 1.3] per column, minT, maxT, dTy, dThz', levels=sig.tolist())
  ok, model = decide(ctx, 'held_suarez.equilibrium_temperature_is_published_profile_with_floor_only', conf, pre, bad, 'QF_UFNRA')
  if not ok and model is not None:
    vals = dict(minT=_fval(model, minT), maxT=_fval(model, maxT), dTy=_fval(model, dTy), dThz=_fval(model, dThz))
    g = copy.copy(real); g.sigma = sig; g.lat = lat; g.p0 = 1.0
    for k_, v_ in vals.items():
      setattr(g, k_, v_)
    worst = (0.0, None)
    cand = [np.array([[_fval(model, p_) for p_ in ps.a.reshape(-1)]])] + [np.full((1, 3), v_) for v_ in np.linspace(0.4, 1.3, 19)]
    for pc in cand:
      with np.errstate(all='ignore'):
        t_real = np.asarray(g.equilibrium_temperature(jnp.asarray(pc)), float)
        prn = sig[:, None, None] * pc
        t_spec = np.maximum(vals['minT'], prn ** kappa * (vals['maxT'] - vals['dTy'] * np.sin(lat) ** 2 - vals['dThz'] * np.log(prn) * np.cos(lat) ** 2))
      d = float(np.nanmax(np.abs(t_real - t_spec)))
      if d > worst[0]:
        worst = (d, pc.tolist())
    if worst[0] > 1e-9:
      ctx.violation('held_suarez.equilibrium_temperature_is_published_profile_with_floor_only', dict(config=conf, kind='held-suarez-equilibrium'), dict(inputs=dict(vals, surface_pressure_over_p0=worst[1]), max_abs_difference=worst[0]),
                    f'equilibrium temperature differs from the Held-Suarez profile (floor only) by {worst[0]:.3f} K at p_s/p0 = {worst[1]} with {vals}')
    else:
      ctx.error('held_suarez.equilibrium', 'query satisfiable but the real method equals the published profile at the solver values and on the pressure sweep')


def task_held_suarez_state(ctx, cfg, levels, lname):
  from dinosaur import held_suarez as hs, primitive_equations as pe, scales
  coords = models.make_coords(cfg, levels)
  grid = coords.horizontal
  K = coords.vertical.layers
  specs = models.unit_specs()
  u = scales.units
  tref = np.linspace(250.0, 290.0, K)
  forcing = hs.HeldSuarezForcing(coords, specs, tref, p0=1.0 * u.dimensionless, kf=0.7 * u.dimensionless, ka=0.02 * u.dimensionless,
                                 ks=0.3 * u.dimensionless, minT=200 * u.dimensionless, maxT=315 * u.dimensionless, dTy=60 * u.dimensionless,
                                 dThz=10 * u.dimensionless) if False else None
  # non-dimensional parameters are produced by physics_specs.nondimensionalize: use a specs object whose scale is the identity
  class IdSpecs:
    kappa = 2.0 / 7.0
    def nondimensionalize(self, q):
      return float(getattr(q, 'magnitude', q))
  forcing = hs.HeldSuarezForcing(coords, IdSpecs(), tref, p0=1.0, sigma_b=0.7, kf=0.7, ka=0.02, ks=0.3, minT=200.0, maxT=315.0, dTy=60.0, dThz=10.0)
  ctx.encoded(hs.HeldSuarezForcing.explicit_terms, hs.HeldSuarezForcing.equilibrium_temperature, hs.HeldSuarezForcing.kv, hs.HeldSuarezForcing.kt)
  base, zm = models.admissible_masks(grid)
  ms = coords.modal_shape; ss = coords.surface_modal_shape
  m, l = grid.modal_mesh
  L = grid.total_wavenumbers
  conf = dict(grid=grids.cfg_name(cfg), levels=lname)
  # drag: vorticity/divergence tendencies = -kv_k * (vorticity, divergence) below the top wavenumber; independent of T and ln ps
  sp = Space(bits=12)
  xs = models.pe_state_vars(sp, coords, box=1.0, lsp_box=0.05)
  kv = np.asarray(forcing.kv()).reshape(-1)
  sel = np.broadcast_to(base, ms)

  def drag(v, d, t, p):
    e = forcing.explicit_terms(pe.State(v, d, t, p))
    return (e.vorticity, e.divergence, e.log_surface_pressure), (-kv[:, None, None] * v, -kv[:, None, None] * d, jnp.zeros(ss))
  from dverif import jsym
  prove_close(ctx, 'held_suarez.linear_drag_and_no_surface_pressure_tendency', drag, xs, sp, select=[sel, sel, np.ones(ss, bool)], config=conf, scale_floor=1.0)
  # temperature relaxation: affine in T with slope -to_modal(kt * to_nodal(.)), independent of vorticity/divergence
  sp2 = Space(bits=12)
  a = models.pe_state_vars(sp2, coords, box=1.0, lsp_box=0.05)
  b = models.pe_state_vars(sp2, coords, box=1.0, prefix='b_')
  kt = np.asarray(forcing.kt())

  def relax(v, d, t, p, v2, d2, t2, p2):
    e1 = forcing.explicit_terms(pe.State(v, d, t, p)).temperature_variation
    e2 = forcing.explicit_terms(pe.State(v2, d2, t2, p)).temperature_variation       # same surface pressure
    return e1 - e2, -grid.to_modal(kt * grid.to_nodal(t - t2))
  prove_close(ctx, 'held_suarez.temperature_relaxation_affine_in_T_independent_of_wind', relax, a + b, sp2, config=conf, scale_floor=1.0)
  # equilibrium temperature bounded below by its floor: Teq - minT is a relu atom (>= 0 by construction of max)
  sp3 = Space(bits=12)
  lsp = PolyArr.variables(sp3, 'lsp', ss, -0.05, 0.05, free=np.broadcast_to(base, ss))
  outs, td, it = harness.interpret(lambda p: forcing.equilibrium_temperature(jnp.exp(grid.to_nodal(p))) - forcing.minT, [lsp], sp3)
  lo, hi = outs[0].bounds()
  okb = bool(lo.min() >= -1e-9)
  ctx.clause('held_suarez.equilibrium_temperature_at_least_floor', 'discharged' if okb else 'failed', config=conf, queries=0, min_lower_bound=float(lo.min()),
             note='max(minT, T) is interpreted as minT + relu(T - minT); interval bound of the normal form')
  if not okb:
    ctx.error('held_suarez.equilibrium_temperature_at_least_floor', f'lower bound {lo.min()}')


def _fval(model, t):
  v = model.eval(t, model_completion=True)
  try:
    return float(v.as_fraction())
  except Exception:  # noqa: BLE001
    return float(v.approx(30).as_fraction())


def task_solar_radiation_class(ctx, cfg, scale_name, normalized):
  """SolarRadiation (the object users call) on a grid with its own longitude offset / spacing:
     (1) its node coordinates are the grid's documented ones: lon_i = 2 pi i / nlon + longitude_offset, lat_j = asin(latitude node),
         computed here from the specification (numpy Gauss-Legendre / equiangular formulas), not from the code;
     (2) for EVERY model time t, radiation_flux(t) at node (i, j) is get_radiation_flux(time_to_orbital_time(t), lon_i, lat_j, S, dS)
         with the solar constants of the specs (normalised variant: divided by S + dS) - decided with t symbolic;
     together with the unit-function clauses this gives the bounds / horizon / periodicity statements at the class level."""
  import datetime
  from dinosaur import radiation as rad, primitive_equations as pe, scales
  ctx.encoded(rad.SolarRadiation.__init__, rad.SolarRadiation.radiation_flux, rad.SolarRadiation.normalized, rad.SolarRadiation.solar_hour_angle,
              rad.SolarRadiation.time_to_orbital_time, rad.get_radiation_flux)
  scale = {'default': scales.DEFAULT_SCALE, 'si': scales.Scale(1 * scales.units.m, 1 * scales.units.s, 1 * scales.units.kg, 1 * scales.units.degK)}[scale_name]
  specs = pe.PrimitiveEquationsSpecs.from_si(scale=scale)
  coords = models.make_coords(cfg, [0, 0.4, 1.0])
  grid = coords.horizontal
  ctor = rad.SolarRadiation.normalized if normalized else rad.SolarRadiation
  sr = ctor(coords, specs, datetime.datetime(1983, 11, 2, 6, 40))
  conf = dict(grid=grids.cfg_name(cfg), scale=scale_name, normalized=normalized)
  nlon, nlat = cfg['nlon'], cfg['nlat']
  # (1) specification of the node coordinates
  lon_spec = 2 * np.pi * np.arange(nlon) / nlon + cfg.get('offset', 0.0)
  spacing = cfg.get('spacing', 'gauss')
  if spacing == 'gauss':
    mu = np.polynomial.legendre.leggauss(nlat)[0]
  elif spacing == 'equiangular':
    mu = np.sin(-np.pi / 2 + (np.arange(nlat) + 0.5) * np.pi / nlat)
  else:
    mu = np.sin(np.linspace(-np.pi / 2, np.pi / 2, nlat))
  lat_spec = np.arcsin(mu)
  LON, LAT = np.meshgrid(lon_spec, lat_spec, indexing='ij')
  ns = grid.nodal_shape
  lon_c = np.asarray(sr.lon)[:nlon, :nlat] if np.ndim(sr.lon) == 2 else None
  lat_c = np.asarray(sr.lat)[:nlon, :nlat] if np.ndim(sr.lat) == 2 else None
  ok1 = lon_c is not None and lat_c is not None and lon_c.shape == LON.shape and np.abs(lon_c - LON).max() <= 1e-12 and np.abs(lat_c - LAT).max() <= 1e-12
  ctx.clause('solar_radiation.node_coordinates_are_the_grids_own', 'discharged' if ok1 else 'failed', config=conf, queries=0, elements=int(LON.size))
  if not ok1:
    err = None if lon_c is None or lon_c.shape != LON.shape else float(max(np.abs(lon_c - LON).max(), np.abs(lat_c - LAT).max()))
    ctx.violation('solar_radiation.node_coordinates_are_the_grids_own', dict(config=conf, kind='coordinates'), dict(max_abs_error=err),
                  f'SolarRadiation uses node coordinates that differ from the grid specification (longitude_offset={cfg.get("offset", 0.0)}) by {err}')
    return
  # (2) flux(t) with t symbolic
  S = float(specs.nondimensionalize(rad.TOTAL_SOLAR_IRRADIANCE)); dS = float(specs.nondimensionalize(rad.SOLAR_IRRADIANCE_VARIATION))
  if normalized:
    S, dS = S / (S + dS), dS / (S + dS)
  sp = TermSpace()
  t = TermArr.variables(sp, 't', ())
  lonp = np.zeros(ns); latp = np.zeros(ns); lonp[:nlon, :nlat] = LON; latp[:nlon, :nlat] = LAT

  def impl(t):
    return sr.radiation_flux(t)

  def spec(t):
    return rad.get_radiation_flux(sr.time_to_orbital_time(t), lon_c if ns == LON.shape else lonp, lat_c if ns == LON.shape else latp, S, dS)
  a = Interp(sp).run(jax.make_jaxpr(impl)(0.0), t)[0]
  b = Interp(sp).run(jax.make_jaxpr(spec)(0.0), t)[0]
  aa = a.a.reshape(ns)[:nlon, :nlat].reshape(-1); bb = b.a.reshape(ns)[:nlon, :nlat].reshape(-1)
  tv = t.a.reshape(-1)[0]
  year = float(specs.nondimensionalize(1 * scales.units.year))
  tol = Q(1e-9 * (S + dS))
  ndiff = 0; nq = 0; bad_model = None
  for x, y in zip(aa, bb):
    x = _r(x); y = _r(y)
    if x.eq(y):
      continue
    ndiff += 1
    v, model = smt.check_z3([tv >= Q(-100 * year), tv <= Q(100 * year), z3.Or(x - y > tol, y - x > tol)], 'QF_UFNIRA', 20000, want_model=True)
    nq += 1
    if v != 'unsat':
      bad_model = (v, model)
      break
  name = 'solar_radiation.flux_is_unit_function_at_the_grid_nodes_for_every_time'
  if bad_model is None:
    ctx.clause(name, 'discharged', config=conf, queries=nq, elements=int(aa.size), syntactically_equal=int(aa.size) - ndiff)
    return
  v, model = bad_model
  tt = _fval(model, tv) if v == 'sat' else 0.37 * year
  # replay on the real class: a handful of times including the solver's
  worst = 0.0; wt = None
  for tc in (tt, 0.0, 0.123 * year, -3.7 * year):
    got = np.asarray(jax.jit(impl)(tc))[:nlon, :nlat]; want = np.asarray(jax.jit(spec)(tc))[:nlon, :nlat]
    e = float(np.abs(got - want).max())
    if e > worst:
      worst, wt = e, tc
  if worst > 1e-9 * (S + dS):
    ctx.clause(name, 'failed', config=conf, queries=nq)
    ctx.violation(name, dict(config=conf, kind='flux'), dict(time=wt, max_abs_error=worst, S=S, dS=dS),
                  f'SolarRadiation.radiation_flux(t={wt:.6g}) differs from S(phase) * max(0, sin altitude) at the grid nodes by {worst:.3e}')
  else:
    ctx.clause(name, 'inconclusive', config=conf, queries=nq)
    ctx.error(name, f'solver verdict {v} but the real functions agree on replay (trig abstraction too coarse)')


def make_tasks(tier, seed):
  LS = models.level_sets(seed)
  tasks = [dict(name='radiation', fn='task_radiation', kw={}),
           dict(name='orbital-time-default', fn='task_orbital_time', kw=dict(scale_name='default')),
           dict(name='orbital-time-si', fn='task_orbital_time', kw=dict(scale_name='si')),
           dict(name='solar-class-offset', fn='task_solar_radiation_class', kw=dict(cfg=dict(M=3, L=4, nlon=8, nlat=5, offset=0.37), scale_name='default', normalized=False)),
           dict(name='solar-class-neg-offset-fast-normalized', fn='task_solar_radiation_class', kw=dict(cfg=dict(M=3, L=4, nlon=8, nlat=5, offset=-3.141592653589793, impl='fast', base=4), scale_name='si', normalized=True)),
           dict(name='solar-class-equiangular', fn='task_solar_radiation_class', kw=dict(cfg=dict(M=2, L=3, nlon=6, nlat=6, spacing='equiangular', offset=0.5235987755982988), scale_name='default', normalized=False)),
           dict(name='held-suarez-rates', fn='task_held_suarez_rates', kw={}),
           dict(name='held-suarez-equilibrium', fn='task_held_suarez_equilibrium', kw={}),
           dict(name='held-suarez-state', fn='task_held_suarez_state', kw=dict(cfg=dict(M=3, L=4, nlon=8, nlat=5), levels=LS['dy3'].tolist(), lname='dy3')),
           # levels refined towards the surface: more layer centres below sigma_b than an equidistant set of the same size would have
           dict(name='held-suarez-state-surface-refined', fn='task_held_suarez_state', kw=dict(cfg=dict(M=2, L=3, nlon=6, nlat=4), levels=[0.0, 0.4, 0.72, 0.82, 0.9, 0.96, 1.0], lname='surface-refined-6'))]
  if tier != 'quick':
    tasks.append(dict(name='held-suarez-state-fast', fn='task_held_suarez_state', kw=dict(cfg=dict(M=4, L=5, nlon=12, nlat=6, impl='fast'), levels=LS['un4'].tolist(), lname='un4')))
  return tasks


def main(tier='quick', seed=0, jobs=None, only=None, t0=None):
  t0 = t0 or time.time()
  tasks = make_tasks(tier, seed)
  if only:
    tasks = [t for t in tasks if only in t['name']]
  results = harness.run_tasks(MOD, tasks, PID, seed, tier, jobs)
  return harness.finalize(
      PID, tier, seed, results, t0,
      explanation='Radiation: the flux functions are interpreted with SYMBOLIC phases, position and solar constants (sin/cos uninterpreted with '
                  'instantiated Pythagoras / range / periodicity axioms); bounds decided through lemmas and cut points (QF_UFNRA / QF_NRA). Orbital time with '
                  'floor modelled by to_int (QF_NIRA). Held-Suarez: rates with fully symbolic sigma levels and parameters run through the real numpy code; '
                  'drag / relaxation laws as polynomial identities with atoms (exp/log/pow/max) cancelling.',
      bounds=dict(tasks=[t['name'] for t in tasks], time_range='+-100 years', held_suarez_state_box='[-1,1], ln ps perturbation 0.05'),
      assumptions=['trigonometric axioms instantiated on occurring arguments (mathematics)', 'real-arithmetic semantics'],
      trusted=['JAX tracing', 'dverif interpreter', 'z3'],
      outside=['global mean of the flux = S/4 up to quadrature error (no exact bound to assert: integrand contains max(0,.))',
               'datetime arithmetic in datetime_to_orbital_time (covered by C18)'])
