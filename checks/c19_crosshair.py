"""CrossHair harnesses for C19 (dictionary utilities, dimension inference).

`flatten_dict` calls np.array / np.unique on lists of key strings; CrossHair cannot look into numpy, so inside
THIS process the module's `np` is replaced by a pure-Python stub of the documented contract (array = list,
unique(return_counts) = sorted distinct values with their counts).  Every counterexample is replayed by the
check on the unpatched module."""
import os
import sys
sys.path.insert(0, os.environ.get('DVERIF_REPO', '/repo'))
from dinosaur import pytree_utils as pu


class _Arr(list):
  def __gt__(self, n):
    return _Arr([x > n for x in self])

  def any(self):
    return any(self)

  def __getitem__(self, idx):
    if isinstance(idx, list):
      return _Arr([x for x, m in zip(self, idx) if m])
    return list.__getitem__(self, idx)


class _NP:
  @staticmethod
  def array(x):
    return _Arr(x)

  @staticmethod
  def unique(x, return_counts=False):
    vals = []
    for v in x:
      if v not in vals:
        vals.append(v)
    vals.sort()
    if return_counts:
      return _Arr(vals), _Arr([sum(1 for w in x if w == v) for v in vals])
    return _Arr(vals)

  def __getattr__(self, name):
    import numpy
    return getattr(numpy, name)


def _patch():
  pu.np = _NP()


def _roundtrip(d, sep):
  flat, empty = pu.flatten_dict(d, sep=sep)
  return pu.unflatten_dict(flat, empty, sep=sep) == d


SHAPES = {
    'nested_leaf': lambda a, b, c: {a: {b: 1}},
    'nested_leaf_and_empty': lambda a, b, c: {a: {b: 1, c: {}}},
    'leaf_and_nested': lambda a, b, c: {a: 1, b: {c: 2}},
    'double_nested': lambda a, b, c: {a: {b: {c: 3}}},
    'two_empty': lambda a, b, c: {a: {}, b: {}},
    'nested_empty': lambda a, b, c: {a: {b: {}}, c: 4},
}


def _valid(a, b, c, sep, shape, nonempty):
  if len(sep) != 1 or len(a) > 2 or len(b) > 2 or len(c) > 2:
    return False
  if sep in a or sep in b or sep in c:
    return False
  if nonempty and (a == '' or b == '' or c == ''):
    return False
  d = SHAPES[shape](a, b, c)
  # sibling keys must be distinct for the intended tree shape to exist
  return _count_nodes(d) == {'nested_leaf': 2, 'nested_leaf_and_empty': 3, 'leaf_and_nested': 3, 'double_nested': 3, 'two_empty': 2, 'nested_empty': 3}[shape]


def _count_nodes(d):
  return sum(1 + (_count_nodes(v) if isinstance(v, dict) else 0) for v in d.values())


def _make(shape, nonempty):
  def f(a: str, b: str, c: str, sep: str) -> bool:
    _patch()
    return _roundtrip(SHAPES[shape](a, b, c), sep)
  return f


def rt_nested_leaf(a: str, b: str, c: str, sep: str) -> bool:
  """
  pre: _valid(a, b, c, sep, 'nested_leaf', True)
  post: __return__
  """
  _patch()
  return _roundtrip(SHAPES['nested_leaf'](a, b, c), sep)


def rt_nested_leaf_and_empty(a: str, b: str, c: str, sep: str) -> bool:
  """
  pre: _valid(a, b, c, sep, 'nested_leaf_and_empty', True)
  post: __return__
  """
  _patch()
  return _roundtrip(SHAPES['nested_leaf_and_empty'](a, b, c), sep)


def rt_leaf_and_nested(a: str, b: str, c: str, sep: str) -> bool:
  """
  pre: _valid(a, b, c, sep, 'leaf_and_nested', True)
  post: __return__
  """
  _patch()
  return _roundtrip(SHAPES['leaf_and_nested'](a, b, c), sep)


def rt_double_nested(a: str, b: str, c: str, sep: str) -> bool:
  """
  pre: _valid(a, b, c, sep, 'double_nested', True)
  post: __return__
  """
  _patch()
  return _roundtrip(SHAPES['double_nested'](a, b, c), sep)


def rt_two_empty(a: str, b: str, c: str, sep: str) -> bool:
  """
  pre: _valid(a, b, c, sep, 'two_empty', True)
  post: __return__
  """
  _patch()
  return _roundtrip(SHAPES['two_empty'](a, b, c), sep)


def rt_nested_empty(a: str, b: str, c: str, sep: str) -> bool:
  """
  pre: _valid(a, b, c, sep, 'nested_empty', True)
  post: __return__
  """
  _patch()
  return _roundtrip(SHAPES['nested_empty'](a, b, c), sep)


def rt_with_empty_keys(a: str, b: str, c: str, sep: str) -> bool:
  """
  pre: _valid(a, b, c, sep, 'double_nested', False)
  post: __return__
  """
  _patch()
  return _roundtrip(SHAPES['double_nested'](a, b, c), sep)


HARNESSES = ['rt_nested_leaf', 'rt_nested_leaf_and_empty', 'rt_leaf_and_nested', 'rt_double_nested', 'rt_two_empty', 'rt_nested_empty',
             'rt_with_empty_keys']
SHAPE_OF = {'rt_nested_leaf': 'nested_leaf', 'rt_nested_leaf_and_empty': 'nested_leaf_and_empty', 'rt_leaf_and_nested': 'leaf_and_nested',
            'rt_double_nested': 'double_nested', 'rt_two_empty': 'two_empty', 'rt_nested_empty': 'nested_empty', 'rt_with_empty_keys': 'double_nested'}


def replay(name, a, b, c, sep):
  """Runs the round trip on the UNPATCHED module; returns (ok, detail)."""
  import importlib
  import dinosaur.pytree_utils as real
  importlib.reload(real)
  d = SHAPES[SHAPE_OF[name]](a, b, c)
  try:
    flat, empty = real.flatten_dict(d, sep=sep)
    back = real.unflatten_dict(flat, empty, sep=sep)
    return back == d, f'{d!r} -> {back!r}'
  except Exception as e:  # noqa: BLE001
    return False, f'{d!r} -> {type(e).__name__}: {e}'
