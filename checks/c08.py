"""C08 — forward- and reverse-mode derivatives are finite, mutually adjoint and correct.

The derivative programs themselves (jaxprs of jax.jvp / jax.vjp of the real functions) are interpreted symbolically."""
from __future__ import annotations

import os
import time
import numpy as np

import dverif  # noqa: F401
import jax
import jax.numpy as jnp
import jax.tree_util as jtu

from dverif import grids, harness, models
from dverif.harness import prove_close
from dverif.poly import Space, PolyArr, directional_derivative

PID = 'C08'
MOD = 'checks.c08'


def _hazard_witness(sp, hz, rng, timeout_ms=20000):
  """Solver query: is there a point of the admissible box at which the hazardous operand leaves its domain
  (denominator = 0, log/rsqrt/pow argument <= 0, sqrt argument < 0)?  Atom variables met in the operand are tied to
  their definitions (sqrt: a >= 0 and a^2 = arg; recip: a * arg = 1; abs / relu by cases).  Returns
  (verdict, x) with x a completed point of the space or None."""
  import z3
  from dverif import smt
  atom = hz.atom
  lo = np.asarray(sp.lo); hi = np.asarray(sp.hi)
  atom_by_var = {a['var']: a for a in sp.atoms}
  zv = {}
  cons = []
  pending = []

  def var(v):
    if v not in zv:
      zv[v] = z3.Real(f'x{v}')
      if v in atom_by_var:
        pending.append(atom_by_var[v])
      else:
        if np.isfinite(lo[v]): cons.append(zv[v] >= z3.RealVal(smt.Fraction(float(lo[v]))))
        if np.isfinite(hi[v]): cons.append(zv[v] <= z3.RealVal(smt.Fraction(float(hi[v]))))
    return zv[v]

  def poly(cols, vals):
    slots = sp.slots(sp.codes[cols])
    e = z3.RealVal(0)
    for k in range(len(cols)):
      t = z3.RealVal(smt.Fraction(float(vals[k])))
      for sv in slots[k]:
        if sv:
          t = t * var(int(sv) - 1)
      e = e + t
    return e
  target = poly(atom['cols'], atom['vals'])
  kind = hz.obligation['kind']
  goal = {'nonzero': target == 0, 'positive': target <= 0, 'nonneg': target <= 0}[kind]   # derivative programs: sqrt is not differentiable at 0 either
  done = set()
  while pending:
    a = pending.pop()
    if a['var'] in done:
      continue
    done.add(a['var'])
    arg = poly(a['cols'], a['vals'])
    av = zv[a['var']]
    if a['kind'] == 'sqrt':
      cons += [av >= 0, av * av == arg]
    elif a['kind'] == 'recip':
      cons += [av * arg == 1]
    elif a['kind'] == 'rsqrt':
      cons += [av > 0, av * av * arg == 1]
    elif a['kind'] == 'abs':
      cons += [z3.If(arg >= 0, av == arg, av == -arg)]
    elif a['kind'] == 'relu':
      cons += [z3.If(arg >= 0, av == arg, av == 0)]
    # other kinds (exp, log, sin, ...): left unconstrained - a witness then may fail to replay, which is reported as inconclusive
  verdict, model = smt.check_z3(cons + [goal], 'QF_NRA', timeout_ms, True, False)
  if verdict != 'sat':
    return verdict, None
  fin = np.isfinite(lo) & np.isfinite(hi)
  x = np.where(fin, (np.where(fin, lo, 0) + np.where(fin, hi, 0)) / 2, 0.0)
  for v, zvv in zv.items():
    if v in atom_by_var:
      continue
    val = model.eval(zvv, model_completion=True)
    try:
      x[v] = float(val.as_fraction())
    except Exception:  # noqa: BLE001  (algebraic number)
      x[v] = float(val.approx(30).as_fraction())
  with np.errstate(all='ignore'):
    x = sp.complete_point(x)
  return 'sat', x


def _replay_derivatives(ctx, f, xs, vs, pt):
  """Real jax.jvp / jax.vjp of f at the concrete point pt; returns which of primal/forward/reverse are non-finite."""
  with np.errstate(all='ignore'):
    x = [np.nan_to_num(np.asarray(a.evaluate(pt)), nan=0.0) for a in xs]
    v = [np.nan_to_num(np.asarray(a.evaluate(pt)), nan=0.0) for a in vs]
  if not any(np.any(t != 0) for t in v):
    v = [ctx.rng.uniform(-1, 1, t.shape) * (np.asarray(a.free_mask()) if hasattr(a, 'free_mask') else 1.0) for t, a in zip(v, vs)]
  prim, jv = jax.jvp(f, tuple(map(jnp.asarray, x)), tuple(map(jnp.asarray, v)))
  _, pull = jax.vjp(f, *map(jnp.asarray, x))
  w = jtu.tree_map(lambda o: jnp.ones_like(o), prim)
  jtw = pull(w)
  bad = {k: not all(bool(np.all(np.isfinite(np.asarray(l)))) for l in jtu.tree_leaves(t)) for k, t in (('primal', prim), ('forward', jv), ('reverse', jtw))}
  return x, v, [k for k, b in bad.items() if b]


def _check_derivatives(ctx, name, f, xs_builder, conf, bits=8, exact_derivative=True, scale_floor=1.0):
  """f: flat arrays -> tuple of arrays.  Builds x, v (tangent), w (cotangent) symbolic and decides
     (a) jvp(f)(x)[v] == d/d eps P_f(x + eps v)  (P_f = polynomial normal form of the primal),
     (b) <J v, w> == <v, J^T w>,
     (c) finiteness: no non-finite constant / undefined operation is reached in the derivative programs.  An operation whose
         operand range (interval arithmetic over the box) touches the edge of its domain raises a DefinednessHazard at once;
         the solver is asked for an admissible state on that edge, and the REAL jax.jvp / jax.vjp are replayed there."""
  from dverif.jsym import NonFiniteConstant
  from dverif.poly import DefinednessHazard
  cleared = set()
  fname = f'{name}.derivatives_finite_on_admissible_states'
  if ctx.replay is not None:
    rp = ctx.replay
    if rp.get('clause') == fname and 'tangent' in rp:
      x = [jnp.asarray(np.asarray(a, float)) for a in rp['inputs']]; v = [jnp.asarray(np.asarray(a, float)) for a in rp['tangent']]
      prim, jv = jax.jvp(f, tuple(x), tuple(v))
      _, pull = jax.vjp(f, *x)
      jtw = pull(jtu.tree_map(lambda o: jnp.ones_like(o), prim))
      which = [k for k, t in (('primal', prim), ('forward', jv), ('reverse', jtw)) if not all(bool(np.all(np.isfinite(np.asarray(l)))) for l in jtu.tree_leaves(t))]
      print(f'REPLAY {fname}: non-finite parts of the real jax.jvp / jax.vjp at the recorded state: {which or "none"}')
      if which:
        ctx.res['violations'].append(dict(clause=fname, signature=rp.get('signature'), replay=os.environ.get('DVERIF_REPLAY'), message='replayed'))
      return None
  for attempt in range(12):
    try:
      return _check_derivatives_inner(ctx, name, f, xs_builder, conf, bits, exact_derivative, scale_floor, cleared)
    except DefinednessHazard as hz:
      sp = hz.sp
      verdict, pt = _hazard_witness(sp, hz, ctx.rng)
      ob = {k: v for k, v in hz.obligation.items() if k != 'hkey'}
      if verdict == 'unsat':
        cleared.add(hz.obligation['hkey'])          # the operand never reaches the edge of the domain on the box: discharged by the solver
        ctx.clause(fname + '.hazard', 'discharged', config=dict(conf, hazard=ob, verdict='unsat: operand stays inside its domain'), queries=1)
        continue
      if verdict != 'sat':
        ctx.error(fname, f'definedness hazard {ob} undecided ({verdict})')
        ctx.clause(fname, 'inconclusive', config=dict(conf, hazard=ob), queries=1)
        return None
      x, v, which = _replay_derivatives(ctx, f, hz.xs, hz.vs, pt)
      if which:
        ctx.violation(fname, dict(config=conf, kind='nonfinite', which=which, hazard=ob['kind']),
                      dict(inputs=[a.tolist() for a in x], tangent=[a.tolist() for a in v], detail=str(hz)),
                      f'{name}: non-finite {"/".join(which)} derivative at a finite admissible state where {hz}')
        ctx.clause(fname, 'failed', config=dict(conf, hazard=ob), queries=1)
        return None
      cleared.add(hz.obligation['hkey'])            # the real derivatives are finite there (guarded): continue
      ctx.clause(fname + '.hazard', 'discharged', config=dict(conf, hazard=ob, verdict='sat witness replays finite (guarded operation)'), queries=1)
      continue
    except NonFiniteConstant as e_:
      e = e_
      break
  else:
    ctx.error(fname, 'more than 12 definedness hazards')
    return None
  # a non-finite constant reached arithmetic with symbolic data in the primal or a derivative program: replay all three on a random state
  sp = Space(bits=bits)
  xs = xs_builder(sp, ''); vs = xs_builder(sp, 'v_')
  pt = sp.random_point(ctx.rng)
  x, v, which = _replay_derivatives(ctx, f, xs, vs, pt)
  if which:
    ctx.violation(fname, dict(config=conf, kind='nonfinite', which=which),
                  dict(inputs=[a.tolist() for a in x], tangent=[a.tolist() for a in v], detail=str(e)),
                  f'{name}: non-finite {"/".join(which)} derivative for a finite admissible state ({e})')
    ctx.clause(fname, 'failed', config=conf, queries=0)
  else:
    ctx.error(name, f'non-finite constant in the IR but finite primal/forward/reverse results on replay: {e}')


def _check_derivatives_inner(ctx, name, f, xs_builder, conf, bits, exact_derivative, scale_floor, cleared=None):
  from dverif.poly import DefinednessHazard
  sp = Space(bits=bits)
  sp.eager_obligations = True
  sp.cleared_obligations = cleared if cleared is not None else set()
  xs = xs_builder(sp, '')
  vs = xs_builder(sp, 'v_')
  n = len(xs)
  try:
    return _check_derivatives_body(ctx, name, f, sp, xs, vs, conf, exact_derivative, scale_floor)
  except DefinednessHazard as hz:
    hz.sp, hz.xs, hz.vs = sp, xs, vs
    raise


def _check_derivatives_body(ctx, name, f, sp, xs, vs, conf, exact_derivative, scale_floor):
  n = len(xs)

  def jvp_fn(*a):
    x, v = a[:n], a[n:]
    return jax.jvp(f, tuple(x), tuple(v))[1]
  ok_a = True
  if exact_derivative:
    # primal normal form and its exact directional derivative
    outs_p, td, it = harness.interpret(f, xs, sp)
    if sp.atoms:
      ctx.clause(f'{name}.jvp_equals_exact_derivative_of_primal', 'inconclusive', config=dict(conf, reason='primal contains non-polynomial atoms'), queries=0)
      ctx.res['inconclusive'].append(dict(clause=name, verdict='atoms'))
    else:
      xcols = np.concatenate([np.asarray(x.M.tocsr().indices) for x in xs]) if False else None
      # columns of the variables: each free entry of x / v is a single-variable monomial
      def var_cols(arrs):
        cols = []
        for a in arrs:
          M = a.M.tocsr()
          for r in range(M.shape[0]):
            s_, e_ = M.indptr[r], M.indptr[r + 1]
            cols.extend(int(c) for c, val in zip(M.indices[s_:e_], M.data[s_:e_]) if c != 0 and val == 1.0)
        return np.asarray(cols, dtype=np.int64)
      xc, vc = var_cols(xs), var_cols(vs)
      assert len(xc) == len(vc)
      exact = [directional_derivative(o, xc, vc) if isinstance(o, PolyArr) else np.zeros(np.shape(o)) for o in outs_p]
      outs_j, tdj, itj = harness.interpret(jvp_fn, xs + vs, sp)
      harness.validate_translation(ctx, jvp_fn, xs + vs, outs_j, sp, name=name + '.jvp')
      pre = (list(outs_j) + exact, jtu.tree_structure((tuple(range(len(outs_j))), tuple(range(len(exact))))), itj)
      ok_a = prove_close(ctx, f'{name}.jvp_equals_exact_derivative_of_primal', jvp_fn, xs + vs, sp, config=conf, pre=pre, validate=False, scale_floor=scale_floor)
  # (b) adjoint identity with symbolic cotangents
  ex = [jnp.zeros(a.shape) for a in xs]
  out_shapes = [o.shape for o in jtu.tree_leaves(jax.eval_shape(f, *ex))]
  ws = [PolyArr.variables(sp, f'w{i}', shp) for i, shp in enumerate(out_shapes)]
  m = len(ws)

  def adjoint(*a):
    x, v, w = a[:n], a[n:2 * n], a[2 * n:]
    jv = jax.jvp(f, tuple(x), tuple(v))[1]
    _, pull = jax.vjp(f, *x)
    jtw = pull(tuple(w) if isinstance(jv, tuple) else w[0])
    lhs = sum(jnp.vdot(p, q) for p, q in zip(jtu.tree_leaves(jv), w))
    rhs = sum(jnp.vdot(p, q) for p, q in zip(v, jtu.tree_leaves(jtw)))
    return lhs, rhs
  prove_close(ctx, f'{name}.reverse_mode_is_adjoint_of_forward_mode', adjoint, xs + vs + ws, sp, config=conf, scale_floor=scale_floor)
  # (c) definedness obligations collected while interpreting the derivative programs
  bad = [o for o in sp.obligations if o.get('hkey') not in sp.cleared_obligations]
  ctx.clause(f'{name}.derivatives_finite_on_admissible_states', 'discharged' if not bad else 'failed', config=dict(conf, atoms=len(sp.atoms)), queries=0,
             note='no non-finite constant, no division by a denominator whose interval contains 0')
  if bad:
    ctx.error(f'{name}.finite', f'undischarged definedness obligations: {bad[:3]}')


def task_transforms(ctx, cfg):
  from dinosaur import filtering, spherical_harmonic as sh
  grid = grids.make_grid(cfg)
  ms = grid.modal_shape
  K = 2
  conf = dict(grid=grids.cfg_name(cfg))
  b = lambda sp, p: [PolyArr.variables(sp, p + 'x', (K,) + ms, free=np.broadcast_to(grid.mask, (K,) + ms))]
  _check_derivatives(ctx, 'transforms_and_operators',
                     lambda x: (grid.to_nodal(x), grid.to_modal(grid.to_nodal(x) ** 2), grid.laplacian(x), grid.inverse_laplacian(x),
                                filtering.exponential_filter(grid, 2.0, 2)(x), grid.cos_lat_grad(x)[1], sh.get_cos_lat_vector(x, x, grid)[0]),
                     b, conf, bits=9)


def task_pe(ctx, cfg, levels, lname, kind, what):
  from dinosaur import primitive_equations as pe, time_integration as ti, filtering
  coords = models.make_coords(cfg, levels)
  grid = coords.horizontal
  K = coords.vertical.layers
  specs = models.unit_specs()
  rng = np.random.default_rng(6)
  base, zm = models.admissible_masks(grid)
  oro = rng.uniform(-0.3, 0.3, grid.modal_shape) * base
  cls = pe.MoistPrimitiveEquations if kind == 'moist' else pe.PrimitiveEquations
  eq = cls(np.linspace(1.0, 1.4, K), oro, coords, specs)
  ctx.encoded(cls.explicit_terms, cls.implicit_terms, cls.implicit_inverse, ti.backward_forward_euler, ti.semi_implicit_leapfrog)
  tracers = ['specific_humidity'] if kind == 'moist' else []

  def mk(v, d, t, p, *q):
    trd = dict(zip(tracers, q))
    return pe.StateWithTime(v, d, t, p, 0.0, trd) if kind == 'moist' else pe.State(v, d, t, p, trd)

  def leaves(s):
    return (s.vorticity, s.divergence, s.temperature_variation, s.log_surface_pressure) + tuple(s.tracers[k] for k in tracers)
  builder = lambda sp, p: models.pe_state_vars(sp, coords, tracers=tracers, prefix=p, tracer_box={'specific_humidity': 0.01})
  conf = dict(grid=grids.cfg_name(cfg), levels=lname, kind=kind, entry=what)
  if what == 'explicit':
    f = lambda *a: leaves(eq.explicit_terms(mk(*a)))
  elif what == 'implicit':
    f = lambda *a: leaves(eq.implicit_terms(mk(*a))) + leaves(eq.implicit_inverse(mk(*a), 0.1))
  elif what == 'euler_step':
    flt = ti.exponential_step_filter(grid, 0.05, 0.1, 2)
    step = ti.step_with_filters(ti.backward_forward_euler(eq, 0.05), [flt])
    f = lambda *a: leaves(step(mk(*a)))
  else:
    raise KeyError(what)
  _check_derivatives(ctx, f'primitive_equations.{what}', f, builder, conf, bits=10, exact_derivative=(kind != 'moist'))


def task_sw(ctx, cfg, integrator):
  from dinosaur import shallow_water as sw, coordinate_systems as cs, layer_coordinates as lc, scales, time_integration as ti
  grid = grids.make_grid(cfg)
  nl = 1
  coords = cs.CoordinateSystem(grid, lc.LayerCoordinates(nl))
  specs = sw.ShallowWaterSpecs(densities=np.ones(nl), radius=float(grid.radius), angular_velocity=1.0, gravity_acceleration=1.0, scale=scales.DEFAULT_SCALE)
  eq = sw.ShallowWaterEquations(coords, specs, None, np.array([1.3]))
  ctx.encoded(sw.ShallowWaterEquations.explicit_terms, getattr(ti, integrator))
  base, zm = models.admissible_masks(grid)
  ms = (nl,) + grid.modal_shape
  b_ = np.broadcast_to

  def builder(sp, p):
    return [PolyArr.variables(sp, p + 'v', ms, free=b_(zm, ms)), PolyArr.variables(sp, p + 'd', ms, free=b_(zm, ms)), PolyArr.variables(sp, p + 'p', ms, free=b_(base, ms))]
  step = getattr(ti, integrator)(eq, 0.05)

  def f(v, d, p):
    o = step(sw.State(v, d, p))
    return (o.vorticity, o.divergence, o.potential)
  _check_derivatives(ctx, f'shallow_water.step.{integrator}', f, builder, dict(grid=grids.cfg_name(cfg), integrator=integrator), bits=9,
                     exact_derivative=(integrator in ('backward_forward_euler',)))


def make_tasks(tier, seed):
  LS = models.level_sets(seed)
  cfg = dict(M=3, L=4, nlon=8, nlat=5)
  cfgp = dict(M=3, L=4, nlon=8, nlat=5, impl='fast', base=4)          # padded modal layout (L 4 -> 4, rows 6 -> 8)
  cfgp2 = dict(M=2, L=3, nlon=6, nlat=4, impl='fast', base=4)          # padded along total wavenumber (3 -> 4)
  tasks = [dict(name='transforms-real', fn='task_transforms', kw=dict(cfg=cfg)),
           dict(name='transforms-fast-padded', fn='task_transforms', kw=dict(cfg=cfgp2)),
           dict(name='pe-dry-explicit', fn='task_pe', kw=dict(cfg=cfg, levels=LS['dy2'].tolist(), lname='dy2', kind='dry', what='explicit')),
           dict(name='pe-dry-implicit', fn='task_pe', kw=dict(cfg=cfg, levels=LS['dy3'].tolist(), lname='dy3', kind='dry', what='implicit')),
           dict(name='pe-dry-explicit-fast-padded', fn='task_pe', kw=dict(cfg=cfgp2, levels=LS['dy2'].tolist(), lname='dy2', kind='dry', what='explicit')),
           dict(name='pe-dry-euler-step', fn='task_pe', kw=dict(cfg=cfg, levels=LS['dy2'].tolist(), lname='dy2', kind='dry', what='euler_step')),
           dict(name='sw-euler', fn='task_sw', kw=dict(cfg=dict(M=2, L=3, nlon=6, nlat=4), integrator='backward_forward_euler')),
           dict(name='sw-euler-fast-padded', fn='task_sw', kw=dict(cfg=cfgp2, integrator='backward_forward_euler'))]
  if tier != 'quick':
    tasks += [dict(name='pe-moist-explicit-small', fn='task_pe', kw=dict(cfg=dict(M=2, L=3, nlon=6, nlat=4), levels=LS['dy2'].tolist(), lname='dy2', kind='moist', what='explicit')),
              dict(name='sw-cnrk2', fn='task_sw', kw=dict(cfg=dict(M=2, L=3, nlon=6, nlat=4), integrator='crank_nicolson_rk2')),
              dict(name='pe-dry-explicit-M4', fn='task_pe', kw=dict(cfg=dict(M=4, L=5, nlon=12, nlat=6), levels=LS['dy2'].tolist(), lname='dy2', kind='dry', what='explicit'))]
  return tasks


def main(tier='quick', seed=0, jobs=None, only=None, t0=None):
  t0 = t0 or time.time()
  tasks = make_tasks(tier, seed)
  if only:
    tasks = [t for t in tasks if only in t['name']]
  results = harness.run_tasks(MOD, tasks, PID, seed, tier, jobs)
  return harness.finalize(
      PID, tier, seed, results, t0,
      explanation='The jaxprs of jax.jvp and jax.vjp of the real functions are interpreted on symbolic states, tangents and cotangents: (a) the forward-mode '
                  'result equals the exact directional derivative of the primal polynomial normal form (this replaces the finite-difference clause by the limit '
                  'it approximates), (b) <Jv,w> = <v,J^T w> as a polynomial identity in (x,v,w), (c) no non-finite constant or undefined operation is '
                  'reachable in the derivative programs (a non-finite constant aborts the encoding and is replayed on the real derivative).',
      bounds=dict(tasks=[t['name'] for t in tasks], box='[-1,1] for state, tangent and cotangent coefficients', eps='1e-9 x coefficient mass'),
      assumptions=['real-arithmetic semantics; kinks (max / where on data) do not occur in the entry points covered here'],
      trusted=['JAX autodiff produces the IR that is checked', 'dverif interpreter', 'z3/cvc5'],
      outside=['Held-Suarez forcing and vertical interpolation derivatives (kinks: need one-sided derivative reasoning)', 'multi-stage integrators on the primitive equations (degree explosion); covered on shallow water / by C14 for scan nesting and checkpointing'])
