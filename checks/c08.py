"""C08 — forward- and reverse-mode derivatives are finite, mutually adjoint and correct.

The derivative programs themselves (jaxprs of jax.jvp / jax.vjp of the real functions) are interpreted symbolically."""
from __future__ import annotations

import os
import time
import numpy as np

import dverif  # noqa: F401
import jax
import jax.numpy as jnp
import jax.tree_util as jtu

from dverif import grids, harness, models
from dverif.harness import prove_close
from dverif.poly import Space, PolyArr, directional_derivative, directional_derivative_with_atoms

PID = 'C08'
MOD = 'checks.c08'


def _hazard_witness(sp, hz, rng, timeout_ms=20000, target_terms=None, goal_of=None):
  """Solver query: is there a point of the admissible box at which the hazardous operand leaves its domain
  (denominator = 0, log/rsqrt/pow argument <= 0, sqrt argument < 0)?  Atom variables met in the operand are tied to
  their definitions (sqrt: a >= 0 and a^2 = arg; recip: a * arg = 1; abs / relu by cases).  Returns
  (verdict, x) with x a completed point of the space or None."""
  import z3
  from dverif import smt
  atom = hz.atom if target_terms is None else dict(cols=target_terms[0], vals=target_terms[1])
  lo = np.asarray(sp.lo); hi = np.asarray(sp.hi)
  atom_by_var = {a['var']: a for a in sp.atoms}
  zv = {}
  cons = []
  pending = []

  def var(v):
    if v not in zv:
      zv[v] = z3.Real(f'x{v}')
      if v in atom_by_var:
        pending.append(atom_by_var[v])
      else:
        if np.isfinite(lo[v]): cons.append(zv[v] >= z3.RealVal(smt.Fraction(float(lo[v]))))
        if np.isfinite(hi[v]): cons.append(zv[v] <= z3.RealVal(smt.Fraction(float(hi[v]))))
    return zv[v]

  def poly(cols, vals):
    slots = sp.slots(sp.codes[cols])
    e = z3.RealVal(0)
    for k in range(len(cols)):
      t = z3.RealVal(smt.Fraction(float(vals[k])))
      for sv in slots[k]:
        if sv:
          t = t * var(int(sv) - 1)
      e = e + t
    return e
  target = poly(atom['cols'], atom['vals'])
  if goal_of is not None:
    goal = goal_of(target)
  else:
    kind = hz.obligation['kind']
    goal = {'nonzero': target == 0, 'positive': target <= 0, 'nonneg': target <= 0}[kind]   # derivative programs: sqrt is not differentiable at 0 either
  done = set()
  while pending:
    a = pending.pop()
    if a['var'] in done:
      continue
    done.add(a['var'])
    arg = poly(a['cols'], a['vals'])
    av = zv[a['var']]
    if a['kind'] == 'sqrt':
      cons += [av >= 0, av * av == arg]
    elif a['kind'] == 'recip':
      cons += [av * arg == 1]
    elif a['kind'] == 'rsqrt':
      cons += [av > 0, av * av * arg == 1]
    elif a['kind'] == 'abs':
      cons += [z3.If(arg >= 0, av == arg, av == -arg)]
    elif a['kind'] == 'relu':
      cons += [z3.If(arg >= 0, av == arg, av == 0)]
    # other kinds (exp, log, sin, ...): left unconstrained - a witness then may fail to replay, which is reported as inconclusive
  verdict, model = smt.check_z3(cons + [goal], 'QF_NRA', timeout_ms, True, False)
  if verdict != 'sat':
    return verdict, None
  fin = np.isfinite(lo) & np.isfinite(hi)
  x = np.where(fin, (np.where(fin, lo, 0) + np.where(fin, hi, 0)) / 2, 0.0)
  for v, zvv in zv.items():
    if v in atom_by_var:
      continue
    val = model.eval(zvv, model_completion=True)
    try:
      x[v] = float(val.as_fraction())
    except Exception:  # noqa: BLE001  (algebraic number)
      x[v] = float(val.approx(30).as_fraction())
  with np.errstate(all='ignore'):
    x = sp.complete_point(x)
  return 'sat', x


def _replay_derivatives(ctx, f, xs, vs, pt):
  """Real jax.jvp / jax.vjp of f at the concrete point pt; returns which of primal/forward/reverse are non-finite."""
  with np.errstate(all='ignore'):
    x = [np.nan_to_num(np.asarray(a.evaluate(pt)), nan=0.0) for a in xs]
    v = [np.nan_to_num(np.asarray(a.evaluate(pt)), nan=0.0) for a in vs]
  if not any(np.any(t != 0) for t in v):
    v = [ctx.rng.uniform(-1, 1, t.shape) * (np.asarray(a.free_mask()) if hasattr(a, 'free_mask') else 1.0) for t, a in zip(v, vs)]
  prim, jv = jax.jvp(f, tuple(map(jnp.asarray, x)), tuple(map(jnp.asarray, v)))
  _, pull = jax.vjp(f, *map(jnp.asarray, x))
  w = jtu.tree_map(lambda o: jnp.ones_like(o), prim)
  jtw = pull(w)
  bad = {k: not all(bool(np.all(np.isfinite(np.asarray(l)))) for l in jtu.tree_leaves(t)) for k, t in (('primal', prim), ('forward', jv), ('reverse', jtw))}
  return x, v, [k for k, b in bad.items() if b]


def _central_difference(f, x, v, h):
  xp = [jnp.asarray(a + h * t) for a, t in zip(x, v)]; xm = [jnp.asarray(a - h * t) for a, t in zip(x, v)]
  return [(np.asarray(p) - np.asarray(m)) / (2 * h) for p, m in zip(jtu.tree_leaves(f(*xp)), jtu.tree_leaves(f(*xm)))]


def _jvp_vs_central_difference(f, x, v):
  """Real jax.jvp against central differences of the real primal with two step sizes; returns (mismatch, detail).  A mismatch is
  only reported when both step sizes disagree with the jvp by more than 1e-3 of the derivative scale while agreeing with each other."""
  scale = max(1.0, max(float(np.max(np.abs(a))) if a.size else 0.0 for a in x))
  jv = [np.asarray(l) for l in jtu.tree_leaves(jax.jvp(f, tuple(map(jnp.asarray, x)), tuple(map(jnp.asarray, v)))[1])]
  fd1 = _central_difference(f, x, v, 1e-4 * scale); fd2 = _central_difference(f, x, v, 1e-6 * scale)
  mag = max(1e-6, max(float(np.max(np.abs(a))) if a.size else 0.0 for a in jv + fd1))
  worst = None
  for i, (j, a, b) in enumerate(zip(jv, fd1, fd2)):
    if not j.size:
      continue
    e1 = np.abs(j - a); e2 = np.abs(j - b); c = np.abs(a - b)
    bad = (e1 > 1e-3 * mag) & (e2 > 1e-3 * mag) & (c < 1e-4 * mag)
    if bad.any():
      k = int(np.argmax(np.where(bad, e1, 0)))
      if worst is None or e1.reshape(-1)[k] > worst[0]:
        worst = (float(e1.reshape(-1)[k]), i, k, float(j.reshape(-1)[k]), float(a.reshape(-1)[k]))
  if worst is None:
    return False, None
  return True, dict(output=worst[1], index=worst[2], jvp=worst[3], central_difference=worst[4], scale=mag)


def _switch_probe(ctx, name, f, uc, conf):
  """A comparison on data that interval arithmetic does not decide (a switch inside the admissible box) in a program whose derivative is being
  checked: the solver is asked for admissible states on each side of and on the switching surface (QF_NRA over the operand difference, atoms tied
  to their definitions); at each the REAL jax.jvp is compared with central differences of the REAL primal.  Returns True when a violation was
  recorded; otherwise the caller re-raises (inconclusive: this domain cannot follow the switch)."""
  sp = uc.sp
  cname = f'{name}.jvp_matches_central_difference_at_a_switch'
  tried = 0
  for k in [int(i) for i in uc.und[:3]]:
    cols, vals = uc.diff.row_terms(k)
    for side, goal in (('negative', lambda t: t < 0), ('zero', lambda t: t == 0), ('positive', lambda t: t > 0)):
      verdict, pt = _hazard_witness(sp, None, ctx.rng, target_terms=(cols, vals), goal_of=goal)
      tried += 1
      if verdict != 'sat':
        continue
      with np.errstate(all='ignore'):
        x = [np.nan_to_num(np.asarray(a.evaluate(pt)), nan=0.0) for a in uc.xs]
        v = [np.asarray(a.evaluate(sp.complete_point(sp.random_point(ctx.rng)))) for a in uc.vs]
      try:
        bad, det = _jvp_vs_central_difference(f, x, v)
      except Exception as e:  # noqa: BLE001
        ctx.error(cname, f'replay at a switch witness failed: {type(e).__name__}: {e}')
        continue
      if bad:
        ctx.violation(cname, dict(config=conf, kind='switch-derivative', side=side, comparison=uc.cmp_name),
                      dict(inputs=[a.tolist() for a in x], tangent=[a.tolist() for a in v], detail=det),
                      f'{name}: a {uc.cmp_name} comparison on data switches inside the admissible box; at a state where its operand difference is {side} '
                      f'the real jax.jvp gives {det["jvp"]:.6g} but central differences of the real primal give {det["central_difference"]:.6g} (output {det["output"]}, index {det["index"]})')
        ctx.clause(cname, 'failed', config=dict(conf, side=side), queries=tried)
        return True
  return False


def _check_derivatives(ctx, name, f, xs_builder, conf, bits=8, exact_derivative=True, scale_floor=1.0, adjoint_bits=None):
  """f: flat arrays -> tuple of arrays.  Builds x, v (tangent), w (cotangent) symbolic and decides
     (a) jvp(f)(x)[v] == d/d eps P_f(x + eps v)  (P_f = polynomial normal form of the primal),
     (b) <J v, w> == <v, J^T w>,
     (c) finiteness: no non-finite constant / undefined operation is reached in the derivative programs.  An operation whose
         operand range (interval arithmetic over the box) touches the edge of its domain raises a DefinednessHazard at once;
         the solver is asked for an admissible state on that edge, and the REAL jax.jvp / jax.vjp are replayed there."""
  from dverif.jsym import NonFiniteConstant, UndecidedComparison
  from dverif.poly import DefinednessHazard
  cleared = set()
  fname = f'{name}.derivatives_finite_on_admissible_states'
  if ctx.replay is not None and ctx.replay.get('clause') == f'{name}.jvp_matches_central_difference_at_a_switch':
    rp = ctx.replay
    x = [np.asarray(a, float) for a in rp['inputs']]; v = [np.asarray(a, float) for a in rp['tangent']]
    bad, det = _jvp_vs_central_difference(f, x, v)
    print(f'REPLAY {rp["clause"]}: real jax.jvp vs central differences of the real primal at the recorded state: {"MISMATCH " + str(det) if bad else "agree"}')
    if bad:
      ctx.res['violations'].append(dict(clause=rp['clause'], signature=rp.get('signature'), replay=os.environ.get('DVERIF_REPLAY'), message='replayed'))
    return None
  if ctx.replay is not None:
    rp = ctx.replay
    if rp.get('clause') == fname and 'tangent' in rp:
      x = [jnp.asarray(np.asarray(a, float)) for a in rp['inputs']]; v = [jnp.asarray(np.asarray(a, float)) for a in rp['tangent']]
      prim, jv = jax.jvp(f, tuple(x), tuple(v))
      _, pull = jax.vjp(f, *x)
      jtw = pull(jtu.tree_map(lambda o: jnp.ones_like(o), prim))
      which = [k for k, t in (('primal', prim), ('forward', jv), ('reverse', jtw)) if not all(bool(np.all(np.isfinite(np.asarray(l)))) for l in jtu.tree_leaves(t))]
      print(f'REPLAY {fname}: non-finite parts of the real jax.jvp / jax.vjp at the recorded state: {which or "none"}')
      if which:
        ctx.res['violations'].append(dict(clause=fname, signature=rp.get('signature'), replay=os.environ.get('DVERIF_REPLAY'), message='replayed'))
      return None
  for attempt in range(12):
    try:
      return _check_derivatives_inner(ctx, name, f, xs_builder, conf, bits, exact_derivative, scale_floor, cleared, adjoint_bits)
    except DefinednessHazard as hz:
      sp = hz.sp
      verdict, pt = _hazard_witness(sp, hz, ctx.rng)
      ob = {k: v for k, v in hz.obligation.items() if k != 'hkey'}
      if verdict == 'unsat':
        cleared.add(hz.obligation['hkey'])          # the operand never reaches the edge of the domain on the box: discharged by the solver
        ctx.clause(fname + '.hazard', 'discharged', config=dict(conf, hazard=ob, verdict='unsat: operand stays inside its domain'), queries=1)
        continue
      if verdict != 'sat':
        ctx.error(fname, f'definedness hazard {ob} undecided ({verdict})')
        ctx.clause(fname, 'inconclusive', config=dict(conf, hazard=ob), queries=1)
        return None
      x, v, which = _replay_derivatives(ctx, f, hz.xs, hz.vs, pt)
      if which:
        ctx.violation(fname, dict(config=conf, kind='nonfinite', which=which, hazard=ob['kind']),
                      dict(inputs=[a.tolist() for a in x], tangent=[a.tolist() for a in v], detail=str(hz)),
                      f'{name}: non-finite {"/".join(which)} derivative at a finite admissible state where {hz}')
        ctx.clause(fname, 'failed', config=dict(conf, hazard=ob), queries=1)
        return None
      cleared.add(hz.obligation['hkey'])            # the real derivatives are finite there (guarded): continue
      ctx.clause(fname + '.hazard', 'discharged', config=dict(conf, hazard=ob, verdict='sat witness replays finite (guarded operation)'), queries=1)
      continue
    except UndecidedComparison as uc:
      if getattr(uc, 'sp', None) is not None and _switch_probe(ctx, name, f, uc, conf):
        return None
      raise
    except NonFiniteConstant as e_:
      e = e_
      break
  else:
    ctx.error(fname, 'more than 12 definedness hazards')
    return None
  # a non-finite constant reached arithmetic with symbolic data in the primal or a derivative program: replay all three on a random state
  sp = Space(bits=bits)
  xs = xs_builder(sp, ''); vs = xs_builder(sp, 'v_')
  pt = sp.random_point(ctx.rng)
  x, v, which = _replay_derivatives(ctx, f, xs, vs, pt)
  if which:
    ctx.violation(fname, dict(config=conf, kind='nonfinite', which=which),
                  dict(inputs=[a.tolist() for a in x], tangent=[a.tolist() for a in v], detail=str(e)),
                  f'{name}: non-finite {"/".join(which)} derivative for a finite admissible state ({e})')
    ctx.clause(fname, 'failed', config=conf, queries=0)
  else:
    ctx.error(name, f'non-finite constant in the IR but finite primal/forward/reverse results on replay: {e}')


def _check_derivatives_inner(ctx, name, f, xs_builder, conf, bits, exact_derivative, scale_floor, cleared=None, adjoint_bits=None):
  from dverif.poly import DefinednessHazard
  from dverif.jsym import UndecidedComparison
  sp = Space(bits=bits)
  sp.eager_obligations = True
  sp.cleared_obligations = cleared if cleared is not None else set()
  xs = xs_builder(sp, '')
  vs = xs_builder(sp, 'v_')
  n = len(xs)
  try:
    if adjoint_bits is None:
      return _check_derivatives_body(ctx, name, f, sp, xs, vs, conf, exact_derivative, scale_floor)
    _check_derivatives_body(ctx, name, f, sp, xs, vs, conf, exact_derivative, scale_floor, parts='a')
  except (DefinednessHazard, UndecidedComparison) as hz:
    hz.sp, hz.xs, hz.vs = sp, xs, vs
    raise
  # adjoint clause in its own space (lower monomial degree: reciprocals of squared denominators stay separate atoms there)
  sp2 = Space(bits=adjoint_bits)
  sp2.eager_obligations = True
  sp2.cleared_obligations = sp.cleared_obligations
  sp2.normalise_recip_squares = False
  xs2 = xs_builder(sp2, ''); vs2 = xs_builder(sp2, 'v_')
  try:
    return _check_derivatives_body(ctx, name, f, sp2, xs2, vs2, conf, False, scale_floor, parts='bc')
  except (DefinednessHazard, UndecidedComparison) as hz:
    hz.sp, hz.xs, hz.vs = sp2, xs2, vs2
    raise


def _check_derivatives_body(ctx, name, f, sp, xs, vs, conf, exact_derivative, scale_floor, parts='abc'):
  n = len(xs)

  def jvp_fn(*a):
    x, v = a[:n], a[n:]
    return jax.jvp(f, tuple(x), tuple(v))[1]
  ok_a = True
  if exact_derivative:
    # primal normal form and its exact directional derivative
    outs_p, td, it = harness.interpret(f, xs, sp)
    if False:
      pass
    else:
      xcols = np.concatenate([np.asarray(x.M.tocsr().indices) for x in xs]) if False else None
      # columns of the variables: each free entry of x / v is a single-variable monomial
      def var_cols(arrs):
        cols = []
        for a in arrs:
          M = a.M.tocsr()
          for r in range(M.shape[0]):
            s_, e_ = M.indptr[r], M.indptr[r + 1]
            cols.extend(int(c) for c, val in zip(M.indices[s_:e_], M.data[s_:e_]) if c != 0 and val == 1.0)
        return np.asarray(cols, dtype=np.int64)
      xc, vc = var_cols(xs), var_cols(vs)
      assert len(xc) == len(vc)
      dd = directional_derivative_with_atoms if sp.atoms else directional_derivative     # chain rule through exp / log / pow / recip atoms
      exact = [dd(o, xc, vc) if isinstance(o, PolyArr) else np.zeros(np.shape(o)) for o in outs_p]
      outs_j, tdj, itj = harness.interpret(jvp_fn, xs + vs, sp)
      harness.validate_translation(ctx, jvp_fn, xs + vs, outs_j, sp, name=name + '.jvp')
      pre = (list(outs_j) + exact, jtu.tree_structure((tuple(range(len(outs_j))), tuple(range(len(exact))))), itj)
      ok_a = prove_close(ctx, f'{name}.jvp_equals_exact_derivative_of_primal', jvp_fn, xs + vs, sp, config=conf, pre=pre, validate=False, scale_floor=scale_floor,
                          reduce_atoms=any(a['kind'] == 'recip' for a in sp.atoms))
  if 'b' not in parts:
    return ok_a
  # (b) adjoint identity with symbolic cotangents
  ex = [jnp.zeros(a.shape) for a in xs]
  out_shapes = [o.shape for o in jtu.tree_leaves(jax.eval_shape(f, *ex))]
  ws = [PolyArr.variables(sp, f'w{i}', shp) for i, shp in enumerate(out_shapes)]
  m = len(ws)

  def adjoint(*a):
    x, v, w = a[:n], a[n:2 * n], a[2 * n:]
    jv = jax.jvp(f, tuple(x), tuple(v))[1]
    _, pull = jax.vjp(f, *x)
    jtw = pull(tuple(w) if isinstance(jv, tuple) else w[0])
    lhs = sum(jnp.vdot(p, q) for p, q in zip(jtu.tree_leaves(jv), w))
    rhs = sum(jnp.vdot(p, q) for p, q in zip(v, jtu.tree_leaves(jtw)))
    return lhs, rhs
  prove_close(ctx, f'{name}.reverse_mode_is_adjoint_of_forward_mode', adjoint, xs + vs + ws, sp, config=conf, scale_floor=scale_floor)
  # (c) definedness obligations collected while interpreting the derivative programs
  bad = [o for o in sp.obligations if o.get('hkey') not in sp.cleared_obligations]
  ctx.clause(f'{name}.derivatives_finite_on_admissible_states', 'discharged' if not bad else 'failed', config=dict(conf, atoms=len(sp.atoms)), queries=0,
             note='no non-finite constant, no division by a denominator whose interval contains 0')
  if bad:
    ctx.error(f'{name}.finite', f'undischarged definedness obligations: {bad[:3]}')


def task_transforms(ctx, cfg):
  from dinosaur import filtering, spherical_harmonic as sh
  grid = grids.make_grid(cfg)
  ms = grid.modal_shape
  K = 2
  conf = dict(grid=grids.cfg_name(cfg))
  b = lambda sp, p: [PolyArr.variables(sp, p + 'x', (K,) + ms, free=np.broadcast_to(grid.mask, (K,) + ms))]
  _check_derivatives(ctx, 'transforms_and_operators',
                     lambda x: (grid.to_nodal(x), grid.to_modal(grid.to_nodal(x) ** 2), grid.laplacian(x), grid.inverse_laplacian(x),
                                filtering.exponential_filter(grid, 2.0, 2)(x), grid.cos_lat_grad(x)[1], sh.get_cos_lat_vector(x, x, grid)[0]),
                     b, conf, bits=9)


def task_pe(ctx, cfg, levels, lname, kind, what, method=None):
  from dinosaur import primitive_equations as pe, time_integration as ti, filtering
  coords = models.make_coords(cfg, levels)
  grid = coords.horizontal
  K = coords.vertical.layers
  specs = models.unit_specs()
  rng = np.random.default_rng(6)
  base, zm = models.admissible_masks(grid)
  oro = rng.uniform(-0.3, 0.3, grid.modal_shape) * base
  cls = pe.MoistPrimitiveEquations if kind == 'moist' else pe.PrimitiveEquations
  eq = cls(np.linspace(1.0, 1.4, K), oro, coords, specs, **({'vertical_matmul_method': method} if method else {}))
  ctx.encoded(cls.explicit_terms, cls.implicit_terms, cls.implicit_inverse, ti.backward_forward_euler, ti.semi_implicit_leapfrog)
  tracers = ['specific_humidity'] if kind == 'moist' else []

  def mk(v, d, t, p, *q):
    trd = dict(zip(tracers, q))
    return pe.StateWithTime(v, d, t, p, 0.0, trd) if kind == 'moist' else pe.State(v, d, t, p, trd)

  def leaves(s):
    return (s.vorticity, s.divergence, s.temperature_variation, s.log_surface_pressure) + tuple(s.tracers[k] for k in tracers)
  builder = lambda sp, p: models.pe_state_vars(sp, coords, tracers=tracers, prefix=p, tracer_box={'specific_humidity': 0.01})
  conf = dict(grid=grids.cfg_name(cfg), levels=lname, kind=kind, entry=what, **({'vertical_matmul_method': method} if method else {}))
  if what == 'explicit':
    f = lambda *a: leaves(eq.explicit_terms(mk(*a)))
  elif what == 'implicit':
    f = lambda *a: leaves(eq.implicit_terms(mk(*a))) + leaves(eq.implicit_inverse(mk(*a), 0.1))
  elif what == 'implicit_stacked':
    f = lambda *a: leaves(eq.implicit_inverse(mk(*a), 0.1, method='stacked')) + leaves(eq.implicit_inverse(mk(*a), -0.07))
  elif what == 'implicit_blockwise':
    # the cumulative-sum ('sparse') vertical operators and the blockwise solve built on them
    f = lambda *a: leaves(eq.implicit_terms(mk(*a))) + leaves(eq.implicit_inverse(mk(*a), 0.1, method='blockwise'))
  elif what == 'vertical_velocity':
    # diagnostic vertical velocity (it also sets the departure points of the semi-Lagrangian vertical advection step) and the diagnostic state
    def f(*a):
      st = mk(*a)
      d = pe.compute_diagnostic_state(st, coords)
      return (pe.compute_vertical_velocity(st, coords), d.sigma_dot_full, d.sigma_dot_explicit, d.cos_lat_u[0], d.cos_lat_u[1])
  elif what == 'euler_step':
    flt = ti.exponential_step_filter(grid, 0.05, 0.1, 2)
    step = ti.step_with_filters(ti.backward_forward_euler(eq, 0.05), [flt])
    f = lambda *a: leaves(step(mk(*a)))
  else:
    raise KeyError(what)
  _check_derivatives(ctx, f'primitive_equations.{what}', f, builder, conf, bits=(9 if kind == 'moist' else 10), exact_derivative=True, adjoint_bits=(9 if kind == 'moist' else None))


def task_sw(ctx, cfg, integrator):
  from dinosaur import shallow_water as sw, coordinate_systems as cs, layer_coordinates as lc, scales, time_integration as ti
  grid = grids.make_grid(cfg)
  nl = 1
  coords = cs.CoordinateSystem(grid, lc.LayerCoordinates(nl))
  specs = sw.ShallowWaterSpecs(densities=np.ones(nl), radius=float(grid.radius), angular_velocity=1.0, gravity_acceleration=1.0, scale=scales.DEFAULT_SCALE)
  eq = sw.ShallowWaterEquations(coords, specs, None, np.array([1.3]))
  ctx.encoded(sw.ShallowWaterEquations.explicit_terms, getattr(ti, integrator))
  base, zm = models.admissible_masks(grid)
  ms = (nl,) + grid.modal_shape
  b_ = np.broadcast_to

  def builder(sp, p):
    return [PolyArr.variables(sp, p + 'v', ms, free=b_(zm, ms)), PolyArr.variables(sp, p + 'd', ms, free=b_(zm, ms)), PolyArr.variables(sp, p + 'p', ms, free=b_(base, ms))]
  step = getattr(ti, integrator)(eq, 0.05)

  def f(v, d, p):
    o = step(sw.State(v, d, p))
    return (o.vorticity, o.divergence, o.potential)
  _check_derivatives(ctx, f'shallow_water.step.{integrator}', f, builder, dict(grid=grids.cfg_name(cfg), integrator=integrator), bits=9,
                     exact_derivative=(integrator in ('backward_forward_euler',)))


def task_interp_derivatives(ctx, rname, sname, xp):
  """Vertical interpolation (kinks at the nodes and at the ends of the range): derivative programs interpreted in the TERM domain
  (comparisons, selects, clamped gathers as ite-terms) with the query point, the data, the tangent and the cotangent symbolic, nodes concrete.
   (a) strictly inside a cell / strictly outside the range the forward derivative is the derivative of the documented interpolant:
       slope_i * dx + (1-t) dfp_i + t dfp_{i+1}   (outside: constant extrapolation 0 * dx + dfp_end, or the end slope for the linear variant);
   (b) reverse mode is the adjoint of forward mode: gx * dx + <gfp, dfp> = w * jvp, everywhere (nodes included);
   (c) at the kinks the forward derivative is finite and lies between the two one-sided derivatives."""
  import z3
  from fractions import Fraction
  from dverif import smt
  from dverif.term import TermArr, TermSpace, R, specialize
  from dverif.jsym import Interp
  from dinosaur import vertical_interpolation as vi
  fn = {'jnp.interp': jnp.interp, '_dot_interp': vi._dot_interp, 'interp': vi.interp, 'linear_interp_with_linear_extrap': vi.linear_interp_with_linear_extrap}[rname]
  ctx.encoded(vi._dot_interp, vi.interp, vi.linear_interp_with_linear_extrap)
  xp = np.asarray(xp, float); n = len(xp)
  Q = lambda v: z3.RealVal(Fraction(float(v)))
  rr = lambda t: (z3.ToReal(R(t)) if z3.is_int(R(t)) else R(t))
  g = lambda x, fp: fn(x, jnp.asarray(xp), fp)
  sp = TermSpace()
  x = TermArr.variables(sp, 'x', ()); fp = TermArr.variables(sp, 'fp', (n,)); tx = TermArr.variables(sp, 'tx', ()); tfp = TermArr.variables(sp, 'tfp', (n,))
  w = TermArr.variables(sp, 'w', ())
  cj = jax.make_jaxpr(lambda x, fp, tx, tfp: jax.jvp(g, (x, fp), (tx, tfp))[1])(0.5, jnp.zeros(n), 0.0, jnp.zeros(n))
  cv = jax.make_jaxpr(lambda x, fp, w: jax.vjp(g, x, fp)[1](w))(0.5, jnp.zeros(n), 1.0)
  jv = rr(Interp(sp).run(cj, x, fp, tx, tfp)[0].a.reshape(-1)[0])
  gx_, gfp_ = Interp(sp).run(cv, x, fp, w)
  gx = rr(gx_.a.reshape(-1)[0]); gfp = [rr(t) for t in gfp_.a.reshape(-1)]
  xv = x.a.reshape(-1)[0]; f = list(fp.a); txv = tx.a.reshape(-1)[0]; tf = list(tfp.a); wv = w.a.reshape(-1)[0]
  box = [z3.And(v >= -1, v <= 1) for v in f + tf + [txv, wv]]
  span = float(xp[-1] - xp[0])
  conf = dict(routine=rname, nodes=sname, n=n)
  eps = Q(1e-9)
  far = lambda t: z3.Or(t > eps, t < -eps)
  jf = jax.jit(lambda x, fp, tx, tfp: jax.jvp(g, (x, fp), (tx, tfp))[1])
  vf = jax.jit(lambda x, fp, w: jax.vjp(g, x, fp)[1](w))

  def val(model, t):
    v = model.eval(t, model_completion=True)
    try:
      return float(v.as_fraction())
    except Exception:  # noqa: BLE001
      return float(v.approx(20).as_fraction())

  def decide(name, cfg, pre, bad, spec, expect):
    st = {}
    bad_s = specialize([bad], spec, stats=st)[0]
    v, model = smt.check_z3(list(pre) + list(spec) + [bad_s], 'QF_NRA', 60000, want_model=True)
    if v == 'unsat':
      ctx.clause(name, 'discharged', config=cfg, queries=1 + st.get('queries', 0))
      return
    if v != 'sat':
      ctx.clause(name, 'inconclusive', config=cfg, queries=1); ctx.error(name, f'solver verdict {v}')
      return
    xc = val(model, xv); fc = np.array([val(model, t) for t in f]); txc = val(model, txv); tfc = np.array([val(model, t) for t in tf]); wc = val(model, wv)
    got = float(jf(xc, jnp.asarray(fc), txc, jnp.asarray(tfc)))
    gxc, gfc = vf(xc, jnp.asarray(fc), wc)
    msg = expect(xc, fc, txc, tfc, wc, got, float(gxc), np.asarray(gfc))
    ctx.clause(name, 'failed', config=cfg, queries=1)
    if msg:
      ctx.violation(name, dict(config=cfg, kind='interp-derivative'), dict(inputs=dict(x=xc, fp=fc.tolist(), tx=txc, tfp=tfc.tolist(), w=wc), jvp=got, vjp=[float(gxc), np.asarray(gfc).tolist()]),
                    f'{name} ({rname}, nodes {sname}): {msg}')
    else:
      ctx.error(name, 'counterexample did not replay on the real derivative programs')

  def ref_derivative(i_lo, i_hi, slope_on):
    """derivative of  fp_lo + (x - xp_lo)/(xp_hi - xp_lo) (fp_hi - fp_lo)  in direction (tx, tfp); slope_on=False: constant extrapolation."""
    if not slope_on:
      return tf[i_lo]
    d = Q(xp[i_hi]) - Q(xp[i_lo]); t = (xv - Q(xp[i_lo])) / d
    return (f[i_hi] - f[i_lo]) / d * txv + (1 - t) * tf[i_lo] + t * tf[i_hi]

  def ref_num(i_lo, i_hi, slope_on, xc, fc, txc, tfc):
    if not slope_on:
      return tfc[i_lo]
    d = xp[i_hi] - xp[i_lo]; t = (xc - xp[i_lo]) / d
    return (fc[i_hi] - fc[i_lo]) / d * txc + (1 - t) * tfc[i_lo] + t * tfc[i_hi]
  linear_out = rname == 'linear_interp_with_linear_extrap'
  regions = [('below', [xv >= Q(xp[0] - 3 * span), xv < Q(xp[0])], (0, 1, linear_out))]
  regions += [(f'cell{i}', [xv > Q(xp[i]), xv < Q(xp[i + 1])], (i, i + 1, True)) for i in range(n - 1)]
  regions += [('above', [xv > Q(xp[-1]), xv <= Q(xp[-1] + 3 * span)], ((n - 2, n - 1, True) if linear_out else (n - 1, n - 1, False)))]
  for rn, spec, (ilo, ihi, son) in regions:
    cfg = dict(conf, region=rn)
    refd = ref_derivative(ilo, ihi, son)
    decide('interp.forward_derivative_is_derivative_of_documented_interpolant', cfg, box, far(jv - refd), spec,
           lambda xc, fc, txc, tfc, wc, got, gxc, gfc, a=(ilo, ihi, son): (None if abs(got - ref_num(*a, xc, fc, txc, tfc)) <= 1e-9 else
                                                                        f'jvp at x={xc} is {got}, derivative of the documented interpolant is {ref_num(*a, xc, fc, txc, tfc)}'))
  # vacuity twin: a slope perturbed by 1e-3 must be seen
  rn, spec, (ilo, ihi, son) = regions[1]
  tw = specialize([far(jv - (ref_derivative(ilo, ihi, son) + Q(1e-3) * txv))], spec)[0]
  v, _ = smt.check_z3(box + list(spec) + [tw], 'QF_NRA', 60000, want_model=False)
  if v != 'sat':
    ctx.error('interp.twin', f'vacuity twin not sat ({v})')
  else:
    ctx.res['twins']['sat'] += 1
  # adjoint identity everywhere (regions and nodes)
  adj = gx * txv + sum(a * b for a, b in zip(gfp, tf)) - wv * jv
  allregs = [(rn, spec) for rn, spec, _ in regions] + [(f'node{i}', [xv == Q(xp[i])]) for i in range(n)]
  for rn, spec in allregs:
    decide('interp.reverse_mode_is_adjoint_of_forward_mode', dict(conf, region=rn), box, far(adj), spec,
           lambda xc, fc, txc, tfc, wc, got, gxc, gfc: (None if abs(gxc * txc + float(np.dot(gfc, tfc)) - wc * got) <= 1e-9 else
                                                        f'<Jv,w> = {wc * got} but <v,J^T w> = {gxc * txc + float(np.dot(gfc, tfc))} at x={xc}'))
  # kinks: at a node the property's finite-difference clause demands the central-difference limit, i.e. the MEAN of the two one-sided
  # derivatives (what jnp.maximum / jnp.minimum deliver at ties).  Where the real program returns a one-sided derivative instead the
  # discrepancy is replayed (jvp vs central difference) and reported with the signature one_sided=True (known finding F12 for the interp family).
  for i in range(n):
    la = (i - 1, i, True) if i > 0 else ((0, 1, True) if linear_out else (0, 0, False))
    ra = (i, i + 1, True) if i < n - 1 else ((n - 2, n - 1, True) if linear_out else (n - 1, n - 1, False))
    left = ref_derivative(*la); right = ref_derivative(*ra)
    lo = z3.If(left <= right, left, right); hi = z3.If(left >= right, left, right)
    spec = [xv == Q(xp[i])]
    cfg = dict(conf, node=i)
    # finite and never outside the one-sided derivatives
    decide('interp.derivative_at_a_node_is_between_the_one_sided_derivatives', cfg, box, z3.Or(jv < lo - eps, jv > hi + eps), spec,
           lambda xc, fc, txc, tfc, wc, got, gxc, gfc: (f'jvp at the node x={xc} is {got}' if not np.isfinite(got) else
                                                        (f'jvp at the node x={xc} is {got}, outside the one-sided derivatives')))
    # central-difference limit
    name = 'interp.derivative_at_a_node_is_the_central_difference_limit'
    bad_s = specialize([far(jv - (left + right) / 2)], spec)[0]
    v, model = smt.check_z3(box + spec + [bad_s], 'QF_NRA', 60000, want_model=True)
    if v == 'unsat':
      ctx.clause(name, 'discharged', config=cfg, queries=1)
      continue
    if v != 'sat':
      ctx.clause(name, 'inconclusive', config=cfg, queries=1); ctx.error(name, f'solver verdict {v}')
      continue
    xc = val(model, xv); fc = np.array([val(model, t) for t in f]); txc = val(model, txv); tfc = np.array([val(model, t) for t in tf])
    got = float(jf(xc, jnp.asarray(fc), txc, jnp.asarray(tfc)))
    h = 1e-6 * max(1.0, span)
    fd = float((g(xc + h * txc, jnp.asarray(fc + h * tfc)) - g(xc - h * txc, jnp.asarray(fc - h * tfc))) / (2 * h))
    dl = ref_num(*la, xc, fc, txc, tfc); dr = ref_num(*ra, xc, fc, txc, tfc)
    one_sided = bool(min(abs(got - dl), abs(got - dr)) <= 1e-9)
    ctx.clause(name, 'failed', config=cfg, queries=1)
    if abs(got - fd) > 1e-5 * max(1.0, abs(fd)):
      ctx.violation(name, dict(config=cfg, kind='kink-derivative', routine=rname, one_sided=one_sided),
                    dict(inputs=dict(x=xc, fp=fc.tolist(), tx=txc, tfp=tfc.tolist()), jvp=got, central_difference=fd, left_derivative=dl, right_derivative=dr),
                    f'{rname}: jvp at the node x={xc} is {got} ({"a one-sided derivative" if one_sided else "neither one-sided derivative"}), central finite difference gives {fd}')
    else:
      ctx.error(name, 'counterexample did not replay on the real derivative program')


def task_upwind_derivative(ctx, lname, levels):
  """upwind_vertical_advection has a kink wherever a vertical velocity is exactly zero.  With velocities, data, tangents and cotangent symbolic
  (term domain, one column) the forward derivative equals, for every sign pattern of the velocities, the derivative of the documented one-sided
  formula, and AT a zero velocity the central-difference limit (the mean of the two one-sided derivatives, which is what the property's
  finite-difference clause demands); reverse mode is the adjoint of forward mode everywhere."""
  import itertools
  import z3
  from fractions import Fraction
  from dverif import smt
  from dverif.term import TermArr, TermSpace, R, specialize
  from dverif.jsym import Interp
  from dinosaur import sigma_coordinates as sc
  coords = sc.SigmaCoordinates(np.asarray(levels, float))
  K = coords.layers
  ctx.encoded(sc.upwind_vertical_advection, sc.centered_difference)
  Q = lambda v: z3.RealVal(Fraction(float(v)))
  rr = lambda t: (z3.ToReal(R(t)) if z3.is_int(R(t)) else R(t))
  g = lambda w, x: sc.upwind_vertical_advection(w, x, coords)
  sp = TermSpace()
  w = TermArr.variables(sp, 'w', (K - 1, 1, 1)); x = TermArr.variables(sp, 'x', (K, 1, 1))
  tw = TermArr.variables(sp, 'tw', (K - 1, 1, 1)); tx = TermArr.variables(sp, 'tx', (K, 1, 1)); ct = TermArr.variables(sp, 'ct', (K, 1, 1))
  ex = [jnp.zeros((K - 1, 1, 1)), jnp.zeros((K, 1, 1))]
  cj = jax.make_jaxpr(lambda w, x, tw, tx: jax.jvp(g, (w, x), (tw, tx))[1])(*ex, *ex)
  cv = jax.make_jaxpr(lambda w, x, c: jax.vjp(g, w, x)[1](c))(*ex, jnp.zeros((K, 1, 1)))
  jv = [rr(t) for t in Interp(sp).run(cj, w, x, tw, tx)[0].a.reshape(-1)]
  gw_, gx_ = Interp(sp).run(cv, w, x, ct)
  gw = [rr(t) for t in gw_.a.reshape(-1)]; gxx = [rr(t) for t in gx_.a.reshape(-1)]
  wv = list(w.a.reshape(-1)); xv = list(x.a.reshape(-1)); twv = list(tw.a.reshape(-1)); txv = list(tx.a.reshape(-1)); cv_ = list(ct.a.reshape(-1))
  cen = np.asarray(coords.centers, float)
  dsig = [Q(cen[k + 1]) - Q(cen[k]) for k in range(K - 1)]
  dx = [(xv[k + 1] - xv[k]) / dsig[k] for k in range(K - 1)]; tdx = [(txv[k + 1] - txv[k]) / dsig[k] for k in range(K - 1)]
  zero = z3.RealVal(0); half = Q(0.5)
  w_up = [zero] + wv; w_dn = wv + [zero]; tw_up = [zero] + twv; tw_dn = twv + [zero]
  dxu = [zero] + dx; dxd = dx + [zero]; tdxu = [zero] + tdx; tdxd = tdx + [zero]
  pos = lambda t: z3.If(t > 0, z3.RealVal(1), z3.If(t == 0, half, zero))
  neg = lambda t: z3.If(t < 0, z3.RealVal(1), z3.If(t == 0, half, zero))
  mx = lambda t: z3.If(t > 0, t, zero); mn = lambda t: z3.If(t < 0, t, zero)
  ref = []
  for k in range(K):
    a = (pos(w_up[k]) * tw_up[k] * dxu[k] + mx(w_up[k]) * tdxu[k]) if k > 0 else zero
    b = (neg(w_dn[k]) * tw_dn[k] * dxd[k] + mn(w_dn[k]) * tdxd[k]) if k < K - 1 else zero
    ref.append(-(a + b))
  allv = wv + xv + twv + txv + cv_
  box = [z3.And(v >= -1, v <= 1) for v in allv]
  eps = Q(1e-9)
  far = lambda t: z3.Or(t > eps, t < -eps)
  jf = jax.jit(lambda w, x, tw, tx: jax.jvp(g, (w, x), (tw, tx))[1]); vf = jax.jit(lambda w, x, c: jax.vjp(g, w, x)[1](c))

  def val(model, t):
    v = model.eval(t, model_completion=True)
    try:
      return float(v.as_fraction())
    except Exception:  # noqa: BLE001
      return float(v.approx(20).as_fraction())
  adj = sum(a * b for a, b in zip(gw, twv)) + sum(a * b for a, b in zip(gxx, txv)) - sum(a * b for a, b in zip(cv_, jv))
  for pattern in itertools.product(('neg', 'zero', 'pos'), repeat=K - 1):
    spec = [{'neg': wv[i] < 0, 'zero': wv[i] == 0, 'pos': wv[i] > 0}[p_] for i, p_ in enumerate(pattern)]
    cfg = dict(levels=lname, K=K, velocity_signs=list(pattern))
    for cname, bad in (('upwind.forward_derivative_is_central_difference_limit_of_documented_formula', z3.Or(*[far(a - b) for a, b in zip(jv, ref)])),
                       ('upwind.reverse_mode_is_adjoint_of_forward_mode', far(adj))):
      bad_s = specialize([bad], spec)[0]
      v, model = smt.check_z3(box + spec + [bad_s], 'QF_NRA', 60000, want_model=True)
      if v == 'unsat':
        ctx.clause(cname, 'discharged', config=cfg, queries=1)
        continue
      if v != 'sat':
        ctx.clause(cname, 'inconclusive', config=cfg, queries=1); ctx.error(cname, f'solver verdict {v}')
        continue
      wc = np.array([val(model, t) for t in wv]).reshape(K - 1, 1, 1); xc = np.array([val(model, t) for t in xv]).reshape(K, 1, 1)
      twc = np.array([val(model, t) for t in twv]).reshape(K - 1, 1, 1); txc = np.array([val(model, t) for t in txv]).reshape(K, 1, 1)
      cc = np.array([val(model, t) for t in cv_]).reshape(K, 1, 1)
      got = np.asarray(jf(wc, xc, twc, txc)).reshape(-1)
      h = 1e-6
      fd = (np.asarray(g(wc + h * twc, xc + h * txc)) - np.asarray(g(wc - h * twc, xc - h * txc))).reshape(-1) / (2 * h)
      gwc, gxc = vf(wc, xc, cc)
      lhs = float(np.sum(cc.reshape(-1) * got)); rhs = float(np.sum(np.asarray(gwc) * twc) + np.sum(np.asarray(gxc) * txc))
      ctx.clause(cname, 'failed', config=cfg, queries=1)
      if cname.startswith('upwind.forward') and np.abs(got - fd).max() > 1e-6:
        ctx.violation(cname, dict(config=cfg, kind='kink-derivative'), dict(inputs=dict(w=wc.tolist(), x=xc.tolist(), tw=twc.tolist(), tx=txc.tolist()), jvp=got.tolist(), central_difference=fd.tolist()),
                      f'upwind_vertical_advection: jvp {got.tolist()} differs from the central finite difference {fd.tolist()} at w={wc.reshape(-1).tolist()} (signs {pattern})')
      elif cname.startswith('upwind.reverse') and abs(lhs - rhs) > 1e-9:
        ctx.violation(cname, dict(config=cfg, kind='adjoint'), dict(inputs=dict(w=wc.tolist(), x=xc.tolist()), lhs=lhs, rhs=rhs), f'upwind_vertical_advection: <Jv,w> = {lhs} but <v,J^T w> = {rhs}')
      else:
        ctx.error(cname, 'counterexample did not replay on the real derivative programs')


def task_held_suarez(ctx, cfg, levels, lname):
  """Held-Suarez forcing (exp / log / pow atoms, maximum with the temperature floor): reverse mode is the adjoint of forward mode and no
  undefined operation is reachable, for all states in an atmospheric box.  The kink of max(minT, T_eq) is resolved by interval arithmetic
  over the box (the harness refuses - exit 2 - if a node's branch is not the same for every state of the box)."""
  from dinosaur import held_suarez as hs, primitive_equations as pe, scales
  coords = models.make_coords(cfg, levels)
  specs = pe.PrimitiveEquationsSpecs.from_si()
  K = coords.vertical.layers
  tref = float(specs.nondimensionalize(288 * scales.units.degK)) * np.ones(K)
  forcing = hs.HeldSuarezForcing(coords, specs, tref)
  ctx.encoded(hs.HeldSuarezForcing.explicit_terms, hs.HeldSuarezForcing.equilibrium_temperature, hs.HeldSuarezForcing.kt, hs.HeldSuarezForcing.kv)

  def leaves(s):
    return (s.vorticity, s.divergence, s.temperature_variation, s.log_surface_pressure)
  f = lambda v, d, t, p: leaves(forcing.explicit_terms(pe.State(v, d, t, p)))
  builder = lambda sp, p: models.pe_state_vars(sp, coords, prefix=p, box=0.01, lsp_box=0.05)
  _check_derivatives(ctx, 'held_suarez.explicit_terms', f, builder, dict(grid=grids.cfg_name(cfg), levels=lname, box='vorticity/divergence/T coefficients +-0.01, ln ps +-0.05 (non-dimensional, default scale)'),
                     bits=12, exact_derivative=True)


def task_checkpoint_gradients(ctx, length, lengths):
  """'Gradient checkpointing and scan nesting do not change gradients': reverse-mode gradients of nested_checkpoint_scan equal those of the flat
  scan (checks/c14.task_nested, uninterpreted scan body with uninterpreted partial derivatives), and gradients through trajectory_from_step /
  repeated equal the gradients of the plain sequential loop, for EVERY step function (QF_UFNRA)."""
  from checks import c14
  from dinosaur import time_integration as ti
  c14.task_nested(ctx, length, tuple(lengths), (2,), True)
  ctx.encoded(ti.trajectory_from_step, ti.repeated)
  step = c14.step
  for outer, inner, swi in ((2, 2, False), (3, 1, True), (2, 3, True)):
    wts = np.arange(1.0, outer + 1)

    def impl(a, b, outer=outer, inner=inner, swi=swi, wts=wts):
      final, traj = ti.trajectory_from_step(step, outer, inner, start_with_input=swi)((a, b))
      return final[0] + 2.0 * final[1] + jnp.sum(traj[0] * wts) - jnp.sum(traj[1] * wts[::-1])

    def spec(a, b, outer=outer, inner=inner, swi=swi, wts=wts):
      u = (a, b); fr = []
      for _ in range(outer):
        if swi:
          fr.append(u)
        for _ in range(inner):
          u = step(u)
        if not swi:
          fr.append(u)
      return u[0] + 2.0 * u[1] + sum(w_ * f_[0] for w_, f_ in zip(wts, fr)) - sum(w_ * f_[1] for w_, f_ in zip(wts[::-1], fr))
    c14.decide_equal(ctx, 'trajectory_from_step.gradients_equal_sequential_loop', dict(outer=outer, inner=inner, start_with_input=swi),
                     jax.grad(impl, argnums=(0, 1)), jax.grad(spec, argnums=(0, 1)), [(), ()], logic='QF_UFNRA')
  for n in (1, 3, 4):
    def impl_r(a, b, n=n):
      u = ti.repeated(step, n)((a, b))
      return u[0] - 3.0 * u[1]

    def spec_r(a, b, n=n):
      u = (a, b)
      for _ in range(n):
        u = step(u)
      return u[0] - 3.0 * u[1]
    c14.decide_equal(ctx, 'repeated.gradients_equal_sequential_loop', dict(steps=n), jax.grad(impl_r, argnums=(0, 1)), jax.grad(spec_r, argnums=(0, 1)), [(), ()], logic='QF_UFNRA')


def make_tasks(tier, seed):
  LS = models.level_sets(seed)
  cfg = dict(M=3, L=4, nlon=8, nlat=5)
  cfgp = dict(M=3, L=4, nlon=8, nlat=5, impl='fast', base=4)          # padded modal layout (L 4 -> 4, rows 6 -> 8)
  cfgp2 = dict(M=2, L=3, nlon=6, nlat=4, impl='fast', base=4)          # padded along total wavenumber (3 -> 4)
  tasks = [dict(name='transforms-real', fn='task_transforms', kw=dict(cfg=cfg)),
           dict(name='transforms-fast-padded', fn='task_transforms', kw=dict(cfg=cfgp2)),
           dict(name='pe-dry-explicit', fn='task_pe', kw=dict(cfg=cfg, levels=LS['dy2'].tolist(), lname='dy2', kind='dry', what='explicit')),
           dict(name='pe-dry-implicit', fn='task_pe', kw=dict(cfg=cfg, levels=LS['dy3'].tolist(), lname='dy3', kind='dry', what='implicit')),
           dict(name='pe-dry-explicit-fast-padded', fn='task_pe', kw=dict(cfg=cfgp2, levels=LS['dy2'].tolist(), lname='dy2', kind='dry', what='explicit')),
           dict(name='pe-dry-vertical-velocity', fn='task_pe', kw=dict(cfg=cfg, levels=LS['dy3'].tolist(), lname='dy3', kind='dry', what='vertical_velocity')),
           dict(name='pe-dry-euler-step', fn='task_pe', kw=dict(cfg=cfg, levels=LS['dy2'].tolist(), lname='dy2', kind='dry', what='euler_step')),
           dict(name='sw-euler', fn='task_sw', kw=dict(cfg=dict(M=2, L=3, nlon=6, nlat=4), integrator='backward_forward_euler')),
           dict(name='sw-euler-fast-padded', fn='task_sw', kw=dict(cfg=cfgp2, integrator='backward_forward_euler'))]
  tasks.append(dict(name='pe-dry-implicit-stacked', fn='task_pe', kw=dict(cfg=cfg, levels=LS['dy3'].tolist(), lname='dy3', kind='dry', what='implicit_stacked')))
  tasks.append(dict(name='pe-dry-implicit-sparse', fn='task_pe', kw=dict(cfg=cfgp2, levels=LS['dy3'].tolist(), lname='dy3', kind='dry', what='implicit_blockwise', method='sparse')))
  tasks.append(dict(name='pe-moist-explicit-small', fn='task_pe', kw=dict(cfg=dict(M=2, L=3, nlon=6, nlat=4), levels=LS['dy2'].tolist(), lname='dy2', kind='moist', what='explicit')))
  tasks.append(dict(name='held-suarez', fn='task_held_suarez', kw=dict(cfg=dict(M=2, L=3, nlon=6, nlat=4), levels=LS['dy2'].tolist(), lname='dy2')))
  if tier != 'quick':
    tasks.append(dict(name='pe-moist-explicit-small-sparse', fn='task_pe', kw=dict(cfg=dict(M=2, L=3, nlon=6, nlat=4), levels=LS['dy3'].tolist(), lname='dy3', kind='moist', what='explicit', method='sparse')))
    tasks.append(dict(name='held-suarez-M3-dy3', fn='task_held_suarez', kw=dict(cfg=cfg, levels=LS['dy3'].tolist(), lname='dy3')))
  tasks.append(dict(name='upwind-derivative-dy3', fn='task_upwind_derivative', kw=dict(lname='dy3', levels=LS['dy3'].tolist())))
  if tier != 'quick':
    tasks.append(dict(name='upwind-derivative-dy4', fn='task_upwind_derivative', kw=dict(lname='dy4', levels=LS['dy4'].tolist())))
  for n_, fa in (((6, (2, 3)), (8, (2, 2, 2))) if tier == 'quick' else ((6, (2, 3)), (8, (2, 2, 2)), (12, (3, 2, 2)), (9, (3, 3)), (5, (5, 1)))):
    tasks.append(dict(name=f"checkpoint-gradients-{n_}-{'x'.join(map(str, fa))}", fn='task_checkpoint_gradients', kw=dict(length=n_, lengths=list(fa))))
  nodes = {'n3': [0.1, 0.3, 1.0], 'n4': [-1.0, -0.25, 0.5, 0.75]}
  for rn in ('jnp.interp', '_dot_interp', 'interp', 'linear_interp_with_linear_extrap'):
    for sn in (('n4',) if tier == 'quick' else ('n3', 'n4')):
      tasks.append(dict(name=f'interp-derivatives-{rn}-{sn}', fn='task_interp_derivatives', kw=dict(rname=rn, sname=sn, xp=nodes[sn])))
  if tier != 'quick':
    tasks += [
              dict(name='sw-cnrk2', fn='task_sw', kw=dict(cfg=dict(M=2, L=3, nlon=6, nlat=4), integrator='crank_nicolson_rk2')),
              dict(name='pe-dry-explicit-M4', fn='task_pe', kw=dict(cfg=dict(M=4, L=5, nlon=12, nlat=6), levels=LS['dy2'].tolist(), lname='dy2', kind='dry', what='explicit'))]
  return tasks


def main(tier='quick', seed=0, jobs=None, only=None, t0=None):
  t0 = t0 or time.time()
  tasks = make_tasks(tier, seed)
  if only:
    tasks = [t for t in tasks if only in t['name']]
  results = harness.run_tasks(MOD, tasks, PID, seed, tier, jobs)
  return harness.finalize(
      PID, tier, seed, results, t0,
      explanation='The jaxprs of jax.jvp and jax.vjp of the real functions are interpreted on symbolic states, tangents and cotangents: (a) the forward-mode '
                  'result equals the exact directional derivative of the primal polynomial normal form (this replaces the finite-difference clause by the limit '
                  'it approximates), (b) <Jv,w> = <v,J^T w> as a polynomial identity in (x,v,w), (c) no non-finite constant or undefined operation is '
                  'reachable in the derivative programs (a non-finite constant aborts the encoding and is replayed on the real derivative).',
      bounds=dict(tasks=[t['name'] for t in tasks], box='[-1,1] for state, tangent and cotangent coefficients', eps='1e-9 x coefficient mass'),
      assumptions=['real-arithmetic semantics; kinks: interpolation and upwind advection are decided in the term domain (every branch), elsewhere a comparison on data must be decided by interval arithmetic over the box'],
      trusted=['JAX autodiff produces the IR that is checked', 'dverif interpreter', 'z3/cvc5'],
      outside=['Held-Suarez forcing: exact derivative (chain rule through exp/log/pow atoms), adjoint identity and definedness only on the stated atmospheric box, where the floor kink is decided by interval arithmetic','multi-stage integrators on the primitive equations (degree explosion); covered on shallow water / by C14 for scan nesting and checkpointing'])
