"""C05 — tendencies match the continuous equations; balanced states are exactly steady."""
from __future__ import annotations

import time
import numpy as np

import dverif  # noqa: F401
import jax
import jax.numpy as jnp

from dverif import grids, harness, models
from dverif.harness import prove_close
from dverif.poly import Space, PolyArr

PID = 'C05'
MOD = 'checks.c05'
SQRT4PI = float(np.sqrt(4 * np.pi))


def _eq(kind, tref, oro, coords, specs):
  from dinosaur import primitive_equations as pe
  cls = {'dry': pe.PrimitiveEquations, 'time': pe.PrimitiveEquationsWithTime, 'moist': pe.MoistPrimitiveEquations}[kind]
  return cls(np.asarray(tref, float), oro, coords, specs), cls


def _total(eq, kind, v, d, t, p, tracers=None):
  from dinosaur import primitive_equations as pe
  tracers = tracers or {}
  s = pe.State(v, d, t, p, tracers) if kind == 'dry' else pe.StateWithTime(v, d, t, p, 0.0, tracers)
  e = eq.explicit_terms(s) + eq.implicit_terms(s)
  return (e.vorticity, e.divergence, e.temperature_variation, e.log_surface_pressure) + tuple(e.tracers[k] for k in tracers)


def task_rest(ctx, cfg, levels, lname, kind, T0, tname, tref, symbolic_T0=False):
  """(i) resting isothermal atmosphere in hydrostatic balance over ARBITRARY orography."""
  from dinosaur import primitive_equations as pe
  coords = models.make_coords(cfg, levels)
  grid = coords.horizontal
  K = coords.vertical.layers
  specs = models.unit_specs(g=1.7, R=0.9)
  tref = np.asarray(tref, float)
  base, zm = models.admissible_masks(grid)       # l <= L-2: everything the state may carry
  sp = Space(bits=10)
  h = PolyArr.variables(sp, 'h', grid.modal_shape, free=base)           # modal orography (every retained coefficient)
  c0 = PolyArr.variables(sp, 'lnps0', ())
  ms = coords.modal_shape
  args = [h, c0]
  if symbolic_T0:
    tau = PolyArr.variables(sp, 'T0', (), lo=0.6, hi=1.8)
    args.append(tau)
  ctx.encoded(pe.PrimitiveEquations.explicit_terms, pe.PrimitiveEquations.implicit_terms, pe.PrimitiveEquations.orography_tendency,
              pe.PrimitiveEquations.curl_and_div_tendencies, pe.compute_diagnostic_state)
  q0 = 0.01
  eps_q = (specs.R_vapor / specs.R - 1) * q0 if kind == 'moist' else 0.0

  def f(h, c0, *rest):
    T0v = rest[0] if symbolic_T0 else T0
    eq, cls = _eq(kind, tref, h, coords, specs)          # the symbolic orography goes through the real orography_tendency
    # hydrostatic balance over orography (virtual temperature for the moist class): ln ps = -g h / (R T0 (1+eps q0)) + c
    lsp = (-(specs.g / specs.R) * h / (T0v * (1 + eps_q))).at[0, 0].add(c0 * SQRT4PI)[None]
    tprime = jnp.zeros(ms).at[:, 0, 0].set((T0v - tref) * SQRT4PI)
    z = jnp.zeros(ms)
    tr = {'specific_humidity': jnp.zeros(ms).at[:, 0, 0].set(q0 * SQRT4PI)} if kind == 'moist' else {}
    out = _total(eq, kind, z, z, tprime, lsp, tr)
    return out, tuple(jnp.zeros(x.shape) for x in out)
  conf = dict(grid=grids.cfg_name(cfg), levels=lname, kind=kind, T0='symbolic' if symbolic_T0 else T0, tref=tname)
  prove_close(ctx, 'i.isothermal_rest_over_orography_is_steady', f, args, sp, config=conf, scale_floor=1.0, twin=False,
              reduce_atoms=symbolic_T0)


def task_rotation(ctx, cfg, levels, lname, kind, tname, tref):
  """(ii) solid-body rotation u = U cos(lat) in gradient-wind balance with orography
  g h = -(Omega U a + U^2/2) sin^2(lat); symbolic U, per-level temperatures, humidity, ln ps."""
  from dinosaur import primitive_equations as pe
  coords = models.make_coords(cfg, levels)
  grid = coords.horizontal
  K = coords.vertical.layers
  a = float(grid.radius)
  specs = models.unit_specs(g=1.7, R=0.9, omega=0.8, radius=a)
  tref = np.asarray(tref, float)
  ms = coords.modal_shape
  sp = Space(bits=10)
  U = PolyArr.variables(sp, 'U', ())
  Tk = PolyArr.variables(sp, 'Tk', (K,), lo=0.5, hi=1.5)
  c0 = PolyArr.variables(sp, 'lnps0', ())
  args = [U, Tk, c0]
  if kind == 'moist':
    q0 = PolyArr.variables(sp, 'q0', (), lo=0.0, hi=0.03)
    args.append(q0)
  # modal coefficients of sin(lat) and sin^2(lat) (unit-norm basis; m = 0 row is row 0 in both layouts)
  mu_10 = float(np.sqrt(4 * np.pi / 3))                       # sin(lat)   = mu_10 * Y_1^0
  s2_00 = SQRT4PI / 3; s2_20 = (2.0 / 3.0) * float(np.sqrt(4 * np.pi / 5))   # sin^2 = s2_00 Y00 + s2_20 Y20
  Om = specs.angular_velocity
  zero_oro = np.zeros(grid.modal_shape)

  def f(U, Tk, c0, *rest):
    gh = -(Om * U * a + U * U / 2)
    h_modal = jnp.zeros(grid.modal_shape).at[0, 0].set(gh * s2_00).at[0, 2].set(gh * s2_20) / specs.g
    eq, cls = _eq(kind, tref, h_modal, coords, specs)
    vor = jnp.zeros(ms).at[:, 0, 1].set(2 * U / a * mu_10)
    z = jnp.zeros(ms)
    tprime = jnp.zeros(ms).at[:, 0, 0].set((Tk - tref) * SQRT4PI)
    lsp = jnp.zeros(coords.surface_modal_shape).at[0, 0, 0].set(c0 * SQRT4PI)
    tr = {}
    if kind == 'moist':
      tr = {'specific_humidity': jnp.zeros(ms).at[:, 0, 0].set(rest[0] * SQRT4PI)}
    res = _total(eq, kind, vor, z, tprime, lsp, tr)
    return res, tuple(jnp.zeros(x.shape) for x in res)
  prove_close(ctx, 'ii.solid_body_rotation_gradient_wind_balance_is_steady', f, args, sp,
              config=dict(grid=grids.cfg_name(cfg), levels=lname, kind=kind, tref=tname), scale_floor=1.0, twin=False)


def task_sw_jet(ctx, cfg, nlayers, degree):
  """(iv) layered shallow water: the state returned by shallow_water_states for a band-limited jet
  u(lat) = cos(lat) * sum_j c_j sin^j(lat) is steady, any symbolic c."""
  from dinosaur import shallow_water as sw, shallow_water_states as sws, coordinate_systems as cs, layer_coordinates as lc, scales
  grid = grids.make_grid(cfg)
  coords = cs.CoordinateSystem(grid, lc.LayerCoordinates(nlayers))
  dens = np.linspace(1.0, 1.4, nlayers)
  specs = sw.ShallowWaterSpecs(densities=dens, radius=1.0, angular_velocity=0.5, gravity_acceleration=1.0, scale=scales.DEFAULT_SCALE)
  ctx.encoded(sws.one_layer, sws.multi_layer, sw.ShallowWaterEquations.explicit_terms, sw.ShallowWaterEquations.implicit_terms, sw.get_density_ratios)
  phi = np.linspace(1.0, 2.0, nlayers)
  eq = sw.ShallowWaterEquations(coords, specs, None, phi)
  sp = Space(bits=10)
  c = PolyArr.variables(sp, 'c', (nlayers, degree + 1), lo=-0.5, hi=0.5)
  mu = np.asarray(grid.nodal_axes[1]); cl = np.sqrt(1 - mu ** 2)
  powers = np.stack([mu ** j for j in range(degree + 1)])          # (deg+1, nlat)

  def f(c):
    u = cl * jnp.einsum('kj,jn->kn', c, powers)                      # (layers, nlat)
    st = sws.multi_layer(u, dens, coords) if nlayers > 1 else jax.tree_util.tree_map(lambda x: x[None], sws.one_layer(u[0], grid))
    e = eq.explicit_terms(st) + eq.implicit_terms(st)
    res = (e.vorticity, e.divergence, e.potential)
    return res, tuple(jnp.zeros(x.shape) for x in res)
  prove_close(ctx, 'iv.shallow_water_geostrophic_jet_is_steady', f, [c], sp,
              config=dict(grid=grids.cfg_name(cfg), layers=nlayers, jet_degree=degree), scale_floor=1.0, twin=False)


def task_reference(ctx, cfg, levels, lname, lmax, tname, tref, tref_dtype='float64'):
  """Total tendency of the dry equations equals the independent weak-form reference model (c05_reference.py) on
  alias-free inputs: every coefficient with l <= lmax symbolic (state, all levels), orography and T_ref concrete."""
  from dinosaur import primitive_equations as pe
  from checks.c05_reference import Reference
  coords = models.make_coords(cfg, levels)
  grid = coords.horizontal
  K = coords.vertical.layers
  specs = models.unit_specs(g=1.7, R=0.9, omega=0.8, radius=float(grid.radius))
  rng = np.random.default_rng(12)
  m, l = grid.modal_mesh
  sup = grid.mask & (l <= lmax)
  oro = rng.uniform(-0.3, 0.3, grid.modal_shape) * sup
  tref = np.asarray(tref, float)
  # the equations receive the profile in the dtype the user supplied (integer-valued profiles given as integers included); the reference
  # model always works with the real values
  eq = pe.PrimitiveEquations(tref.astype(np.dtype(tref_dtype)), oro, coords, specs)
  ref = Reference(grid, cfg, levels, R=specs.R, kappa=specs.kappa, g=specs.g, omega=specs.angular_velocity, tref=tref, orography_modal=oro)
  ctx.encoded(pe.PrimitiveEquations.explicit_terms, pe.PrimitiveEquations.implicit_terms, pe.compute_diagnostic_state, pe.PrimitiveEquations.curl_and_div_tendencies,
              pe.PrimitiveEquations.nodal_temperature_adiabatic_tendency, pe.PrimitiveEquations.nodal_temperature_vertical_tendency, pe.PrimitiveEquations._t_omega_over_sigma_sp,
              pe.PrimitiveEquations.horizontal_scalar_advection, pe.PrimitiveEquations.kinetic_energy_tendency, pe.PrimitiveEquations.nodal_log_pressure_tendency,
              pe.get_geopotential_diff, pe.get_temperature_implicit, pe.div_sec_lat)
  sp = Space(bits=10)
  xs = models.pe_state_vars(sp, coords, support=sup)

  def both(v, d, t, p):
    return _total(eq, 'dry', v, d, t, p), ref.tendency(v, d, t, p)
  prove_close(ctx, 'reference.total_tendency_equals_pointwise_continuous_equations', both, xs, sp,
              config=dict(grid=grids.cfg_name(cfg), levels=lname, lmax=lmax, tref=tname, **({'tref_dtype': tref_dtype} if tref_dtype != 'float64' else {})), scale_floor=1.0)


def task_reference_moist(ctx, cfg, levels, lname, lmax, tname, tref, qbox=0.1):
  """Total tendency of the MOIST equations (vorticity, divergence, temperature, surface pressure AND humidity) equals the independent weak-form
  reference written from the physics (virtual temperature in the pressure-gradient force and the geopotential, moist kappa on the full
  temperature, advected humidity): every coefficient with l <= lmax symbolic, humidity included and NOT small."""
  from dinosaur import primitive_equations as pe
  from checks.c05_reference import Reference
  coords = models.make_coords(cfg, levels)
  grid = coords.horizontal
  specs = models.unit_specs(g=1.7, R=0.9, omega=0.8, radius=float(grid.radius))
  rng = np.random.default_rng(13)
  m, l = grid.modal_mesh
  sup = grid.mask & (l <= lmax)
  oro = rng.uniform(-0.3, 0.3, grid.modal_shape) * sup
  tref = np.asarray(tref, float)
  eq = pe.MoistPrimitiveEquations(tref, oro, coords, specs)
  ref = Reference(grid, cfg, levels, R=specs.R, kappa=specs.kappa, g=specs.g, omega=specs.angular_velocity, tref=tref, orography_modal=oro)
  ctx.encoded(pe.MoistPrimitiveEquations.explicit_terms, pe.MoistPrimitiveEquations.implicit_terms, pe.MoistPrimitiveEquations.curl_and_div_tendencies,
              pe.MoistPrimitiveEquations.nodal_temperature_adiabatic_tendency, pe.MoistPrimitiveEquations.divergence_tendency_due_to_humidity,
              pe.MoistPrimitiveEquations.vorticity_tendency_due_to_humidity, pe.MoistPrimitiveEquations._virtual_temperature, pe.get_geopotential_diff)
  cp_ratio = float(specs.Cp_vapor / specs.Cp)
  conf = dict(grid=grids.cfg_name(cfg), levels=lname, lmax=lmax, tref=tname, humidity_coefficient_box=qbox)

  def both(v, d, t, p, q):
    return _total(eq, 'moist', v, d, t, p, {'specific_humidity': q}), ref.tendency_moist(v, d, t, p, q, R_vapor=float(specs.R_vapor), cp_ratio=cp_ratio)
  # (1) humidity with every coefficient l <= lmax symbolic: vorticity, divergence, surface pressure and humidity tendencies (polynomial in the state).
  #     The temperature leaf is excluded here: its moist kappa is a rational function of the nodal humidity, and two ways of writing it only agree
  #     modulo r * (1 + c q) = 1 at every node, which the normal form cannot use when q at a node depends on several coefficients.
  sp = Space(bits=10)
  xs = models.pe_state_vars(sp, coords, support=sup, tracers=['specific_humidity'], tracer_box={'specific_humidity': qbox})
  K = coords.vertical.layers
  ms = coords.modal_shape; ss = coords.surface_modal_shape
  sel = [np.ones(ms, bool), np.ones(ms, bool), np.zeros(ms, bool), np.ones(ss, bool), np.ones(ms, bool)]
  prove_close(ctx, 'reference.moist_momentum_mass_and_humidity_tendencies_equal_pointwise_continuous_equations', both, xs, sp, select=sel,
              config=dict(conf, humidity='every coefficient with l <= lmax'), scale_floor=1.0)
  # (2) temperature: humidity horizontally uniform but different (and not small) in every layer, everything else with l <= lmax symbolic; the
  #     reciprocal atoms then have arguments affine in ONE variable and both sides are brought to the normal form modulo r (1 + c q_k) = 1
  sp2 = Space(bits=10)
  m_, l_ = grid.modal_mesh
  xs2 = models.pe_state_vars(sp2, coords, support=sup)
  q0 = PolyArr.variables(sp2, 'q0', ms, -3 * qbox, 3 * qbox, free=np.broadcast_to((m_ == 0) & (l_ == 0), ms))
  sel2 = [np.zeros(ms, bool), np.zeros(ms, bool), np.ones(ms, bool), np.zeros(ss, bool), np.zeros(ms, bool)]
  prove_close(ctx, 'reference.moist_temperature_tendency_equals_pointwise_continuous_equations', both, xs2 + [q0], sp2, select=sel2, reduce_atoms=True,
              config=dict(conf, humidity='uniform per layer, symbolic in +-%g (nodal value +-%g)' % (3 * qbox, 3 * qbox / SQRT4PI)), scale_floor=1.0)


def task_reference_sw(ctx, cfg, nlayers, lmax, with_orography=True):
  """Total tendency of the layered shallow-water equations equals the independent weak-form reference (ReferenceSW)
  on alias-free inputs: every coefficient with l <= lmax symbolic in every layer; densities, reference potentials and
  orography concrete."""
  from dinosaur import shallow_water as sw, coordinate_systems as cs, layer_coordinates as lc, scales
  from checks.c05_reference import ReferenceSW
  grid = grids.make_grid(cfg)
  coords = cs.CoordinateSystem(grid, lc.LayerCoordinates(nlayers))
  rng = np.random.default_rng(21 + nlayers)
  dens = np.sort(np.round(rng.uniform(1.0, 1.6, nlayers), 3))
  om = 0.7
  specs = sw.ShallowWaterSpecs(densities=dens, radius=float(grid.radius), angular_velocity=om, gravity_acceleration=1.0, scale=scales.DEFAULT_SCALE)
  phi_ref = np.round(rng.uniform(0.8, 2.0, nlayers), 3)
  m, l = grid.modal_mesh
  sup = grid.mask & (l <= lmax)
  oro = (rng.uniform(-0.3, 0.3, grid.modal_shape) * sup) if with_orography else None
  eq = sw.ShallowWaterEquations(coords, specs, oro, phi_ref)
  ref = ReferenceSW(grid, cfg, densities=dens, omega=om, ref_potential=phi_ref, orography_modal=oro)
  ctx.encoded(sw.ShallowWaterEquations.explicit_terms, sw.ShallowWaterEquations.implicit_terms, sw.get_density_ratios, sw.state_to_nodal)
  sp = Space(bits=10)
  ms = (nlayers,) + grid.modal_shape
  b = lambda msk: np.broadcast_to(msk, ms)
  v = PolyArr.variables(sp, 'vor', ms, free=b(sup & (l >= 1)))
  d = PolyArr.variables(sp, 'div', ms, free=b(sup & (l >= 1)))
  ph = PolyArr.variables(sp, 'phi', ms, free=b(sup))

  def both(v, d, ph):
    st = sw.State(v, d, ph)
    e = eq.explicit_terms(st) + eq.implicit_terms(st)
    return (e.vorticity, e.divergence, e.potential), ref.tendency(v, d, ph)
  prove_close(ctx, 'reference.shallow_water_tendency_equals_pointwise_continuous_equations', both, [v, d, ph], sp,
              config=dict(grid=grids.cfg_name(cfg), layers=nlayers, lmax=lmax, orography=with_orography), scale_floor=1.0)


def task_moist_equals_dry(ctx, cfg, levels, lname):
  """Moist equations with zero humidity equal the dry equations for every state."""
  from dinosaur import primitive_equations as pe
  coords = models.make_coords(cfg, levels)
  grid = coords.horizontal
  K = coords.vertical.layers
  specs = models.unit_specs()
  rng = np.random.default_rng(8)
  base, zm = models.admissible_masks(grid)
  oro = rng.uniform(-0.3, 0.3, grid.modal_shape) * base
  tref = np.linspace(1.0, 1.4, K)
  eqd = pe.PrimitiveEquations(tref, oro, coords, specs); eqm = pe.MoistPrimitiveEquations(tref, oro, coords, specs)
  sp = Space(bits=10)
  xs = models.pe_state_vars(sp, coords)
  ms = coords.modal_shape

  def f(v, d, t, p):
    a = _total(eqm, 'moist', v, d, t, p, {'specific_humidity': jnp.zeros(ms)})
    b = _total(eqd, 'dry', v, d, t, p)
    return a[:4], b
  prove_close(ctx, 'moist_with_zero_humidity_equals_dry', f, xs, sp, config=dict(grid=grids.cfg_name(cfg), levels=lname), scale_floor=1.0)


def make_tasks(tier, seed):
  LS = models.level_sets(seed)
  cfg = dict(M=3, L=4, nlon=8, nlat=5)
  cfgf = dict(M=3, L=4, nlon=8, nlat=5, impl='fast')
  cfg5 = dict(M=4, L=5, nlon=12, nlat=6, radius=1.5)
  tasks = []
  rng = np.random.default_rng(seed + 3)

  def trefs(K):
    return {'eqT0': None, 'linear': np.linspace(0.8, 1.5, K), 'random': np.round(rng.uniform(0.6, 1.6, K), 3)}
  for c, ln, kind, T0, tn, sym in ((cfg, 'dy2', 'dry', 1.1, 'linear', False), (cfg, 'dy3', 'dry', 0.9, 'random', False),
                                   (cfgf, 'dy2', 'time', 1.3, 'eqT0', False), (cfg, 'dy2', 'moist', 1.2, 'linear', False),
                                   (cfg5, 'dy2', 'dry', 1.0, 'random', False), (cfg, 'dy2', 'dry', None, 'linear', True)):
    K = len(LS[ln]) - 1
    tr = trefs(K)[tn]
    tr = np.full(K, T0) if tr is None else tr
    tasks.append(dict(name=f'rest-{kind}-{grids.cfg_name(c)}-{ln}-{tn}' + ('-symT0' if sym else ''), fn='task_rest',
                      kw=dict(cfg=c, levels=LS[ln].tolist(), lname=ln, kind=kind, T0=T0, tname=tn, tref=tr.tolist(), symbolic_T0=sym)))
  for c, ln, kind, tn in ((cfg, 'dy2', 'dry', 'linear'), (cfg5, 'dy3', 'dry', 'random'), (cfg, 'dy2', 'moist', 'linear'), (cfgf, 'dy2', 'time', 'random')):
    K = len(LS[ln]) - 1
    tr = trefs(K)[tn]
    tasks.append(dict(name=f'rotation-{kind}-{grids.cfg_name(c)}-{ln}-{tn}', fn='task_rotation',
                      kw=dict(cfg=c, levels=LS[ln].tolist(), lname=ln, kind=kind, tname=tn, tref=tr.tolist())))
  jet = dict(M=2, L=9, nlon=4, nlat=14)
  tasks.append(dict(name='sw-jet-1layer', fn='task_sw_jet', kw=dict(cfg=jet, nlayers=1, degree=2)))
  tasks.append(dict(name='sw-jet-2layer', fn='task_sw_jet', kw=dict(cfg=jet, nlayers=2, degree=2)))
  tasks.append(dict(name='moist-eq-dry', fn='task_moist_equals_dry', kw=dict(cfg=cfg, levels=LS['dy2'].tolist(), lname='dy2')))
  refg = dict(M=3, L=6, nlon=16, nlat=8, radius=1.3)
  tasks.append(dict(name='reference-l1', fn='task_reference', kw=dict(cfg=refg, levels=LS['dy3'].tolist(), lname='dy3', lmax=1, tname='linear', tref=np.linspace(0.8, 1.5, 3).tolist())))
  tasks.append(dict(name='reference-moist-l1', fn='task_reference_moist', kw=dict(cfg=refg, levels=LS['dy3'].tolist(), lname='dy3', lmax=1, tname='linear', tref=np.linspace(0.8, 1.5, 3).tolist())))
  tasks.append(dict(name='reference-l1-integer-tref', fn='task_reference', kw=dict(cfg=refg, levels=LS['dy3'].tolist(), lname='dy3', lmax=1, tname='integer-valued', tref=[1, 2, 4], tref_dtype='int64')))
  tasks.append(dict(name='reference-sw-2layer-l1', fn='task_reference_sw', kw=dict(cfg=refg, nlayers=2, lmax=1)))
  if tier != 'quick':
    tasks.append(dict(name='reference-sw-3layer-l2', fn='task_reference_sw', kw=dict(cfg=dict(M=4, L=8, nlon=22, nlat=11), nlayers=3, lmax=2)))
    tasks.append(dict(name='reference-sw-1layer-l3', fn='task_reference_sw', kw=dict(cfg=dict(M=4, L=8, nlon=22, nlat=11, radius=2.0), nlayers=1, lmax=3, with_orography=False)))
    tasks.append(dict(name='reference-l2', fn='task_reference', kw=dict(cfg=dict(M=4, L=8, nlon=22, nlat=11), levels=LS['dy3'].tolist(), lname='dy3', lmax=2, tname='random', tref=[1.0, 1.25, 1.4])))
    tasks.append(dict(name='reference-l3-K2', fn='task_reference', kw=dict(cfg=dict(M=4, L=8, nlon=22, nlat=11), levels=LS['dy2'].tolist(), lname='dy2', lmax=3, tname='linear', tref=[0.9, 1.3])))
  if tier != 'quick':
    tasks.append(dict(name='sw-jet-3layer-fast', fn='task_sw_jet', kw=dict(cfg=dict(jet, impl='fast'), nlayers=3, degree=1)))
  return tasks


def main(tier='quick', seed=0, jobs=None, only=None, t0=None):
  t0 = t0 or time.time()
  tasks = make_tasks(tier, seed)
  if only:
    tasks = [t for t in tasks if only in t['name']]
  results = harness.run_tasks(MOD, tasks, PID, seed, tier, jobs)
  return harness.finalize(
      PID, tier, seed, results, t0,
      explanation='Balanced families with SYMBOLIC parameters have identically vanishing total tendency (polynomial identities decided by '
                  'the solver): isothermal rest over arbitrary orography (all retained modal coefficients of h symbolic, T0 concrete or symbolic), '
                  'solid-body rotation in gradient-wind balance (U, per-level temperatures, humidity, ln ps symbolic), geostrophic shallow-water '
                  'jets returned by shallow_water_states (jet coefficients symbolic); moist(q=0) == dry for all states; total dry tendency equals an independent '
                  'weak-form evaluation of the continuous equations (mpmath basis tables, numpy Gauss weights, unsplit documented vertical scheme) on alias-free inputs.',
      bounds=dict(tasks=[t['name'] for t in tasks], eps='1e-9 x max(coefficient mass, 1)'),
      assumptions=['real-arithmetic semantics of the float64 IR', 'O(1) constants (unit_specs)'],
      trusted=['JAX tracing', 'dverif interpreter', 'z3/cvc5'],
      outside=['steady_state_jw (float-evaluated closed form, only approximately steady)', 'the weak-form reference comparison is restricted to alias-free inputs (l <= 1 quick, <= 3 thorough) of the dry equations',
               'dynamics on equiangular_with_poles (F9)'])
