"""C17 — vertical interpolation is exact on affine data with the documented extrapolation."""
from __future__ import annotations

import time
from fractions import Fraction
import numpy as np
import z3

import dverif  # noqa: F401
import jax
import jax.numpy as jnp

from dverif import grids, harness, smt
from dverif.harness import prove_close
from dverif.poly import Space, PolyArr
from dverif.term import TermArr, TermSpace, R, specialize
from dverif.jsym import Interp

PID = 'C17'
MOD = 'checks.c17'
NAN = 10 ** 9      # sentinel standing for NaN in final select positions (all genuine outputs are << 1e9 on the boxes used)


def Q(v):
  return z3.RealVal(Fraction(float(v)))


def _r(t):
  t = R(t)
  return z3.ToReal(t) if z3.is_int(t) else t


def node_sets(seed):
  rng = np.random.default_rng(seed + 7)
  out = {'n2': np.array([0.25, 0.75]), 'n3': np.array([0.1, 0.25, 1.0]), 'n4-uneven': np.array([0.1, 0.25, 0.6, 1.0]),
         'n6': np.array([-1.0, -0.5, 0.0, 0.125, 2.0, 3.5])}
  k = int(rng.integers(3, 6))
  out[f'n{k}-seeded'] = np.cumsum(np.round(rng.uniform(0.05, 1.0, k), 3))
  return out


ROUTINES = ['jnp.interp', '_dot_interp', 'interp', 'linear_interp_with_linear_extrap', '_linear_interp_with_safe_extrap(n=1)',
            '_linear_interp_with_safe_extrap(n=2)']


def _routine(name):
  from dinosaur import vertical_interpolation as vi
  import functools
  return {'jnp.interp': jnp.interp, '_dot_interp': vi._dot_interp, 'interp': vi.interp,
          'linear_interp_with_linear_extrap': vi.linear_interp_with_linear_extrap,
          '_linear_interp_with_safe_extrap(n=1)': vi._linear_interp_with_safe_extrap,
          '_linear_interp_with_safe_extrap(n=2)': functools.partial(vi._linear_interp_with_safe_extrap, n=2)}[name]


def decide(ctx, name, config, pre, bad, logic='QF_NRA', timeout=60000, replay=None, spec=None):
  if spec is not None:
    st = {}
    bad = specialize([bad], spec, stats=st)[0]
    smt.STATS.record('QF_LRA(atom-specialisation)', 'decided', 0.0); smt.STATS.by_logic['QF_LRA(atom-specialisation)']['decided'] += st.get('queries', 1) - 1
  v, model = smt.check_z3(list(pre) + [bad], logic, timeout, want_model=True)
  if v == 'unsat':
    ctx.clause(name, 'discharged', config=config, queries=1)
    return True
  if v == 'sat':
    ctx.clause(name, 'failed', config=config, queries=1)
    if replay is not None:
      msg = replay(model)
      if msg:
        ctx.violation(name, dict(config=config), msg[1], msg[0])
      else:
        ctx.error(name, 'counterexample did not replay')
    else:
      ctx.error(name, f'satisfiable (no replay available): {config}: ' + str({str(d): str(model[d]) for d in model.decls()[:12]})[:300])
    return False
  ctx.clause(name, 'inconclusive', config=config, queries=1)
  ctx.error(name, f'solver verdict {v}')
  return False


def _val(model, t):
  v = model.eval(t, model_completion=True)
  try:
    return float(v.as_fraction())
  except Exception:
    return float(v.approx(20).as_fraction())


def task_routine(ctx, rname, sname, xp):
  """One 1-D routine, concrete strictly increasing nodes, SYMBOLIC query point and data."""
  from dinosaur import vertical_interpolation as vi
  fn = _routine(rname)
  ctx.encoded(vi._dot_interp, vi.interp, vi.linear_interp_with_linear_extrap, vi._linear_interp_with_safe_extrap, vi._extrapolate_both,
              vi._extrapolate_left, vi._extrapolate_right)
  xp = np.asarray(xp, float); n = len(xp)
  sp = TermSpace(); sp.nan_sentinel = z3.RealVal(NAN)
  x = TermArr.variables(sp, 'x', ()); fp = TermArr.variables(sp, 'fp', (n,))
  cl = jax.make_jaxpr(lambda x, fp: fn(x, jnp.asarray(xp), fp))(0.5, jnp.zeros(n))
  out = Interp(sp).run(cl, x, fp)[0]
  r = _r(out.a.reshape(-1)[0]); xv = x.a.reshape(-1)[0]; f = list(fp.a)
  box = [z3.And(v >= -1, v <= 1) for v in f]
  span = float(xp[-1] - xp[0])
  conf = dict(routine=rname, nodes=sname, n=n)
  jf = jax.jit(lambda x, fp: fn(x, jnp.asarray(xp), fp))

  def mk_replay(expect_fn, tol=1e-9):
    def rp(model):
      xc = _val(model, xv); fc = [_val(model, v) for v in f]
      got = float(jf(xc, jnp.asarray(fc))); exp = expect_fn(xc, np.asarray(fc))
      bad = (np.isnan(got) != np.isnan(exp)) or (not np.isnan(got) and abs(got - exp) > tol * max(1.0, abs(exp)))
      return (f'{rname}({xc}; nodes {sname}) = {got}, documented value {exp}', dict(inputs=[xc, fc], got=got, expected=exp)) if bad else None
    return rp
  eps = Q(1e-9)
  close = lambda a, b: z3.And(a - b <= eps, b - a <= eps)

  def ref_interp(xc, fc):
    return float(np.interp(xc, xp, fc))
  # (1) value at the nodes
  decide(ctx, 'value_at_nodes', conf, box, z3.Or(*[z3.And(xv == Q(xp[i]), z3.Not(close(r, f[i]))) for i in range(n)]),
         replay=mk_replay(ref_interp))
  # (2) inside: equals the reference piecewise-linear interpolant and stays between the neighbouring values
  for i in range(n - 1):
    dx = Q(xp[i + 1]) - Q(xp[i])
    refv = f[i] + (xv - Q(xp[i])) / dx * (f[i + 1] - f[i])
    lo = z3.If(f[i] <= f[i + 1], f[i], f[i + 1]); hi = z3.If(f[i] >= f[i + 1], f[i], f[i + 1])
    seg = [xv >= Q(xp[i]), xv <= Q(xp[i + 1])]
    decide(ctx, 'inside.equals_reference_interpolant_and_bounded_by_neighbours', dict(conf, segment=i), box + seg,
           z3.Or(z3.Not(close(r, refv)), r < lo - eps, r > hi + eps), replay=mk_replay(ref_interp), spec=[xv > Q(xp[i]), xv < Q(xp[i + 1])])
  # (2b) storage dtype: integer-valued data held in an int64 array (level indices, category codes) interpolate like the same values in float64
  try:
    fpi = TermArr.variables(sp, 'fpi', (n,), sort='int')
    cli = jax.make_jaxpr(lambda x, fp: fn(x, jnp.asarray(xp), fp))(0.5, jnp.zeros(n, jnp.int64))
    out_i = Interp(sp).run(cli, x, fpi)[0]
    out_f = Interp(sp).run(cl, x, fpi.to_float())[0]
    ri = _r(TermArr(np.asarray(out_i.a, dtype=object).reshape(-1), sp).to_float().a[0]); rf = _r(out_f.a.reshape(-1)[0])
    fi = list(fpi.a)

    def rp_int(model):
      xc = _val(model, xv); fc = [int(model.eval(v, model_completion=True).as_long()) for v in fi]
      got = float(jf(xc, jnp.asarray(fc, jnp.int64))); exp = float(jf(xc, jnp.asarray(fc, jnp.float64)))
      bad = (np.isnan(got) != np.isnan(exp)) or (not np.isnan(got) and abs(got - exp) > 1e-9 * max(1.0, abs(exp)))
      return (f'{rname}({xc}; nodes {sname}) on int64 data {fc} = {got}, on the same values in float64 = {exp}', dict(inputs=[xc, fc], got=got, expected=exp)) if bad else None
    if ri.eq(rf):
      ctx.clause('integer_stored_data_interpolate_like_their_values', 'discharged', config=dict(conf, identical_terms=True), queries=0)
    else:
      decide(ctx, 'integer_stored_data_interpolate_like_their_values', conf, [z3.And(v >= -8, v <= 8) for v in fi] + [xv >= Q(xp[0] - 2 * span), xv <= Q(xp[-1] + 2 * span)],
             z3.Or(z3.And(ri == z3.RealVal(NAN), rf != z3.RealVal(NAN)), z3.And(ri != z3.RealVal(NAN), rf == z3.RealVal(NAN)), ri - rf > eps, rf - ri > eps), replay=rp_int)
  except Exception as e_:  # noqa: BLE001
    ctx.error('integer_stored_data_interpolate_like_their_values', f'{type(e_).__name__}: {e_}')
  # (3) exact on affine data  fp_i = a + b xp_i  (a, b symbolic)
  a, b = z3.Real('a'), z3.Real('b')
  aff = [f[i] == a + b * Q(xp[i]) for i in range(n)] + [a >= -1, a <= 1, b >= -1, b <= 1]
  decide(ctx, 'exact_on_affine_data_inside', conf, aff + [xv >= Q(xp[0]), xv <= Q(xp[-1])], z3.Not(close(r, a + b * xv)))
  # (4) documented behaviour outside the source range
  below = xv < Q(xp[0]); above = xv > Q(xp[-1])
  far = [xv >= Q(xp[0] - 5 * span), xv <= Q(xp[-1] + 5 * span)]
  if rname in ('jnp.interp', '_dot_interp', 'interp'):
    bad = z3.Or(z3.And(below, z3.Not(close(r, f[0]))), z3.And(above, z3.Not(close(r, f[-1]))))
    decide(ctx, 'outside.constant_extrapolation', conf, box + far, bad, replay=mk_replay(ref_interp))
  elif rname == 'linear_interp_with_linear_extrap':
    l0 = f[0] + (xv - Q(xp[0])) / (Q(xp[1]) - Q(xp[0])) * (f[1] - f[0])
    l1 = f[-2] + (xv - Q(xp[-2])) / (Q(xp[-1]) - Q(xp[-2])) * (f[-1] - f[-2])
    bad = z3.Or(z3.And(below, z3.Not(close(r, l0))), z3.And(above, z3.Not(close(r, l1))))

    def ref_lin(xc, fc):
      if xc < xp[0]: return float(fc[0] + (xc - xp[0]) / (xp[1] - xp[0]) * (fc[1] - fc[0]))
      if xc > xp[-1]: return float(fc[-2] + (xc - xp[-2]) / (xp[-1] - xp[-2]) * (fc[-1] - fc[-2]))
      return ref_interp(xc, fc)
    decide(ctx, 'outside.unlimited_linear_extrapolation', conf, box + far, bad, replay=mk_replay(ref_lin))
    decide(ctx, 'exact_on_affine_data_everywhere', conf, aff + far, z3.Not(close(r, a + b * xv)))
  else:
    k = 1 if 'n=1' in rname else 2
    d0 = xp[1] - xp[0]; d1 = xp[-1] - xp[-2]
    lo_lim = xp[0] - k * d0; hi_lim = xp[-1] + k * d1
    l0 = f[0] + (xv - Q(xp[0])) / Q(d0) * (f[1] - f[0])
    l1 = f[-1] + (xv - Q(xp[-1])) / Q(d1) * (f[-1] - f[-2])
    nan = z3.RealVal(NAN)
    # strict interior of the extrapolation zones (limits are rounded sums in the code: stay 1e-9 away from them)
    m = Q(1e-9 * max(1.0, abs(lo_lim), abs(hi_lim)))
    bad = z3.Or(z3.And(xv < Q(xp[0]), xv > Q(lo_lim) + m, z3.Not(close(r, l0))),
                z3.And(xv > Q(xp[-1]), xv < Q(hi_lim) - m, z3.Not(close(r, l1))),
                z3.And(xv < Q(lo_lim) - m, r != nan), z3.And(xv > Q(hi_lim) + m, r != nan),
                z3.And(xv > Q(lo_lim) + m, xv < Q(hi_lim) - m, r == nan))

    def ref_safe(xc, fc):
      if xc < lo_lim or xc > hi_lim: return float('nan')
      if xc < xp[0]: return float(fc[0] + (xc - xp[0]) / d0 * (fc[1] - fc[0]))
      if xc > xp[-1]: return float(fc[-1] + (xc - xp[-1]) / d1 * (fc[-1] - fc[-2]))
      return ref_interp(xc, fc)
    decide(ctx, f'outside.linear_for_{k}_cells_then_missing', conf, box + far, bad, replay=mk_replay(ref_safe))


def task_branches_equal(ctx, sname, xp):
  """Both code paths of `interp` (jnp.interp and the matrix form) agree for every query point and data."""
  from dinosaur import vertical_interpolation as vi
  xp = np.asarray(xp, float); n = len(xp)
  sp = TermSpace()
  x = TermArr.variables(sp, 'x', ()); fp = TermArr.variables(sp, 'fp', (n,))
  outs = []
  for fn in (jnp.interp, vi._dot_interp):
    cl = jax.make_jaxpr(lambda x, fp, fn=fn: fn(x, jnp.asarray(xp), fp))(0.5, jnp.zeros(n))
    outs.append(_r(Interp(sp).run(cl, x, fp)[0].a.reshape(-1)[0]))
  f = list(fp.a)
  eps = Q(1e-9)
  jf = lambda xc, fc: (float(jnp.interp(xc, jnp.asarray(xp), jnp.asarray(fc))), float(vi._dot_interp(xc, jnp.asarray(xp), jnp.asarray(fc))))

  def rp(model):
    xc = _val(model, x.a.reshape(-1)[0]); fc = [_val(model, v) for v in f]
    a_, b_ = jf(xc, fc)
    return (f'interp branches differ at x={xc}: {a_} vs {b_}', dict(inputs=[xc, fc], jnp=a_, dot=b_)) if abs(a_ - b_) > 1e-9 else None
  xv = x.a.reshape(-1)[0]
  span = float(xp[-1] - xp[0])
  regions = [[xv >= Q(xp[0] - 5 * span), xv < Q(xp[0])]] + [[xv > Q(xp[i]), xv < Q(xp[i + 1])] for i in range(n - 1)] + [[xv > Q(xp[-1]), xv <= Q(xp[-1] + 5 * span)]]
  regions += [[xv == Q(xp[i])] for i in range(n)]
  for k, reg in enumerate(regions):
    decide(ctx, 'default_and_matrix_code_paths_agree', dict(nodes=sname, n=n, region=k), [z3.And(v >= -1, v <= 1) for v in f] + reg,
           z3.Or(outs[0] - outs[1] > eps, outs[1] - outs[0] > eps), replay=rp, spec=reg)


def task_symbolic_nodes(ctx, rname, n):
  """Nodes symbolic as well (n <= 3): value at nodes and exactness on affine data inside."""
  fn = _routine(rname)
  sp = TermSpace(); sp.nan_sentinel = z3.RealVal(NAN)
  x = TermArr.variables(sp, 'x', ()); xp = TermArr.variables(sp, 'xp', (n,)); fp = TermArr.variables(sp, 'fp', (n,))
  cl = jax.make_jaxpr(lambda x, xp, fp: fn(x, xp, fp))(0.5, jnp.arange(n * 1.0), jnp.zeros(n))
  out = Interp(sp).run(cl, x, xp, fp)[0]
  r = _r(out.a.reshape(-1)[0]); xv = x.a.reshape(-1)[0]; nodes = list(xp.a); f = list(fp.a)
  gap = Q(1e-3)
  pre = [nodes[i + 1] - nodes[i] >= gap for i in range(n - 1)] + [nodes[0] >= -2, nodes[-1] <= 2] + [z3.And(v >= -1, v <= 1) for v in f]
  conf = dict(routine=rname, n=n, nodes='symbolic, gaps >= 1e-3, in [-2,2]')
  eps = Q(1e-9)
  close = lambda a, b: z3.And(a - b <= eps, b - a <= eps)
  # one query per node / per cell, with the comparison atoms of the interpolation term decided under the cell assumption first (atom specialisation):
  # a single query over all cells is decided too, but z3's non-linear engine needs between 1 s and > 500 s for it depending on its random seed
  for i in range(n):
    at = [xv == nodes[i]]
    decide(ctx, 'symbolic_nodes.value_at_nodes', dict(conf, node=i), pre + at, z3.Not(close(r, f[i])), timeout=120000, spec=pre[:n - 1] + at)
  a, b = z3.Real('a'), z3.Real('b')
  aff = [f[i] == a + b * nodes[i] for i in range(n)] + [a >= -1, a <= 1, b >= -1, b <= 1]
  for i in range(n - 1):
    cell = [xv >= nodes[i], xv <= nodes[i + 1]]
    decide(ctx, 'symbolic_nodes.exact_on_affine_data_inside', dict(conf, cell=i), pre + aff + cell, z3.Not(close(r, a + b * xv)), timeout=120000, spec=pre[:n - 1] + cell)


def _intervals(lo, hi, points):
  pts = sorted({float(p) for p in points if lo < p < hi})
  edges = [lo] + pts + [hi]
  return list(zip(edges[:-1], edges[1:]))


def task_columns(ctx, levels, lname):
  """sigma <-> pressure conversion is exact on affine columns (with the documented one-cell extrapolation and
  missing values beyond); the vectorised wrappers act column-wise; surface pressure solves
  geopotential(p_s) = g * orography for piecewise-linear geopotential."""
  from dinosaur import vertical_interpolation as vi, sigma_coordinates as sc, primitive_equations as pe
  sig = sc.SigmaCoordinates(np.asarray(levels))
  K = sig.layers
  ctx.encoded(vi.interp_pressure_to_sigma, vi.interp_sigma_to_pressure, vi.vectorize_vertical_interpolation, vi.get_surface_pressure,
              vi.interp_hybrid_to_sigma, pe._vertical_interp)
  pc = vi.PressureCoordinates(np.array([100.0, 250.0, 500.0, 700.0, 850.0, 1000.0]))
  P = pc.centers
  nx, ny = 1, 1
  sp = TermSpace(); sp.nan_sentinel = z3.RealVal(NAN)
  a = TermArr.variables(sp, 'a', (1, nx, ny)); b = TermArr.variables(sp, 'b', (1, nx, ny)); ps = TermArr.variables(sp, 'ps', (1, nx, ny))
  conf = dict(levels=lname, K=K, pressure_levels=P.tolist())
  av, bv, psv = a.a[0, 0, 0], b.a[0, 0, 0], ps.a[0, 0, 0]
  box = [av >= -1, av <= 1, bv >= -1, bv <= 1]
  eps = Q(1e-9)
  d_lo = P[1] - P[0]; d_hi = P[-1] - P[-2]
  lo_lim, hi_lim = P[0] - d_lo, P[-1] + d_hi

  def col_replay(fn, k, expected):
    def rp(model):
      vals = []
      for v in (av, bv, psv):
        m = model.eval(v, model_completion=True)
        try:
          vals.append(float(m.as_fraction()))
        except Exception:
          vals.append(float(m.approx(20).as_fraction()))
      a_, b_, ps_ = vals
      got = float(np.asarray(fn(jnp.full((1, 1, 1), a_), jnp.full((1, 1, 1), b_), jnp.full((1, 1, 1), ps_)))[k, 0, 0])
      exp = float(expected(a_, b_, ps_))
      same = (np.isnan(got) and np.isnan(exp)) or (not np.isnan(got) and not np.isnan(exp) and abs(got - exp) <= 1e-7)
      if same:
        return None
      return (f'{fn.__name__}: affine column a={a_}, b={b_}, surface pressure {ps_}: level {k} gives {got}, documented {exp}',
              dict(inputs=[a_, b_, ps_], level=k, got=repr(got), documented=repr(exp)))
    return rp

  # affine column in pressure f(p) = a + b p/1000 on pressure levels -> sigma levels
  def to_sigma(a, b, ps):
    fld = a + b * (P[:, None, None] / 1000.0)
    return vi.interp_pressure_to_sigma(fld, pc, sig, ps)
  cl = jax.make_jaxpr(to_sigma)(jnp.zeros((1, nx, ny)), jnp.zeros((1, nx, ny)), 900.0 * jnp.ones((1, nx, ny)))
  out = Interp(sp).run(cl, a, b, ps)[0]
  PS_LO, PS_HI = 500.0, 1100.0
  for k in range(K):
    sk = float(sig.centers[k])
    r = _r(out.a[k, 0, 0]); p = psv * Q(sk)
    expv = av + bv * p / 1000
    brk = [v / sk for v in list(P) + [lo_lim, hi_lim]]
    for (l, h) in _intervals(PS_LO, PS_HI, brk):
      mid = 0.5 * (l + h) * sk
      reg = [psv > Q(l * (1 + 1e-9)), psv < Q(h * (1 - 1e-9))]        # 1e-9 margins: the breakpoints are rounded quotients
      if lo_lim < mid < hi_lim:
        bad = z3.Or(r - expv > eps, expv - r > eps)
      else:
        bad = r != z3.RealVal(NAN)
      decide(ctx, 'pressure_to_sigma.affine_columns_exact_within_one_cell_of_the_levels_missing_beyond', dict(conf, level=k, ps_interval=[l, h]),
             box + reg, bad, spec=reg,
             replay=col_replay(to_sigma, k, lambda a_, b_, ps_, sk=sk: (a_ + b_ * ps_ * sk / 1000.0) if lo_lim < ps_ * sk < hi_lim else np.nan))
  # sigma -> pressure of an affine-in-sigma column  f(sigma) = a + b sigma
  def to_pressure(a, b, ps):
    fld = a + b * sig.centers[:, None, None]
    return vi.interp_sigma_to_pressure(fld, pc, sig, ps)
  if K >= 2:
    cl2 = jax.make_jaxpr(to_pressure)(jnp.zeros((1, nx, ny)), jnp.zeros((1, nx, ny)), 900.0 * jnp.ones((1, nx, ny)))
    out2 = Interp(sp).run(cl2, a, b, ps)[0]
    S = sig.centers
    s_lo = S[0] - (S[1] - S[0]); s_hi = S[-1] + (S[-1] - S[-2])
    for k in range(pc.layers):
      r = _r(out2.a[k, 0, 0]); pk = float(P[k])
      brk = [pk / v for v in list(S) + [s_lo, s_hi] if v > 0]
      for (l, h) in _intervals(PS_LO, PS_HI, brk):
        sm = pk / (0.5 * (l + h))
        reg = [psv > Q(l * (1 + 1e-9)), psv < Q(h * (1 - 1e-9))]
        if s_lo < sm < s_hi:
          # r = a + b pk/ps  <=>  (r - a) ps = b pk
          bad = z3.Or((r - av) * psv - bv * Q(pk) > eps * 1100, bv * Q(pk) - (r - av) * psv > eps * 1100)
        else:
          bad = r != z3.RealVal(NAN)
        decide(ctx, 'sigma_to_pressure.affine_columns_exact_within_one_cell_of_the_levels_missing_beyond', dict(conf, level=k, ps_interval=[l, h]),
               box + reg, bad, spec=reg,
               replay=col_replay(to_pressure, k, lambda a_, b_, ps_, pk=pk: (a_ + b_ * pk / ps_) if s_lo < pk / ps_ < s_hi else np.nan))
  # field shapes and trees: the conversions are documented for [..., level, x, y] fields: a leading (time / ensemble) axis is converted slice
  # by slice, and every leaf of a tree of such fields is converted
  a4 = TermArr.variables(sp, 'a4', (2, 1, nx, ny)); b4 = TermArr.variables(sp, 'b4', (2, 1, nx, ny))
  a4v = [x_ for x_ in a4.a.reshape(-1)]; b4v = [x_ for x_ in b4.a.reshape(-1)]
  box4 = [z3.And(v >= -1, v <= 1) for v in a4v + b4v] + [psv >= Q(PS_LO), psv <= Q(PS_HI)]

  def lead_p2s(a4, b4, ps):
    fld = a4 + b4 * (P[None, :, None, None] / 1000.0)
    got = vi.interp_pressure_to_sigma({'u': fld, 'nested': {'t': fld[1]}}, pc, sig, ps)
    ref = jnp.stack([vi.interp_pressure_to_sigma(fld[t], pc, sig, ps) for t in range(2)])
    return (got['u'], got['nested']['t']), (ref, ref[1])

  def lead_s2p(a4, b4, ps):
    fld = a4 + b4 * sig.centers[None, :, None, None]
    got = vi.interp_sigma_to_pressure({'u': fld, 'nested': {'t': fld[1]}}, pc, sig, ps)
    ref = jnp.stack([vi.interp_sigma_to_pressure(fld[t], pc, sig, ps) for t in range(2)])
    return (got['u'], got['nested']['t']), (ref, ref[1])
  for cname, fnl in (('pressure_to_sigma', lead_p2s), ('sigma_to_pressure', lead_s2p)):
    if cname == 'sigma_to_pressure' and K < 2:
      continue
    full = f'{cname}.leading_axes_and_tree_leaves_are_converted_slice_by_slice'
    ex4 = (jnp.zeros((2, 1, nx, ny)), jnp.zeros((2, 1, nx, ny)), 900.0 * jnp.ones((1, nx, ny)))

    def lead_replay(model, fnl=fnl):
      av_ = np.array([_val(model, v) for v in a4v]).reshape(2, 1, nx, ny); bv_ = np.array([_val(model, v) for v in b4v]).reshape(2, 1, nx, ny)
      ps_ = _val(model, psv)
      try:
        got, ref = fnl(jnp.asarray(av_), jnp.asarray(bv_), jnp.full((1, nx, ny), ps_))
      except Exception as e_:  # noqa: BLE001
        return (f'{fnl.__name__}: raises {type(e_).__name__} on a [time, level, x, y] field', dict(inputs=[av_.tolist(), bv_.tolist(), ps_], error=str(e_)[:200]))
      for g_, r_ in zip(got, ref):
        g_ = np.asarray(g_); r_ = np.asarray(r_)
        if g_.shape != r_.shape or not np.allclose(g_, r_, rtol=0, atol=1e-7, equal_nan=True):
          return (f'{fnl.__name__}: a [time, level, x, y] field (or a nested leaf) is not converted like its [level, x, y] slices: shapes {g_.shape} vs {r_.shape}',
                  dict(inputs=[av_.tolist(), bv_.tolist(), ps_], got=np.asarray(g_).tolist(), slices=np.asarray(r_).tolist()))
      return None
    try:
      cl4 = jax.make_jaxpr(fnl)(*ex4)
      o4 = Interp(sp).run(cl4, a4, b4, ps)
      half = len(o4) // 2
      pairs = list(zip(o4[:half], o4[half:]))
      shapes_ok = all(np.shape(g_.a if hasattr(g_, 'a') else g_) == np.shape(r_.a if hasattr(r_, 'a') else r_) for g_, r_ in pairs)
    except Exception as e_:  # noqa: BLE001
      shapes_ok = False; pairs = []
    if not shapes_ok:
      # the program itself cannot be built / has another output shape: settle on the real function at an arbitrary admissible input
      class _M:
        def eval(self, v, model_completion=True):
          return z3.RealVal(900) if v is psv else z3.RealVal('1/2')
      msg = lead_replay(_M())
      ctx.clause(full, 'failed' if msg else 'error', config=conf, queries=0)
      if msg:
        ctx.violation(full, dict(config=conf, kind='shape'), msg[1], msg[0])
      else:
        ctx.error(full, 'output shapes differ in the traced program but the real call agrees')
      continue
    diffs = []
    for g_, r_ in pairs:
      for x_, y_ in zip(np.asarray(g_.a, dtype=object).reshape(-1), np.asarray(r_.a, dtype=object).reshape(-1)):
        xr, yr = _r(x_), _r(y_)
        if not xr.eq(yr):
          diffs.append(z3.Or(xr - yr > eps, yr - xr > eps))
    if not diffs:
      ctx.clause(full, 'discharged', config=dict(conf, identical_terms=True), queries=0)
    else:
      decide(ctx, full, conf, box4, z3.Or(*diffs), replay=lead_replay)
  # hybrid -> sigma: a column that is affine in the SOURCE sigma (which itself depends on the surface pressure: sigma_j = (a_j + b_j ps) / ps at the
  # layer centres a_j, b_j = mid-points of the documented boundary coefficients) comes out affine in the target sigma, within one source cell of
  # the source range, and missing beyond
  for hname, (ha, hb) in {'full-column-4': (np.array([0.0, 20.0, 60.0, 30.0, 0.0]), np.array([0.0, 0.0, 0.2, 0.65, 1.0])),
                          'low-top-4': (np.array([10.0, 40.0, 80.0, 30.0, 0.0]), np.array([0.0, 0.0, 0.15, 0.7, 1.0]))}.items():
    hyb = vi.HybridCoordinates(a_boundaries=ha, b_boundaries=hb)
    ac = (ha[1:] + ha[:-1]) / 2; bc = (hb[1:] + hb[:-1]) / 2
    nsrc = len(ac)

    def hyb_to_sigma(a, b, ps, hyb=hyb, ac=ac, bc=bc):
      src = (ac[:, None, None] + bc[:, None, None] * ps) / ps
      return vi.interp_hybrid_to_sigma(a + b * src, hyb, sig, ps[0])
    clh = jax.make_jaxpr(hyb_to_sigma)(jnp.zeros((1, nx, ny)), jnp.zeros((1, nx, ny)), 900.0 * jnp.ones((1, nx, ny)))
    outh = Interp(sp).run(clh, a, b, ps)[0]
    a_lo, b_lo = 2 * ac[0] - ac[1], 2 * bc[0] - bc[1]               # sigma_0 - (sigma_1 - sigma_0)
    a_hi, b_hi = 2 * ac[-1] - ac[-2], 2 * bc[-1] - bc[-2]

    def src_sigma(ps_, aa, bb):
      return (aa + bb * ps_) / ps_
    for k in range(K):
      sk = float(sig.centers[k])
      r = _r(outh.a[k, 0, 0])
      expv = av + bv * Q(sk)
      brk = [aa / (sk - bb) for aa, bb in list(zip(ac, bc)) + [(a_lo, b_lo), (a_hi, b_hi)] if abs(sk - bb) > 1e-12]
      for (l, h) in _intervals(PS_LO, PS_HI, brk):
        pm = 0.5 * (l + h)
        reg = [psv > Q(l * (1 + 1e-9)), psv < Q(h * (1 - 1e-9))]
        inside = src_sigma(pm, a_lo, b_lo) < sk < src_sigma(pm, a_hi, b_hi)
        bad = z3.Or(r - expv > eps, expv - r > eps) if inside else (r != z3.RealVal(NAN))
        decide(ctx, 'hybrid_to_sigma.affine_columns_exact_within_one_cell_of_the_levels_missing_beyond', dict(conf, hybrid=hname, level=k, ps_interval=[l, h]),
               box + reg, bad, spec=reg,
               replay=col_replay(hyb_to_sigma, k, lambda a_, b_, ps_, sk=sk: (a_ + b_ * sk) if src_sigma(ps_, a_lo, b_lo) < sk < src_sigma(ps_, a_hi, b_hi) else np.nan))
  # surface pressure: piecewise-linear geopotential in pressure meets g * orography
  sp2 = TermSpace()
  geo = TermArr.variables(sp2, 'phi', (pc.layers, 1, 1)); oro = TermArr.variables(sp2, 'h', (1, 1, 1))
  g = 9.8
  cl3 = jax.make_jaxpr(lambda geo, oro: vi.get_surface_pressure(pc, geo, oro, g))(jnp.zeros((pc.layers, 1, 1)), jnp.zeros((1, 1, 1)))
  out3 = Interp(sp2).run(cl3, geo, oro)[0]
  psurf = _r(out3.a.reshape(-1)[0]); phis = [geo.a[k, 0, 0] for k in range(pc.layers)]; h = oro.a[0, 0, 0]
  # geopotential strictly decreasing with pressure (height decreases towards the surface)
  pre3 = [phis[k] - phis[k + 1] >= 1 for k in range(pc.layers - 1)] + [phis[0] <= 20000, phis[-1] >= -2000, h >= -100, h <= 1500]
  gh = h * Q(g)
  tol = Q(1e-6)
  for k in range(pc.layers - 1):
    seg = [gh < phis[k], gh > phis[k + 1]]
    dp = Q(P[k + 1] - P[k])
    phi_at = phis[k] + (psurf - Q(P[k])) / dp * (phis[k + 1] - phis[k])
    decide(ctx, 'surface_pressure.solves_geopotential_equals_g_orography', dict(conf, segment=k), pre3 + seg,
           z3.Or(phi_at - gh > tol, gh - phi_at > tol), spec=pre3 + seg)
  dp = Q(P[-1] - P[-2])
  phi_ext = phis[-2] + (psurf - Q(P[-2])) / dp * (phis[-1] - phis[-2])
  seg = [gh < phis[-1]]
  decide(ctx, 'surface_pressure.linear_extrapolation_below_lowest_level', conf, pre3 + seg, z3.Or(phi_ext - gh > tol, gh - phi_ext > tol), spec=pre3 + seg)
  dp = Q(P[1] - P[0])
  phi_top = phis[0] + (psurf - Q(P[0])) / dp * (phis[1] - phis[0])
  seg = [gh > phis[0]]
  decide(ctx, 'surface_pressure.linear_extrapolation_above_highest_level', conf, pre3 + seg, z3.Or(phi_top - gh > tol, gh - phi_top > tol), spec=pre3 + seg)
  # primitive_equations._vertical_interp (vmapped interp with per-column source coordinates): column-wise = 1-D interp
  sp3 = TermSpace()
  xq = TermArr.variables(sp3, 'x', (2,)); xs = TermArr.variables(sp3, 'xp', (3, 1, 1)); fs = TermArr.variables(sp3, 'fp', (3, 1, 1))
  cl4 = jax.make_jaxpr(pe._vertical_interp)(jnp.zeros(2), jnp.arange(3.0).reshape(3, 1, 1), jnp.zeros((3, 1, 1)))
  o4 = Interp(sp3).run(cl4, xq, xs, fs)[0]
  cl5 = jax.make_jaxpr(lambda x, xp, fp: jnp.interp(x, xp, fp))(0.5, jnp.arange(3.0), jnp.zeros(3))
  bad = []
  xpv = TermArr(xs.a[:, 0, 0], sp3); fpv = TermArr(fs.a[:, 0, 0], sp3)
  nodes = list(xpv.a)
  pre5 = [nodes[i + 1] - nodes[i] >= Q(1e-3) for i in range(2)] + [nodes[0] >= -2, nodes[-1] <= 2]
  for q_ in range(2):
    o5 = Interp(sp3).run(cl5, TermArr(np.array(xq.a[q_], dtype=object).reshape(()), sp3), xpv, fpv)[0]
    bad.append(_r(o4.a[q_, 0, 0]) != _r(o5.a.reshape(-1)[0]))
  decide(ctx, 'vertical_interp_wrapper.acts_column_wise_like_interp', conf, pre5, z3.Or(*bad), timeout=60000)


def task_horizontal(ctx, src, tgt, same):
  """Bilinear / nearest horizontal regridding: constants reproduced; identity between equal grids."""
  from dinosaur import horizontal_interpolation as hi
  gs, gt = grids.make_grid(src), grids.make_grid(tgt)
  ctx.encoded(hi.BilinearRegridder.__call__, hi.NearestRegridder.__call__, hi.NearestRegridder.nearest_neighbor_2d, hi.nearest_neighbor_indices)
  conf = dict(source=grids.cfg_name(src), target=grids.cfg_name(tgt))
  sp = Space(bits=12)
  c = PolyArr.variables(sp, 'c', ())
  f = PolyArr.variables(sp, 'f', gs.nodal_shape)
  for rname, cls in (('bilinear', hi.BilinearRegridder), ('nearest', hi.NearestRegridder)):
    rg = cls(gs, gt)
    if rname == 'bilinear':
      # jnp.interp on concrete coordinates with symbolic data is linear in the data: use the term-free affine route
      import jax
      W = np.asarray(jax.jacfwd(lambda z: rg(z))(jnp.zeros(gs.nodal_shape)))      # concrete interpolation matrix of the real code
      lin_ok = True
      apply = lambda z: jnp.einsum('acbd,bd->ac', W, z)
      # the Jacobian is the map itself iff the map is linear and homogeneous: checked on symbolic data below via the term domain for a row sample
      prove_close(ctx, f'{rname}.constants_reproduced', lambda c: (apply(jnp.ones(gs.nodal_shape) * c), jnp.ones(gt.nodal_shape) * c), [c], sp,
                  config=dict(conf, note='interpolation matrix = Jacobian of the real regridder'), scale_floor=1.0)
      if same:
        prove_close(ctx, f'{rname}.identity_between_equal_grids', lambda f: (apply(f), f), [f], sp, config=conf, scale_floor=1.0)
      # range: weights non-negative with unit row sums
      wmin = float(W.min()); rs = float(np.abs(W.sum(axis=(2, 3)) - 1).max())
      ctx.clause(f'{rname}.weights_nonnegative_rows_sum_to_one', 'discharged' if (wmin >= -1e-12 and rs <= 1e-9) else 'failed', config=conf, queries=0, min_weight=wmin, row_sum_err=rs)
      if not (wmin >= -1e-12 and rs <= 1e-9):
        ctx.violation(f'{rname}.weights_nonnegative_rows_sum_to_one', dict(config=conf), dict(min_weight=wmin, row_sum_err=rs), 'bilinear weights are not a convex combination')
    else:
      prove_close(ctx, f'{rname}.constants_reproduced', lambda c: (rg(jnp.ones(gs.nodal_shape) * c), jnp.ones(gt.nodal_shape) * c), [c], sp, config=conf, scale_floor=1.0)
      outs, td, it = harness.interpret(lambda f: rg(f), [f], sp)
      # pure selection: every output is exactly one input
      M = outs[0].M.tocsr()
      sel = all((M.indptr[r + 1] - M.indptr[r] == 1) and M.data[M.indptr[r]] == 1.0 and M.indices[M.indptr[r]] != 0 for r in range(M.shape[0]))
      ctx.clause(f'{rname}.every_output_is_one_input_value', 'discharged' if sel else 'failed', config=conf, queries=0)
      if not sel:
        ctx.violation(f'{rname}.every_output_is_one_input_value', dict(config=conf), {}, 'nearest regridding is not a pure selection')
      if same:
        prove_close(ctx, f'{rname}.identity_between_equal_grids', lambda f: (rg(f), f), [f], sp, exact=True, twin=False, config=conf)


def make_tasks(tier, seed):
  NS = node_sets(seed)
  tasks = []
  for rn in ROUTINES:
    for sn, xp in NS.items():
      if tier == 'quick' and sn == 'n6' and rn not in ('interp', 'linear_interp_with_linear_extrap'):
        continue
      if rn.startswith('_linear_interp_with_safe') and len(xp) < 2:
        continue
      tasks.append(dict(name=f'{rn}-{sn}', fn='task_routine', kw=dict(rname=rn, sname=sn, xp=xp.tolist())))
  for sn in ('n3', 'n4-uneven', 'n6'):
    tasks.append(dict(name=f'branches-{sn}', fn='task_branches_equal', kw=dict(sname=sn, xp=NS[sn].tolist())))
  for rn, n in (('jnp.interp', 2), ('jnp.interp', 3), ('_dot_interp', 3), ('linear_interp_with_linear_extrap', 3)):
    tasks.append(dict(name=f'symbolic-nodes-{rn}-{n}', fn='task_symbolic_nodes', kw=dict(rname=rn, n=n)))
  from dverif import models
  LS = models.level_sets(seed)
  for ln in ('dy3', 'eq5'):
    tasks.append(dict(name=f'columns-{ln}', fn='task_columns', kw=dict(levels=LS[ln].tolist(), lname=ln)))
  # as many sigma layers as pressure levels (6): a field left on its source levels has the right shape
  tasks.append(dict(name='columns-un6', fn='task_columns', kw=dict(levels=[0.0, 0.1, 0.25, 0.45, 0.7, 0.9, 1.0], lname='un6')))
  g1 = dict(M=3, L=4, nlon=8, nlat=5); g2 = dict(M=3, L=4, nlon=12, nlat=6, offset=0.2)
  tasks.append(dict(name='horizontal-same', fn='task_horizontal', kw=dict(src=g1, tgt=g1, same=True)))
  tasks.append(dict(name='horizontal-different', fn='task_horizontal', kw=dict(src=g2, tgt=g1, same=False)))
  # grids whose longitudes leave [0, 2 pi): negative offset, offset of several cells, data on [-180, 180); equiangular latitudes
  for k, off in enumerate((-0.1, 1.0471975511965976, -3.141592653589793, 5.5)):
    go = dict(M=3, L=4, nlon=8, nlat=5 if k % 2 == 0 else 6, offset=off, spacing='gauss' if k % 2 == 0 else 'equiangular')
    tasks.append(dict(name=f'horizontal-same-offset{k}', fn='task_horizontal', kw=dict(src=go, tgt=go, same=True)))
  tasks.append(dict(name='horizontal-different-offsets', fn='task_horizontal', kw=dict(src=dict(M=3, L=4, nlon=12, nlat=6, offset=-0.3), tgt=dict(M=3, L=4, nlon=8, nlat=5, offset=2.0), same=False)))
  return tasks


def main(tier='quick', seed=0, jobs=None, only=None, t0=None):
  t0 = t0 or time.time()
  tasks = make_tasks(tier, seed)
  if only:
    tasks = [t for t in tasks if only in t['name']]
  results = harness.run_tasks(MOD, tasks, PID, seed, tier, jobs)
  return harness.finalize(
      PID, tier, seed, results, t0,
      explanation='Each interpolation routine is traced (scan-based searchsorted, clamped dynamic_slice, comparison masks included) and interpreted to z3 '
                  'terms with a SYMBOLIC query point and data (nodes concrete uneven sets up to 6; symbolic for n <= 3); the solver decides value at nodes, '
                  'agreement with the reference interpolant, neighbour bounds, affine exactness and the documented extrapolation (constant / unlimited linear / '
                  'n cells then missing), equality of both interp code paths, sigma<->pressure on affine columns and the surface-pressure equation.',
      bounds=dict(tasks=len(tasks), data_box='[-1,1]', query_range='5 spans beyond the nodes', eps='1e-9', nan='modelled by the out-of-range sentinel 1e9 in final select positions'),
      assumptions=['real-arithmetic semantics (the |dx| <= 4.9e-32 guard of jnp.interp is interpreted as traced)', 'strictly increasing nodes (documented precondition)'],
      trusted=['JAX tracing', 'dverif interpreter', 'z3'],
      outside=['NearestRegridder index table (scikit-learn BallTree, compiled): given the table the map is a pure selection (checked); the table itself is only checked concretely',
               'limits of the NaN zone are excluded by a 1e-9 margin (they are rounded sums in the code)'])
