"""C11 — structural invariants survive any number of steps (proved as one inductive step)."""
from __future__ import annotations

import time
import numpy as np

import dverif  # noqa: F401
import jax
import jax.numpy as jnp
from jax.interpreters import partial_eval as jpe

from dverif import grids, harness, models
from dverif.harness import prove_close
from dverif.poly import Space, PolyArr
from dverif.jsym import Interp

PID = 'C11'
MOD = 'checks.c11'

INTEGRATORS = ['backward_forward_euler', 'crank_nicolson_rk2', 'crank_nicolson_rk3', 'crank_nicolson_rk4', 'imex_rk_sil3']


def task_operators(ctx, cfg, levels, lname, kind):
  """(a) F(x) lies in the invariant subspace V for EVERY modal array x; (b) G and G^-1 map V into V."""
  from dinosaur import primitive_equations as pe
  coords = models.make_coords(cfg, levels)
  grid = coords.horizontal
  K = coords.vertical.layers
  specs = models.unit_specs()
  rng = np.random.default_rng(2)
  base, zm = models.admissible_masks(grid)
  oro = rng.uniform(-0.3, 0.3, grid.modal_shape) * grid.mask   # incl. the top wavenumber (un-clipped orography)
  tref = np.linspace(1.0, 1.4, K)
  cls = {'dry': pe.PrimitiveEquations, 'moist': pe.MoistPrimitiveEquations}[kind]
  eq = cls(tref, oro, coords, specs)
  ctx.encoded(cls.explicit_terms, cls.implicit_terms, cls.implicit_inverse, type(grid).clip_wavenumbers)
  ms = coords.modal_shape; ss = coords.surface_modal_shape
  m, l = grid.modal_mesh
  L = grid.total_wavenumbers
  outside = (~grid.mask) | (l >= L - 1)          # complement of V (per horizontal slice)
  mean = (m == 0) & (l == 0) & grid.mask
  tr = ['specific_humidity'] if kind == 'moist' else ['passive']
  conf = dict(grid=grids.cfg_name(cfg), levels=lname, kind=kind)

  def mk(v, d, t, p, q):
    if kind == 'moist':
      return pe.StateWithTime(v, d, t, p, 0.0, {tr[0]: q})
    return pe.State(v, d, t, p, {tr[0]: q})

  def leaves(s):
    return (s.vorticity, s.divergence, s.temperature_variation, s.log_surface_pressure, s.tracers[tr[0]])
  # (a) arbitrary modal arrays: every entry symbolic (also outside the mask and the top wavenumber)
  sp = Space(bits=10)
  tb = 0.01 if kind == 'moist' else 1.0
  if kind == 'dry':
    xs = [PolyArr.variables(sp, n, shp, -b, b) for n, shp, b in (('vor', ms, 1.0), ('div', ms, 1.0), ('T', ms, 1.0), ('lsp', ss, 1.0), (tr[0], ms, tb))]
  else:
    # moist: entries inside the truncation incl. the top wavenumber (entries outside the mask never influence: C01)
    xs = models.pe_state_vars(sp, coords, tracers=tr, tracer_box={tr[0]: tb}, free_top=True)
  z = lambda shp: jnp.zeros(shp)
  pre = harness.interpret(lambda *a: (leaves(eq.explicit_terms(mk(*a))), (z(ms), z(ms), z(ms), z(ss), z(ms))), xs, sp)
  prove_close(ctx, 'a.explicit_terms_zero_outside_truncation_and_top_wavenumber',
              lambda *a: (leaves(eq.explicit_terms(mk(*a))), (z(ms), z(ms), z(ms), z(ss), z(ms))), xs, sp,
              select=[np.broadcast_to(outside, ms)] * 3 + [np.broadcast_to(outside, ss), np.broadcast_to(outside, ms)],
              exact=True, twin=False, config=conf, pre=pre)
  none_ms = np.zeros(ms, bool)
  if kind == 'dry':
    # structurally zero for every modal array
    prove_close(ctx, 'a.global_mean_vorticity_divergence_tendency_zero',
                lambda *a: (leaves(eq.explicit_terms(mk(*a))), (z(ms), z(ms), z(ms), z(ss), z(ms))), xs, sp,
                select=[np.broadcast_to(mean, ms)] * 2 + [none_ms, np.zeros(ss, bool), none_ms],
                exact=True, twin=False, config=dict(conf, states='arbitrary modal arrays'), pre=pre, validate=False)
  else:
    # the humidity corrections reach the (0,0) entry through a quadrature: zero mean (Gauss theorem) on
    # invariant-satisfying (alias-free) states, to rounding
    spm = Space(bits=10)
    xm = models.pe_state_vars(spm, coords, tracers=tr, tracer_box={tr[0]: tb})
    prove_close(ctx, 'a.global_mean_vorticity_divergence_tendency_zero',
                lambda *a: (leaves(eq.explicit_terms(mk(*a)))[:2], (z(ms), z(ms))), xm, spm,
                select=[np.broadcast_to(mean, ms)] * 2, twin=False, scale_floor=1.0,
                config=dict(conf, states='admissible (top wavenumber clipped)'))
  # (b) G and G^-1 on V
  sp2 = Space(bits=14)
  inV = grid.mask & (l <= L - 2)
  zmV = inV & (l >= 1)
  b_ = lambda msk, shp: np.broadcast_to(msk, shp)
  ys = [PolyArr.variables(sp2, 'vor', ms, free=b_(zmV, ms)), PolyArr.variables(sp2, 'div', ms, free=b_(zmV, ms)),
        PolyArr.variables(sp2, 'T', ms, free=b_(inV, ms)), PolyArr.variables(sp2, 'lsp', ss, free=b_(inV, ss)),
        PolyArr.variables(sp2, tr[0], ms, free=b_(inV, ms))]
  compl = outside | mean
  sel = [b_(compl, ms), b_(compl, ms), b_(outside, ms), b_(outside, ss), b_(outside, ms)]
  for eta in (0.1, -1.0):
    def GandInv(*a, eta=eta):
      s = mk(*a)
      return leaves(eq.implicit_terms(s)) + leaves(eq.implicit_inverse(s, eta)), tuple(z(x.shape) for x in a) * 2
    prove_close(ctx, 'b.implicit_terms_and_inverse_preserve_invariant_subspace', GandInv, ys, sp2, select=sel * 2,
                exact=True, twin=False, config=dict(conf, eta=eta))


def task_uniform_tracer(ctx, cfg, levels, lname):
  from dinosaur import primitive_equations as pe
  coords = models.make_coords(cfg, levels)
  grid = coords.horizontal
  K = coords.vertical.layers
  eq = pe.PrimitiveEquations(np.linspace(1.0, 1.4, K), np.zeros(grid.modal_shape), coords, models.unit_specs())
  ctx.encoded(pe.PrimitiveEquations.horizontal_scalar_advection, pe.PrimitiveEquations._vertical_tendency)
  sp = Space(bits=10)
  xs = models.pe_state_vars(sp, coords)
  q0 = PolyArr.variables(sp, 'q0', ())
  ms = coords.modal_shape
  c = float(np.sqrt(4 * np.pi))

  def f(v, d, t, p, q0):
    q = jnp.zeros(ms).at[:, 0, 0].set(q0 * c)
    e = eq.explicit_terms(pe.State(v, d, t, p, {'q': q})) + eq.implicit_terms(pe.State(v, d, t, p, {'q': q}))
    return e.tracers['q'], jnp.zeros(ms)
  prove_close(ctx, 'a.uniform_tracer_stays_uniform', f, xs + [q0], sp, config=dict(grid=grids.cfg_name(cfg), levels=lname),
              scale_floor=1.0, twin=False)


def _standin_equation(nF, nG, nI):
  """ImEx ODE whose operators return FRESH symbolic values on the invariant part (a) and obey the
  subspace contracts on the complement part (b) and the clock (t):
     F: b -> 0, t -> 1 ;  G: b -> kappa*b, t -> 0 ;  G^-1: b -> rho_k*b, t -> t."""
  from dinosaur import time_integration as ti
  counters = dict(F=0, G=0, I=0)
  store = {}

  def explicit(s):
    k = counters['F']; counters['F'] += 1
    return dict(a=store['fa'][k], b=jnp.zeros(()), t=jnp.ones(()))

  def implicit(s):
    k = counters['G']; counters['G'] += 1
    return dict(a=store['ga'][k], b=store['kappa'] * s['b'], t=jnp.zeros(()))

  def inverse(s, eta):
    k = counters['I']; counters['I'] += 1
    return dict(a=store['ia'][k], b=store['rho'][k] * s['b'], t=s['t'])
  eq = ti.ImplicitExplicitODE.from_functions(explicit, implicit, inverse)
  return eq, counters, store


def task_integrators(ctx):
  """(c)+(d): every integrator (and filtered step) only forms linear combinations of operator results,
  so the complement of the invariant subspace stays exactly 0 and the clock advances by dt."""
  from dinosaur import time_integration as ti
  dt = 0.3
  ctx.encoded(ti.backward_forward_euler, ti.crank_nicolson_rk2, ti.low_storage_runge_kutta_crank_nicolson, ti.crank_nicolson_rk3,
              ti.crank_nicolson_rk4, ti.imex_runge_kutta, ti.imex_rk_sil3, ti.semi_implicit_leapfrog, ti.step_with_filters,
              ti.robert_asselin_leapfrog_filter)
  N = 12
  for name in INTEGRATORS + ['semi_implicit_leapfrog', 'semi_implicit_leapfrog+robert_asselin']:
    eq, counters, store = _standin_equation(N, N, N)
    sp = Space(bits=10)
    fa = PolyArr.variables(sp, 'F', (N,)); ga = PolyArr.variables(sp, 'G', (N,)); ia = PolyArr.variables(sp, 'Ginv', (N,))
    rho = PolyArr.variables(sp, 'rho', (N,)); kappa = PolyArr.variables(sp, 'kappa', ())
    a0 = PolyArr.variables(sp, 'a0', ()); t0 = PolyArr.variables(sp, 't0', (), -100.0, 100.0)
    a1 = PolyArr.variables(sp, 'a1', ())

    def run(fa, ga, ia, rho, kappa, a0, a1, t0, name=name):
      store.update(fa=fa, ga=ga, ia=ia, rho=rho, kappa=kappa)
      for k in counters: counters[k] = 0
      u0 = dict(a=a0, b=jnp.zeros(()), t=t0)
      if name.startswith('semi_implicit_leapfrog'):
        step = ti.semi_implicit_leapfrog(eq, dt)
        if '+' in name:
          step = ti.step_with_filters(step, [ti.robert_asselin_leapfrog_filter(0.05)])
        prev = dict(a=a1, b=jnp.zeros(()), t=t0 - dt)
        cur, fut = step((prev, u0))
        # leapfrog advances from t-dt (previous) by 2 dt
        return (fut['b'], cur['b'], fut['t']), (jnp.zeros(()), jnp.zeros(()), t0 + dt)
      step = getattr(ti, name)(eq, dt)
      u1 = step(u0)
      return (u1['b'], u1['t']), (jnp.zeros(()), t0 + dt)
    args = [fa, ga, ia, rho, kappa, a0, a1, t0]
    outs, td, it = harness.interpret(run, args, sp)
    nb = 2 if name.startswith('semi') else 1
    # complement: exact; clock: 1e-12 (13-digit tables)
    tree = jax.tree_util.tree_unflatten(td, outs)
    prove_close(ctx, 'c.complement_of_invariant_subspace_stays_zero', lambda *a: (run(*a)[0][:nb], run(*a)[1][:nb]), args, sp,
                exact=True, twin=False, config=dict(integrator=name), validate=False)
    prove_close(ctx, 'd.clock_advances_by_dt', lambda *a: (run(*a)[0][nb], run(*a)[1][nb]), args, sp,
                eps=1e-12, scale_floor=1.0, config=dict(integrator=name, dt=dt), validate=False)


def task_sim_time_real(ctx, cfg, levels, lname, kind):
  """(d) on the real equation classes: the sim_time output of one step of every integrator (jaxpr
  dead-code-eliminated to that output) is t + dt; solve and filters leave it untouched."""
  from dinosaur import primitive_equations as pe, time_integration as ti, filtering
  coords = models.make_coords(cfg, levels)
  grid = coords.horizontal
  K = coords.vertical.layers
  cls = {'time': pe.PrimitiveEquationsWithTime, 'moist': pe.MoistPrimitiveEquations}[kind]
  eq = cls(np.linspace(1.0, 1.4, K), np.zeros(grid.modal_shape), coords, models.unit_specs())
  ctx.encoded(cls.explicit_terms, cls.implicit_terms, cls.implicit_inverse)
  ms = coords.modal_shape; ss = coords.surface_modal_shape
  tr = {'specific_humidity': jnp.zeros(ms)} if kind == 'moist' else {}
  dt = 0.02
  for name in INTEGRATORS + ['semi_implicit_leapfrog']:
    def stepfn(v, d, t, p, tt, name=name):
      s = pe.StateWithTime(v, d, t, p, tt, dict(tr))
      if name == 'semi_implicit_leapfrog':
        prev = pe.StateWithTime(v, d, t, p, tt - dt, dict(tr))
        _, fut = ti.semi_implicit_leapfrog(eq, dt)((prev, s))
        return fut.sim_time
      return getattr(ti, name)(eq, dt)(s).sim_time
    ex = [jnp.zeros(ms)] * 3 + [jnp.zeros(ss), jnp.zeros(())]
    closed = jax.make_jaxpr(stepfn)(*ex)
    dced, used = jpe.dce_jaxpr(closed.jaxpr, [True])
    sp = Space(bits=10)
    tt = PolyArr.variables(sp, 't', (), -1000.0, 1000.0)
    allargs = [np.zeros(ms)] * 3 + [np.zeros(ss), tt]
    args = [a for a, u in zip(allargs, used) if u]
    out = Interp(sp).eval(dced, closed.consts, *args)[0]
    nstate_inputs_used = sum(bool(u) for u in used[:4])
    # decide out == t + dt
    import jax.tree_util as jtu
    prove_close(ctx, 'd.sim_time_advances_by_dt.real_equation', None, [tt], sp, eps=1e-12, scale_floor=1.0,
                config=dict(integrator=name, kind=kind, dt=dt, state_inputs_reaching_clock=nstate_inputs_used),
                pre=([out, tt.add(dt)], jtu.tree_structure((0, 0)), Interp(sp)), validate=False)
  # solve and filters: identical object / exact value
  s = pe.StateWithTime(jnp.ones(ms), jnp.ones(ms), jnp.ones(ms), jnp.ones(ss), jnp.asarray(3.25), dict(tr))
  inv = eq.implicit_inverse(s, 0.1)
  filt = filtering.exponential_filter(grid)(s)
  filt2 = filtering.horizontal_diffusion_filter(grid, 0.01)(s)
  stepf = ti.exponential_step_filter(grid, dt)(s, s)
  same = all(x.sim_time is s.sim_time for x in (filt, filt2, stepf)) and float(inv.sim_time) == 3.25
  ctx.clause('d.solve_and_filters_leave_clock_untouched', 'discharged' if same else 'failed', config=dict(kind=kind), queries=0)
  if not same:
    ctx.violation('d.solve_and_filters_leave_clock_untouched', dict(config=dict(kind=kind)), {}, 'sim_time modified by filter or solve')


def task_direct_step(ctx, cfg, levels, lname, stepper):
  """Direct inductive step on the real dry equations: admissible state -> admissible state, means kept."""
  from dinosaur import primitive_equations as pe, time_integration as ti, filtering
  coords = models.make_coords(cfg, levels)
  grid = coords.horizontal
  K = coords.vertical.layers
  rng = np.random.default_rng(4)
  base, zm = models.admissible_masks(grid)
  eq = pe.PrimitiveEquations(np.linspace(1.0, 1.4, K), rng.uniform(-0.3, 0.3, grid.modal_shape) * grid.mask, coords, models.unit_specs())
  ms = coords.modal_shape; ss = coords.surface_modal_shape
  m, l = grid.modal_mesh
  outside = (~grid.mask) | (l >= grid.total_wavenumbers - 1)
  mean = (m == 0) & (l == 0)
  sp = Space(bits=10)
  dt = 0.05
  filt = ti.exponential_step_filter(grid, dt, tau=0.1, order=2)
  b_ = np.broadcast_to
  # invariant-satisfying state with ARBITRARY global means of vorticity / divergence
  def svars(prefix):
    xs = models.pe_state_vars(sp, coords, prefix=prefix)
    vm = PolyArr.variables(sp, prefix + 'vmean', (K,)); dm = PolyArr.variables(sp, prefix + 'dmean', (K,))
    return xs, vm, dm
  xs, vm, dm = svars('')
  if stepper == 'euler':
    step = ti.step_with_filters(ti.backward_forward_euler(eq, dt), [filt])

    def f(v, d, t, p, vm, dm):
      v = v.at[:, 0, 0].set(vm); d = d.at[:, 0, 0].set(dm)
      o = step(pe.State(v, d, t, p))
      return (o.vorticity, o.divergence, o.temperature_variation, o.log_surface_pressure), (v, d, t, p)
    args = xs + [vm, dm]
  else:
    ys, vm2, dm2 = svars('prev_')
    lf = ti.step_with_filters(ti.semi_implicit_leapfrog(eq, dt), [ti.leapfrog_step_filter(filtering.exponential_filter(grid, 0.5, 2)), ti.robert_asselin_leapfrog_filter(0.05)])

    def f(v, d, t, p, vm, dm, v0, d0, t0, p0):
      # both time levels share the same global means (the invariant being propagated)
      v = v.at[:, 0, 0].set(vm); d = d.at[:, 0, 0].set(dm); v0 = v0.at[:, 0, 0].set(vm); d0 = d0.at[:, 0, 0].set(dm)
      cur, fut = lf((pe.State(v0, d0, t0, p0), pe.State(v, d, t, p)))
      return ((fut.vorticity, fut.divergence, fut.temperature_variation, fut.log_surface_pressure, cur.vorticity, cur.divergence),
              (v, d, t, p, v, d))
    args = xs + [vm, dm] + ys
  pre = harness.interpret(f, args, sp)
  conf = dict(grid=grids.cfg_name(cfg), levels=lname, stepper=stepper, dt=dt)
  nl = 4 if stepper == 'euler' else 6
  sel_out = [b_(outside, ms), b_(outside, ms), b_(outside, ms), b_(outside, ss), b_(outside, ms), b_(outside, ms)][:nl]
  zeros = lambda *a: None
  # entries outside V are exactly zero after the step (compare with 0 by selecting where the input is 0 too)
  prove_close(ctx, 'e.step_keeps_truncation_and_top_wavenumber_zero', f, args, sp, select=sel_out, exact=True, twin=False, config=conf, pre=pre)
  sel_mean = [b_(mean, ms), b_(mean, ms)] + [np.zeros(ms, bool), np.zeros(ss, bool)] + ([b_(mean, ms), b_(mean, ms)] if nl == 6 else [])
  prove_close(ctx, 'e.step_keeps_global_mean_vorticity_divergence', f, args, sp, select=sel_mean, config=conf, pre=pre, scale_floor=1.0, validate=False)


def task_sw(ctx, cfg):
  from dinosaur import shallow_water as sw, coordinate_systems as cs, layer_coordinates as lc, scales, time_integration as ti
  grid = grids.make_grid(cfg)
  nl = 2
  coords = cs.CoordinateSystem(grid, lc.LayerCoordinates(nl))
  specs = sw.ShallowWaterSpecs(densities=np.array([1.0, 1.2]), radius=float(grid.radius), angular_velocity=1.0, gravity_acceleration=1.0, scale=scales.DEFAULT_SCALE)
  base, zm = models.admissible_masks(grid)
  rng = np.random.default_rng(9)
  eq = sw.ShallowWaterEquations(coords, specs, rng.uniform(-0.2, 0.2, grid.modal_shape) * grid.mask, np.array([1.0, 1.5]))
  ctx.encoded(sw.ShallowWaterEquations.explicit_terms, sw.ShallowWaterEquations.implicit_terms, sw.ShallowWaterEquations.implicit_inverse)
  ms = (nl,) + grid.modal_shape
  m, l = grid.modal_mesh
  outside = (~grid.mask) | (l >= grid.total_wavenumbers - 1)
  mean = (m == 0) & (l == 0)
  sp = Space(bits=10)
  b_ = np.broadcast_to
  v = PolyArr.variables(sp, 'v', ms, free=b_(zm, ms)); d = PolyArr.variables(sp, 'd', ms, free=b_(zm, ms)); p = PolyArr.variables(sp, 'p', ms, free=b_(base, ms))
  dt = 0.05
  step = ti.backward_forward_euler(eq, dt)

  def f(v, d, p):
    o = step(sw.State(v, d, p))
    return (o.vorticity, o.divergence, o.potential), (v, d, p)
  pre = harness.interpret(f, [v, d, p], sp)
  conf = dict(grid=grids.cfg_name(cfg), dt=dt)
  prove_close(ctx, 'sw.step_keeps_truncation_zero', f, [v, d, p], sp, select=[b_(outside, ms)] * 3, exact=True, twin=False, config=conf, pre=pre)
  prove_close(ctx, 'sw.step_conserves_mean_thickness_vorticity_divergence', f, [v, d, p], sp, select=[b_(mean, ms)] * 3, config=conf, pre=pre,
              scale_floor=1.0, validate=False)


def task_filters(ctx, cfg):
  """Every shipped filter / step filter, with its options (order, cutoff, per-level strengths), maps the invariant set into itself:
  the global-mean entries (0,0) of every leaf are returned exactly as they came (so means, mean thickness and a uniform tracer
  survive any filter stack), entries outside the truncation / at the clipped top wavenumber stay exactly zero, and the clock is
  the identical object.  All coefficients of the filtered state are symbolic."""
  from dinosaur import time_integration as ti, filtering, primitive_equations as pe
  grid = grids.make_grid(cfg)
  K = 3
  ms = (K,) + grid.modal_shape
  m, l = grid.modal_mesh
  outside = (~grid.mask) | (l >= grid.total_wavenumbers - 1)
  mean = (m == 0) & (l == 0)
  base, zm = models.admissible_masks(grid)
  b_ = np.broadcast_to
  dt = 0.05
  lev = np.array([1.0, 0.5, 0.0])[:, None, None]          # per-level (sponge-like) strengths, one level unfiltered
  F = {
      'exponential(a=16,o=18,c=0)': filtering.exponential_filter(grid),
      'exponential(a=16,o=18,c=0.4)': filtering.exponential_filter(grid, 16, 18, 0.4),
      'exponential(a=4,o=2,c=0.65)': filtering.exponential_filter(grid, 4.0, 2, 0.65),
      'exponential(a=levels,o=3,c=0.5)': filtering.exponential_filter(grid, 8.0 * lev, 3, 0.5),
      'diffusion(o=1)': filtering.horizontal_diffusion_filter(grid, 0.01, 1),
      'diffusion(o=3,levels)': filtering.horizontal_diffusion_filter(grid, 1e-4 * lev, 3),
  }
  S = {
      'exponential_step(c=0)': ti.exponential_step_filter(grid, dt, 0.1, 4, 0.0),
      'exponential_step(c=0.45)': ti.exponential_step_filter(grid, dt, 0.1, 18, 0.45),
      'exponential_step(c=0.7,o=2)': ti.exponential_step_filter(grid, dt, 0.02, 2, 0.7),
      'horizontal_diffusion_step(o=2)': ti.horizontal_diffusion_step_filter(grid, dt, 0.2, 2),
  }
  L = {
      'exponential_leapfrog_step(c=0.5)': ti.exponential_leapfrog_step_filter(grid, dt, 0.1, 6, 0.5),
      'robert_asselin(0.05)': ti.robert_asselin_leapfrog_filter(0.05),
  }
  ctx.encoded(filtering.exponential_filter, filtering.horizontal_diffusion_filter, filtering._make_filter_fn, ti.exponential_step_filter,
              ti.horizontal_diffusion_step_filter, ti.exponential_leapfrog_step_filter, ti.robert_asselin_leapfrog_filter, ti.runge_kutta_step_filter, ti.leapfrog_step_filter)

  def state_vars(sp, prefix):
    v = PolyArr.variables(sp, prefix + 'v', ms, free=b_(grid.mask & ~outside, ms))        # arbitrary means included
    t = PolyArr.variables(sp, prefix + 'T', ms, free=b_(base, ms))
    q = PolyArr.variables(sp, prefix + 'q', ms, free=b_(base, ms))
    p = PolyArr.variables(sp, prefix + 'p', (1,) + grid.modal_shape, free=b_(base, (1,) + grid.modal_shape))
    return [v, t, q, p]

  def mk(v, t, q, p):
    return pe.StateWithTime(v, v * 0.5, t, p, 1.25, {'q': q})

  def leaves(s):
    return (s.vorticity, s.divergence, s.temperature_variation, s.log_surface_pressure, s.tracers['q'])
  shapes = [ms, ms, ms, (1,) + grid.modal_shape, ms]
  sel_out = [b_(outside, sh) for sh in shapes]
  sel_mean = [b_(mean, sh) for sh in shapes]
  for name, flt in list(F.items()) + list(S.items()) + list(L.items()):
    sp = Space(bits=14)
    xs = state_vars(sp, '')
    conf = dict(grid=grids.cfg_name(cfg), filter=name, K=K)
    if name in F:
      g = lambda *a: (leaves(flt(mk(*a))), leaves(mk(*a))); args = xs
      clock = flt(mk(*[jnp.zeros(x.shape) for x in xs])).sim_time
    elif name in S:
      ys = state_vars(sp, 'u_')
      g = lambda *a: (leaves(flt(mk(*a[4:]), mk(*a[:4]))), leaves(mk(*a[:4]))); args = xs + ys
      clock = flt(mk(*[jnp.zeros(x.shape) for x in xs]), mk(*[jnp.zeros(x.shape) for x in xs])).sim_time
    else:
      ys = state_vars(sp, 'u_')
      # leapfrog filters act on (u, (current, future)) and return (current', future'): both time levels must keep their own means
      def g(*a, flt=flt):
        cur, fut = flt((mk(*a[4:]), mk(*a[4:])), (mk(*a[4:]), mk(*a[:4])))
        return leaves(fut) + leaves(cur), leaves(mk(*a[:4])) + leaves(mk(*a[4:]))
      args = xs + ys
      clock = None
    nrep = 2 if name in L else 1
    pre = harness.interpret(g, args, sp)
    prove_close(ctx, 'f.filter_keeps_truncation_and_top_wavenumber_zero', g, args, sp, select=sel_out * nrep, exact=True, twin=False, config=conf, pre=pre)
    if name.startswith('robert'):
      # Robert-Asselin mixes time levels: means are preserved when both levels (and the discarded one) share them - covered by the direct leapfrog step
      continue
    prove_close(ctx, 'f.filter_preserves_global_means_exactly', g, args, sp, select=sel_mean * nrep, eps=1e-12, twin=False, config=conf, pre=pre, validate=False)
    if clock is not None:
      same = float(clock) == 1.25
      ctx.clause('f.filter_leaves_clock_untouched', 'discharged' if same else 'failed', config=conf, queries=0)
      if not same:
        ctx.violation('f.filter_leaves_clock_untouched', dict(config=conf), {}, f'{name}: sim_time changed to {float(clock)}')


def task_sw_trajectory(ctx, cfg, outer=2):
  """Invariants along a multi-step shallow-water TRAJECTORY produced by the library's own builder (semi-implicit leapfrog, exponential and
  Robert-Asselin filters, trajectory_from_step): in every saved frame the entries outside the truncation / at the top wavenumber are exactly
  zero, and the global means of vorticity, divergence and layer thickness equal the (shared) means of the two starting time levels."""
  from dinosaur import shallow_water as sw, coordinate_systems as cs, layer_coordinates as lc, scales
  grid = grids.make_grid(cfg)
  nl = 2
  coords = cs.CoordinateSystem(grid, lc.LayerCoordinates(nl))
  specs = sw.ShallowWaterSpecs(densities=np.array([1.0, 1.3]), radius=float(grid.radius), angular_velocity=1.0, gravity_acceleration=1.0, scale=scales.DEFAULT_SCALE)
  base, zm = models.admissible_masks(grid)
  rng = np.random.default_rng(19)
  oro = rng.uniform(-0.2, 0.2, grid.modal_shape) * grid.mask              # un-clipped orography
  dt = 0.05
  traj = sw.shallow_water_leapfrog_trajectory(coords, dt, specs, inner_steps=1, outer_steps=outer, mean_potential=np.array([1.0, 1.6]), orography=oro,
                                              filters=sw.default_filters(grid, dt), alpha=0.5)
  ctx.encoded(sw.shallow_water_leapfrog_trajectory, sw.default_filters)
  ms = (nl,) + grid.modal_shape
  m, l = grid.modal_mesh
  outside = (~grid.mask) | (l >= grid.total_wavenumbers - 1)
  mean = (m == 0) & (l == 0)
  sp = Space(bits=10)
  b_ = np.broadcast_to
  mk = lambda pre: [PolyArr.variables(sp, pre + 'v', ms, free=b_(zm, ms)), PolyArr.variables(sp, pre + 'd', ms, free=b_(zm, ms)), PolyArr.variables(sp, pre + 'p', ms, free=b_(zm, ms))]
  pm = PolyArr.variables(sp, 'pmean', (nl,))         # shared global mean of the potential (layer thickness) of both time levels

  def f(v0, d0, p0, v1, d1, p1, pm):
    p0 = p0.at[:, 0, 0].set(pm); p1 = p1.at[:, 0, 0].set(pm)
    _, fr = traj((sw.State(v0, d0, p0), sw.State(v1, d1, p1)))
    ref = jnp.broadcast_to(p1[None], fr.potential.shape)
    return (fr.vorticity, fr.divergence, fr.potential), (jnp.zeros_like(fr.vorticity), jnp.zeros_like(fr.divergence), ref)
  args = mk('a') + mk('b') + [pm]
  pre = harness.interpret(f, args, sp)
  fshape = (outer,) + ms
  conf = dict(grid=grids.cfg_name(cfg), frames=outer, dt=dt)
  prove_close(ctx, 'sw.trajectory_frames_keep_truncation_zero', f, args, sp, select=[b_(outside, fshape)] * 3, exact=True, twin=False, config=conf, pre=pre)
  prove_close(ctx, 'sw.trajectory_frames_conserve_mean_thickness_vorticity_divergence', f, args, sp, select=[b_(mean, fshape)] * 3, config=conf, pre=pre,
              scale_floor=1.0, validate=False)


def make_tasks(tier, seed):
  LS = models.level_sets(seed)
  cfg = dict(M=3, L=4, nlon=8, nlat=5)
  cfgf = dict(M=3, L=5, nlon=9, nlat=6, impl='fast', base=4)
  tasks = [dict(name='integrators-standin', fn='task_integrators', kw={})]
  for c, ln, kind in ((cfg, 'dy2', 'dry'), (cfgf, 'dy2', 'dry'), (cfg, 'dy2', 'moist')):
    tasks.append(dict(name=f'operators-{kind}-{grids.cfg_name(c)}-{ln}', fn='task_operators', kw=dict(cfg=c, levels=LS[ln].tolist(), lname=ln, kind=kind)))
  tasks.append(dict(name='uniform-tracer', fn='task_uniform_tracer', kw=dict(cfg=cfg, levels=LS['dy3'].tolist(), lname='dy3')))
  for kind in ('time', 'moist'):
    tasks.append(dict(name=f'simtime-{kind}', fn='task_sim_time_real', kw=dict(cfg=cfg, levels=LS['dy2'].tolist(), lname='dy2', kind=kind)))
  for st in ('euler', 'leapfrog'):
    tasks.append(dict(name=f'direct-step-{st}', fn='task_direct_step', kw=dict(cfg=cfg, levels=LS['dy2'].tolist(), lname='dy2', stepper=st)))
  tasks.append(dict(name='filters-real', fn='task_filters', kw=dict(cfg=dict(M=3, L=5, nlon=8, nlat=6))))
  tasks.append(dict(name='filters-fast-padded', fn='task_filters', kw=dict(cfg=cfgf)))
  tasks.append(dict(name='sw', fn='task_sw', kw=dict(cfg=cfg)))
  tasks.append(dict(name='sw-fast', fn='task_sw', kw=dict(cfg=cfgf)))
  tasks.append(dict(name='sw-trajectory', fn='task_sw_trajectory', kw=dict(cfg=dict(M=2, L=3, nlon=5, nlat=4))))
  tasks.append(dict(name='sw-trajectory-fast-padded', fn='task_sw_trajectory', kw=dict(cfg=dict(M=2, L=3, nlon=6, nlat=4, impl='fast', base=4))))
  if tier != 'quick':
    cfg4 = dict(M=4, L=5, nlon=12, nlat=6)
    tasks.append(dict(name='operators-dry-M4', fn='task_operators', kw=dict(cfg=cfg4, levels=LS['dy3'].tolist(), lname='dy3', kind='dry')))
    tasks.append(dict(name='direct-step-euler-fast', fn='task_direct_step', kw=dict(cfg=cfgf, levels=LS['dy3'].tolist(), lname='dy3', stepper='euler')))
  return tasks


def main(tier='quick', seed=0, jobs=None, only=None, t0=None):
  t0 = t0 or time.time()
  tasks = make_tasks(tier, seed)
  if only:
    tasks = [t for t in tasks if only in t['name']]
  results = harness.run_tasks(MOD, tasks, PID, seed, tier, jobs)
  return harness.finalize(
      PID, tier, seed, results, t0,
      explanation='Each invariant is shown inductive from an ARBITRARY state satisfying it (no histories explored): (a) explicit tendencies '
                  'of every modal array vanish exactly outside the truncation / at the top wavenumber and have zero global mean for vorticity and '
                  'divergence; (b) implicit terms and solve map the invariant subspace into itself; (c,d) every integrator, run on stand-in operators '
                  'that return fresh symbols and obey these contracts, keeps the complement at exactly 0 and advances the clock by dt; (d) sim_time of '
                  'the real equation classes via dead-code-eliminated jaxprs; (e) direct filtered Euler / leapfrog steps of the real equations.',
      bounds=dict(tasks=[t['name'] for t in tasks], state_box='[-1,1]', integrators=INTEGRATORS + ['semi_implicit_leapfrog'], dt='0.02-0.3'),
      assumptions=['real-arithmetic semantics of the float64 IR', 'trajectories of any length follow by induction on the one-step statements (mathematics, not re-proved)'],
      trusted=['JAX tracing', 'dverif interpreter', 'z3/cvc5'],
      outside=['float rounding', 'integrators not shipped in time_integration.py'])
