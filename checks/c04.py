"""C04 — the full tendency does not depend on the reference-temperature split."""
from __future__ import annotations

import time
import numpy as np

import dverif  # noqa: F401
import jax
import jax.numpy as jnp

from dverif import grids, harness, models
from dverif.harness import prove_close
from dverif.poly import Space, PolyArr

PID = 'C04'
MOD = 'checks.c04'

SQRT4PI = float(np.sqrt(4 * np.pi))     # coefficient of the constant 1 in the (0,0) mode (unit-norm Y00)

CLOUD = ('specific_cloud_liquid_water_content', 'specific_cloud_ice_water_content')


def profiles(K, seed):
  rng = np.random.default_rng(seed + 101)
  return {
      'const/const': (np.full(K, 1.2), np.full(K, 0.7)),
      'const/linear': (np.full(K, 1.0), np.linspace(0.6, 1.5, K)),
      'random/random': (np.round(rng.uniform(0.5, 1.5, K), 3), np.round(rng.uniform(0.5, 1.5, K), 3)),
      'linear/zero': (np.linspace(1.4, 0.8, K), np.zeros(K)),
      'bulge/const': (1.0 + 0.4 * np.sin(np.pi * np.arange(K) / max(K - 1, 1)), np.full(K, 1.1)),
      # a profile given as INTEGER literals (dtype int64) against a float profile: the library must treat it as the same numbers
      'integers/linear': (np.arange(K, 0, -1) + np.array([0, 2] * K)[:K], np.linspace(0.6, 1.5, K)),
      'zigzag/bulge': (1.0 + 0.2 * (-1.0) ** np.arange(K), 1.2 - 0.3 * np.sin(np.pi * np.arange(K) / max(K - 1, 1))),
  }


def task_split(ctx, cfg, levels, lname, kind, pname, tref1, tref2, orography, extra_tracer, q_mode='general',
               condensate=True, option='default', derive=None):
  from dinosaur import primitive_equations as pe
  coords = models.make_coords(cfg, levels)
  grid = coords.horizontal
  K = coords.vertical.layers
  base, zm = models.admissible_masks(grid)
  tref1 = np.asarray(tref1, dtype=(np.int64 if pname.startswith('integers') else float)); tref2 = np.asarray(tref2, float)
  rng = np.random.default_rng(11)
  oro = (rng.uniform(-0.3, 0.3, grid.modal_shape) * base) if orography else np.zeros(grid.modal_shape)
  cls = {'dry': pe.PrimitiveEquations, 'time': pe.PrimitiveEquationsWithTime, 'moist': pe.MoistPrimitiveEquations,
         'cloud': pe.MoistPrimitiveEquationsWithCloudMoisture}[kind]
  ctx.encoded(cls.explicit_terms, cls.implicit_terms, pe.compute_diagnostic_state, pe.PrimitiveEquations.curl_and_div_tendencies,
              pe.PrimitiveEquations.nodal_temperature_adiabatic_tendency, pe.PrimitiveEquations.nodal_temperature_vertical_tendency,
              pe.PrimitiveEquations._t_omega_over_sigma_sp, pe.PrimitiveEquations.horizontal_scalar_advection,
              pe.PrimitiveEquations.kinetic_energy_tendency, pe.PrimitiveEquations.orography_tendency, pe.div_sec_lat)
  if kind in ('moist', 'cloud'):
    ctx.encoded(cls.curl_and_div_tendencies, cls.nodal_temperature_adiabatic_tendency, cls.divergence_tendency_due_to_humidity,
                cls.vorticity_tendency_due_to_humidity, cls._virtual_temperature)
  # moist: general humidity fields need Cp_vapor = Cp (denominators 1 + 0*q); realistic Cp ratio with
  # horizontally uniform humidity per level (one reciprocal atom per level, reduced canonically)
  if kind in ('moist', 'cloud') and q_mode == 'general':
    specs = models.unit_specs(cpv=1.0 / 0.25)       # Cp = R/kappa = 4 -> heat capacity ratio 1
  else:
    specs = models.unit_specs()
  from dinosaur import sigma_coordinates as sc
  import dataclasses, copy
  okw = {'default': {}, 'no_vertical_advection': dict(include_vertical_advection=False), 'upwind': dict(vertical_advection=sc.upwind_vertical_advection),
         'sparse': dict(vertical_matmul_method='sparse')}[option]
  eq1 = cls(tref1, oro, coords, specs, **okw)
  if derive is None:
    eq2 = cls(tref2, oro, coords, specs, **okw)
  else:
    # the second equation object is DERIVED from the first one after the first one has been used (anything cached on the object must not
    # survive a change of the reference profile)
    z = jnp.zeros(coords.modal_shape); zs = jnp.zeros(coords.surface_modal_shape)
    s0 = pe.State(z, z, z, zs, {}) if kind == 'dry' else pe.StateWithTime(z, z, z, zs, 0.0, {})
    eq1.implicit_terms(s0); eq1.implicit_inverse(s0, 0.1)
    if derive == 'replace':
      eq2 = dataclasses.replace(eq1, reference_temperature=tref2)
    else:
      eq2 = copy.copy(eq1); eq2.reference_temperature = tref2
  sp = Space(bits=10)
  tracers = []
  if kind in ('moist', 'cloud'):
    tracers.append('specific_humidity')
  if kind == 'cloud':
    tracers += list(CLOUD)
  if extra_tracer:
    tracers.append('passive')
  ms = coords.modal_shape
  xs = models.pe_state_vars(sp, coords)
  tr_vars = []
  m, l = grid.modal_mesh
  for t in tracers:
    if t == 'specific_humidity' and q_mode == 'uniform':
      free = np.broadcast_to((m == 0) & (l == 0), ms); lo, hi = 0.0, 0.05 * SQRT4PI
    elif t in CLOUD and not condensate:
      free = np.zeros(ms, bool); lo, hi = 0.0, 0.0
    elif t == 'specific_humidity' or t in CLOUD:
      free = np.broadcast_to(base, ms); lo, hi = -0.02, 0.02
    else:
      free = np.broadcast_to(base, ms); lo, hi = -1.0, 1.0
    tr_vars.append(PolyArr.variables(sp, t, ms, lo, hi, free=free))
  shift = (tref1.astype(float) - tref2) * SQRT4PI          # T'_2 = T'_1 + (Tref1 - Tref2): same absolute temperature

  def total(eq, v, d, t, p, *trs):
    trd = dict(zip(tracers, trs))
    if kind == 'dry':
      s = pe.State(v, d, t, p, trd)
    else:
      s = pe.StateWithTime(v, d, t, p, 0.0, trd)
    e = eq.explicit_terms(s) + eq.implicit_terms(s)
    out = (e.vorticity, e.divergence, e.temperature_variation, e.log_surface_pressure) + tuple(e.tracers[k] for k in tracers)
    if kind != 'dry':
      out = out + (e.sim_time,)
    return out

  def both(v, d, t, p, *trs):
    t2 = t.at[:, 0, 0].add(shift)
    return total(eq1, v, d, t, p, *trs), total(eq2, v, d, t2, p, *trs)
  conf = dict(grid=grids.cfg_name(cfg), levels=lname, kind=kind, profiles=pname, orography=bool(orography),
              extra_tracer=bool(extra_tracer), q_mode=q_mode, condensate=bool(condensate), option=option, derived=derive)
  prove_close(ctx, 'tendency_independent_of_reference_split', both, xs + tr_vars, sp, config=conf,
              reduce_atoms=(q_mode == 'uniform'), scale_floor=1.0)


def make_tasks(tier, seed):
  LS = models.level_sets(seed)
  cfg3 = dict(M=3, L=4, nlon=8, nlat=5)
  cfgf = dict(M=3, L=4, nlon=8, nlat=5, impl='fast')
  tasks = []

  def add(cfg, ln, kind, pname, oro, extra, **kw):
    K = len(LS[ln]) - 1
    t1, t2 = profiles(K, seed)[pname]
    nm = f"{kind}-{grids.cfg_name(cfg)}-{ln}-{pname.replace('/', '_')}-o{int(oro)}-x{int(extra)}" + ''.join(f'-{k}{v}' for k, v in kw.items())
    tasks.append(dict(name=nm, fn='task_split', kw=dict(cfg=cfg, levels=LS[ln].tolist(), lname=ln, kind=kind, pname=pname,
                                                        tref1=t1.tolist(), tref2=t2.tolist(), orography=oro, extra_tracer=extra, **kw)))
  add(cfg3, 'dy3', 'dry', 'const/linear', True, False)
  add(cfg3, 'dy2', 'dry', 'random/random', False, True)
  add(cfg3, 'dy3', 'dry', 'bulge/const', False, False)
  add(cfg3, 'dy3', 'dry', 'integers/linear', True, False)
  add(cfgf, 'dy3', 'time', 'zigzag/bulge', True, False)
  add(cfgf, 'eq2', 'time', 'const/const', True, False)
  add(cfg3, 'dy2', 'moist', 'const/linear', True, False, q_mode='general')
  add(cfg3, 'dy3', 'dry', 'const/linear', True, False, derive='replace')
  add(cfg3, 'dy2', 'time', 'random/random', False, False, derive='copy')
  add(cfg3, 'dy3', 'dry', 'random/random', False, False, option='sparse')
  add(cfg3, 'dy3', 'dry', 'const/linear', False, False, option='no_vertical_advection')
  add(cfg3, 'dy3', 'dry', 'const/linear', False, False, option='upwind')
  add(cfg3, 'dy2', 'moist', 'random/random', False, False, q_mode='uniform')
  add(cfg3, 'dy2', 'cloud', 'const/linear', False, False, q_mode='general', condensate=False)
  add(cfg3, 'dy2', 'cloud', 'const/linear', False, False, q_mode='general', condensate=True)
  if tier != 'quick':
    cfg4 = dict(M=4, L=5, nlon=12, nlat=6)
    add(cfg4, 'dy3', 'dry', 'random/random', True, False)
    add(cfg3, 'un4', 'dry', 'linear/zero', True, True)
    add(cfg3, 'dy3', 'moist', 'random/random', True, True, q_mode='general')
    add(cfgf, 'dy3', 'moist', 'const/linear', True, False, q_mode='uniform')
    add(cfg3, 'eq3', 'time', 'random/random', False, False)
  return tasks


def main(tier='quick', seed=0, jobs=None, only=None, t0=None):
  t0 = t0 or time.time()
  tasks = make_tasks(tier, seed)
  if only:
    tasks = [t for t in tasks if only in t['name']]
  results = harness.run_tasks(MOD, tasks, PID, seed, tier, jobs)
  return harness.finalize(
      PID, tier, seed, results, t0,
      explanation='Metamorphic polynomial identity decided by the solver: explicit+implicit tendency of the same physical state '
                  '(T\'_2 = T\'_1 + (Tref1-Tref2) in the (0,0) mode) under two reference profiles, every admissible state coefficient symbolic; '
                  'difference polynomials bounded through monomial abstraction (QF_LRA), reciprocal atoms reduced canonically.',
      bounds=dict(tasks=[t['name'] for t in tasks], state_box='[-1,1] (humidity/condensate [-0.02,0.02] or uniform q in [0,0.05])',
                  eps='1e-9 x max(coefficient mass, 1)',
                  moist='general humidity fields with Cp_vapor = Cp; realistic Cp ratio with horizontally uniform humidity per level'),
      assumptions=['real-arithmetic semantics of the float64 IR', 'O(1) physical constants (unit_specs)'],
      trusted=['JAX tracing', 'dverif interpreter (validated each run)', 'z3/cvc5'],
      outside=['float rounding', 'general humidity fields together with Cp_vapor != Cp (needs multi-variable reduction)'])
