"""C09 — the two spherical-harmonic implementations are observationally equivalent.

Translation validation: for every Grid operation g and every input,
reindex(g_Real(x)) == g_Fast(reindex(x)), for each option combination of the fast class."""
from __future__ import annotations

import itertools
import time
import numpy as np

import dverif  # noqa: F401
import jax
import jax.numpy as jnp

from dverif import grids, harness, models
from dverif.harness import prove_close
from dverif.poly import Space, PolyArr

PID = 'C09'
MOD = 'checks.c09'


def reindexers(gr, gf):
  """Returns (to_fast_modal, crop_fast_modal, pad_nodal, crop_nodal) as traced jnp functions."""
  Mr, Lr = gr.modal_shape
  Mf, Lf = gf.modal_shape
  nr = gr.nodal_shape; nf = gf.nodal_shape

  def to_fast(x):
    lead = x.shape[:-2]
    out = jnp.zeros(lead + (Mf, Lf), x.dtype)
    out = out.at[..., 0, :Lr].set(x[..., 0, :])
    out = out.at[..., 2:Mr + 1, :Lr].set(x[..., 1:, :])
    return out

  def from_fast(y):
    return jnp.concatenate([y[..., 0:1, :Lr], y[..., 2:Mr + 1, :Lr]], axis=-2)

  def pad_nodal(z):
    pads = [(0, 0)] * (z.ndim - 2) + [(0, nf[0] - nr[0]), (0, nf[1] - nr[1])]
    return jnp.pad(z, pads)

  def crop_nodal(z):
    return z[..., :nr[0], :nr[1]]
  return to_fast, from_fast, pad_nodal, crop_nodal


def fast_variants(tier):
  if tier == 'quick':
    return [dict(base=1, stacked=True, reverse=False), dict(base=4, stacked=False, reverse=True),
            dict(base=2, stacked=True, reverse=True), dict(base=8, stacked=False, reverse=False), dict()]
  out = [dict()]
  for b, s, r in itertools.product((1, 2, 4, 8), (True, False), (True, False)):
    out.append(dict(base=b, stacked=s, reverse=r))
  return out


def task_ops(ctx, cfg, variant):
  from dinosaur import spherical_harmonic as sh
  gr = grids.make_grid(dict(cfg, impl='real'))
  gf = grids.make_grid(dict(cfg, impl='fast', **variant))
  ctx.encoded(sh.RealSphericalHarmonics.transform, sh.RealSphericalHarmonics.inverse_transform,
              sh.FastSphericalHarmonics.transform, sh.FastSphericalHarmonics.inverse_transform,
              sh.FastSphericalHarmonics.basis.func, sh.RealSphericalHarmonics.basis.func,
              sh.FastSphericalHarmonics.mask.func, sh.RealSphericalHarmonics.mask.func,
              sh._stack_m, sh._unstack_m, sh._transform_einsum, sh._round_to_multiple,
              sh.FastSphericalHarmonics.modal_shape.func, sh.FastSphericalHarmonics.nodal_shape.func)
  to_fast, from_fast, pad_nodal, crop_nodal = reindexers(gr, gf)
  conf = dict(grid=grids.cfg_name(cfg), variant={k: (int(v) if isinstance(v, bool) else v) for k, v in variant.items()},
              spacing=cfg.get('spacing', 'gauss'))
  # masks, axes and shapes: concrete structural facts
  mask_ok = bool(np.array_equal(np.asarray(to_fast(jnp.asarray(gr.mask, float))) > 0, gf.mask))
  ml_ok = bool(np.array_equal(np.asarray(from_fast(jnp.asarray(gf.modal_mesh[1] * gf.mask, float))), gr.modal_mesh[1] * gr.mask)
               and np.array_equal(np.abs(np.asarray(from_fast(jnp.asarray(gf.modal_mesh[0] * gf.mask, float)))), np.abs(gr.modal_mesh[0] * gr.mask)))
  ctx.clause('mask_and_wavenumber_tables_agree', 'discharged' if (mask_ok and ml_ok) else 'failed', config=conf, queries=0)
  if not (mask_ok and ml_ok):
    ctx.violation('mask_and_wavenumber_tables_agree', dict(config=conf), dict(mask_ok=mask_ok, ml_ok=ml_ok), 'masks/wavenumber tables differ under re-indexing')
  for lead in ((), (2,)):
    c = dict(conf, lead=list(lead))
    sp = Space(bits=14)
    x = PolyArr.variables(sp, 'x', tuple(lead) + gr.modal_shape)       # all entries free, also outside the mask
    y = PolyArr.variables(sp, 'y', tuple(lead) + gr.modal_shape)
    z = PolyArr.variables(sp, 'z', tuple(lead) + gr.nodal_shape)

    prove_close(ctx, 'to_nodal', lambda x: (crop_nodal(gf.to_nodal(to_fast(x))), gr.to_nodal(x)), [x], sp, config=c)
    prove_close(ctx, 'to_modal', lambda z: (from_fast(gf.to_modal(pad_nodal(z))), gr.to_modal(z)), [z], sp, config=c)
    prove_close(ctx, 'integrate', lambda z: (gf.integrate(pad_nodal(z)), gr.integrate(z)), [z], sp, config=c)

    def ops(g, x, y):
      return (g.d_dlon(x), g.cos_lat_d_dlat(x), g.sec_lat_d_dlat_cos2(x), g.laplacian(x), g.inverse_laplacian(x),
              g.clip_wavenumbers(x), g.clip_wavenumbers(x, n=2), g.cos_lat_grad(x), g.cos_lat_grad(x, clip=False),
              g.div_cos_lat((x, y)), g.curl_cos_lat((x, y)), g.div_cos_lat((x, y), clip=False), g.curl_cos_lat((x, y), clip=False),
              sh.get_cos_lat_vector(x, y, g))

    def filt(g, x):
      from dinosaur import filtering, time_integration as ti
      st = lambda f: (lambda u: f(u, u))
      return (filtering.exponential_filter(g)(x), filtering.exponential_filter(g, attenuation=2.5, order=3, cutoff=0.4)(x),
              filtering.horizontal_diffusion_filter(g, scale=0.01, order=2)(x),
              st(ti.exponential_step_filter(g, dt=0.01, tau=0.02, order=2))(x),
              st(ti.horizontal_diffusion_step_filter(g, dt=0.01, tau=0.05, order=2))(x),
              ti.exponential_leapfrog_step_filter(g, dt=0.01, tau=0.03, order=1, cutoff=0.2)((x, x), (x, x))[1])

    def both_filters(x):
      return jax.tree_util.tree_map(from_fast, filt(gf, to_fast(x * gr.mask))), filt(gr, x * gr.mask)
    prove_close(ctx, 'spectral_filters', both_filters, [x], sp, config=c)

    def both(x, y):
      # compared on the reference layout: what the fast class leaves in its padding rows/columns
      # (outside its mask) is not observable through the re-indexing
      a = jax.tree_util.tree_map(from_fast, ops(gf, to_fast(x * gr.mask), to_fast(y * gr.mask)))
      b = ops(gr, x * gr.mask, y * gr.mask)
      return a, b
    prove_close(ctx, 'spectral_operators', both, [x, y], sp, config=c)
    if cfg.get('spacing', 'gauss') != 'equiangular_with_poles':
      # the library's own jit-compiled wind helpers (the grid is a STATIC argument: both implementations go through the same compiled-function
      # cache in one process, reference first for () and fast first for the batched case)
      def winds(zu, zv, vor, div, fast_first=bool(lead)):
        def run_fast():
          return (jax.tree_util.tree_map(from_fast, sh.uv_nodal_to_vor_div_modal(gf, pad_nodal(zu), pad_nodal(zv))),
                  jax.tree_util.tree_map(crop_nodal, sh.vor_div_to_uv_nodal(gf, to_fast(vor * gr.mask), to_fast(div * gr.mask))))

        def run_ref():
          return (sh.uv_nodal_to_vor_div_modal(gr, zu, zv), sh.vor_div_to_uv_nodal(gr, vor * gr.mask, div * gr.mask))
        if fast_first:
          a = run_fast(); b = run_ref()
        else:
          b = run_ref(); a = run_fast()
        return a, b
      zu = PolyArr.variables(sp, 'zu', tuple(lead) + gr.nodal_shape); zv = PolyArr.variables(sp, 'zv', tuple(lead) + gr.nodal_shape)
      prove_close(ctx, 'jitted_wind_helpers', winds, [zu, zv, x, y], sp, config=c)
  # padding outputs of the fast class are exact zeros outside its mask after analysis
  sp2 = Space(bits=14)
  zf = PolyArr.variables(sp2, 'z', gf.nodal_shape)
  prove_close(ctx, 'fast.to_modal_zero_outside_mask', lambda z: (gf.to_modal(z) * (~gf.mask), jnp.zeros(gf.modal_shape)), [zf], sp2,
              exact=True, twin=False, config=conf)


def task_tendency(ctx, cfg, variant, levels, lname, kind):
  """Model tendencies built on the two implementations agree (polynomial identity)."""
  from dinosaur import primitive_equations as pe, shallow_water as sw, coordinate_systems as cs, layer_coordinates as lc, scales
  cr = models.make_coords(dict(cfg, impl='real'), levels)
  cf = models.make_coords(dict(cfg, impl='fast', **variant), levels)
  gr, gf = cr.horizontal, cf.horizontal
  to_fast, from_fast, pad_nodal, crop_nodal = reindexers(gr, gf)
  K = cr.vertical.layers
  conf = dict(grid=grids.cfg_name(cfg), variant={k: (int(v) if isinstance(v, bool) else v) for k, v in variant.items()}, levels=lname, kind=kind)
  sp = Space(bits=10)
  if kind in ('dry', 'moist'):
    specs = models.unit_specs()
    tref = np.linspace(1.0, 1.5, K)
    rng = np.random.default_rng(3)
    oro_r = rng.uniform(-0.3, 0.3, gr.modal_shape) * models.admissible_masks(gr)[0]
    tr = ('specific_humidity',) if kind == 'moist' else ()
    xs = models.pe_state_vars(sp, cr, tracers=tr)
    cls = pe.MoistPrimitiveEquations if kind == 'moist' else pe.PrimitiveEquations
    ctx.encoded(cls.explicit_terms, cls.implicit_terms, pe.compute_diagnostic_state)
    eq_r = cls(tref, oro_r, cr, specs)
    eq_f = cls(tref, np.asarray(to_fast(jnp.asarray(oro_r))), cf, specs)

    def tend(eq, conv, v, d, t, p, *q):
      tracers = {'specific_humidity': conv(q[0])} if q else {}
      if kind == 'moist':
        s = pe.StateWithTime(conv(v), conv(d), conv(t), conv(p), 0.0, tracers)
      else:
        s = pe.State(conv(v), conv(d), conv(t), conv(p), tracers)
      e = eq.explicit_terms(s) + eq.implicit_terms(s)
      out = (e.vorticity, e.divergence, e.temperature_variation, e.log_surface_pressure)
      return out + ((e.tracers['specific_humidity'],) if q else ())

    def both(*a):
      return tuple(from_fast(o) for o in tend(eq_f, to_fast, *a)), tend(eq_r, lambda u: u, *a)
    prove_close(ctx, f'tendency.{kind}', both, xs, sp, config=conf)
  else:
    grid_r, grid_f = gr, gf
    nl = 2
    specs = sw.ShallowWaterSpecs(densities=np.array([1.0, 1.3]), radius=float(gr.radius), angular_velocity=1.0, gravity_acceleration=1.0, scale=scales.DEFAULT_SCALE)
    ccr = cs.CoordinateSystem(grid_r, lc.LayerCoordinates(nl)); ccf = cs.CoordinateSystem(grid_f, lc.LayerCoordinates(nl))
    base, zm = models.admissible_masks(gr)
    ms = (nl,) + gr.modal_shape
    v = PolyArr.variables(sp, 'v', ms, free=np.broadcast_to(zm, ms)); d = PolyArr.variables(sp, 'd', ms, free=np.broadcast_to(zm, ms))
    p = PolyArr.variables(sp, 'p', ms, free=np.broadcast_to(base, ms))
    ctx.encoded(sw.ShallowWaterEquations.explicit_terms, sw.ShallowWaterEquations.implicit_terms)
    phi = np.array([1.0, 2.0])
    er = sw.ShallowWaterEquations(ccr, specs, None, phi); ef = sw.ShallowWaterEquations(ccf, specs, None, phi)

    def both(v, d, p):
      a = ef.explicit_terms(sw.State(to_fast(v), to_fast(d), to_fast(p)))
      b = er.explicit_terms(sw.State(v, d, p))
      return (from_fast(a.vorticity), from_fast(a.divergence), from_fast(a.potential)), (b.vorticity, b.divergence, b.potential)
    prove_close(ctx, 'tendency.shallow_water', both, [v, d, p], sp, config=conf)


def task_static_identity(ctx):
  """Objects that the library passes to jax.jit as STATIC arguments (grids, coordinate systems, level sets, regridders, specs) are looked up in the
  compiled-function cache by equality / hash: two objects that differ in ANY constructor field must compare unequal (otherwise the second one silently
  reuses the program compiled for the first), equal objects must hash equal.  Enumerated field by field (concrete; reported as enumeration)."""
  import dataclasses
  from dinosaur import spherical_harmonic as sh, coordinate_systems as cs, sigma_coordinates as sc, layer_coordinates as lc, horizontal_interpolation as hi
  from dinosaur import primitive_equations as pe, vertical_interpolation as vi, scales
  ctx.encoded(sh.Grid, cs.CoordinateSystem, sc.SigmaCoordinates.__eq__, sc.SigmaCoordinates.__hash__, hi.ConservativeRegridder, hi.BilinearRegridder)
  bad = []
  n = 0

  def distinct(label, a, b):
    nonlocal n
    n += 1
    try:
      if a == b or (hash(a) == hash(b) and a == b):
        bad.append(f'{label}: objects that differ compare equal')
    except TypeError:
      pass                              # unhashable / incomparable objects cannot be static arguments

  def same(label, a, b):
    nonlocal n
    n += 1
    try:
      if not (a == b) or hash(a) != hash(b):
        bad.append(f'{label}: identical constructions are not equal / do not hash equal')
    except TypeError:
      pass
  g0 = dict(longitude_wavenumbers=4, total_wavenumbers=5, longitude_nodes=12, latitude_nodes=6, latitude_spacing='gauss', longitude_offset=0.0, radius=1.0,
            spherical_harmonics_impl=sh.RealSphericalHarmonics)
  alt = dict(longitude_wavenumbers=3, total_wavenumbers=4, longitude_nodes=13, latitude_nodes=7, latitude_spacing='equiangular', longitude_offset=0.25, radius=2.0,
             spherical_harmonics_impl=sh.FastSphericalHarmonics)
  G0 = sh.Grid(**g0)
  same('Grid', G0, sh.Grid(**g0))
  for k, v in alt.items():
    distinct(f'Grid.{k}', G0, sh.Grid(**dict(g0, **{k: v})))
  import functools
  distinct('Grid.spherical_harmonics_impl options', sh.Grid(**dict(g0, spherical_harmonics_impl=functools.partial(sh.FastSphericalHarmonics, base_shape_multiple=4))),
           sh.Grid(**dict(g0, spherical_harmonics_impl=functools.partial(sh.FastSphericalHarmonics, base_shape_multiple=8))))
  s0 = sc.SigmaCoordinates(np.array([0, 0.3, 1.0]))
  same('SigmaCoordinates', s0, sc.SigmaCoordinates(np.array([0, 0.3, 1.0])))
  distinct('SigmaCoordinates.boundaries', s0, sc.SigmaCoordinates(np.array([0, 0.4, 1.0])))
  distinct('SigmaCoordinates.layers', s0, sc.SigmaCoordinates(np.array([0, 0.3, 0.6, 1.0])))
  same('CoordinateSystem', cs.CoordinateSystem(G0, s0), cs.CoordinateSystem(sh.Grid(**g0), sc.SigmaCoordinates(np.array([0, 0.3, 1.0]))))
  distinct('CoordinateSystem.vertical', cs.CoordinateSystem(G0, s0), cs.CoordinateSystem(G0, sc.SigmaCoordinates(np.array([0, 0.4, 1.0]))))
  distinct('CoordinateSystem.horizontal', cs.CoordinateSystem(G0, s0), cs.CoordinateSystem(sh.Grid(**dict(g0, longitude_offset=0.1)), s0))
  distinct('CoordinateSystem vertical kind', cs.CoordinateSystem(G0, s0), cs.CoordinateSystem(G0, lc.LayerCoordinates(2)))
  distinct('LayerCoordinates.layers', lc.LayerCoordinates(2), lc.LayerCoordinates(3))
  G1 = sh.Grid(**dict(g0, longitude_nodes=8, latitude_nodes=4, longitude_wavenumbers=2, total_wavenumbers=3))
  for cls in (hi.ConservativeRegridder, hi.BilinearRegridder, hi.NearestRegridder):
    same(cls.__name__, cls(G0, G1), cls(G0, G1))
    distinct(f'{cls.__name__}.source_grid', cls(G0, G1), cls(sh.Grid(**dict(g0, longitude_offset=0.2)), G1))
    distinct(f'{cls.__name__}.target_grid', cls(G0, G1), cls(G0, sh.Grid(**dict(g0, latitude_spacing='equiangular'))))
  distinct('ConservativeRegridder.skipna', hi.ConservativeRegridder(G0, G1, skipna=False), hi.ConservativeRegridder(G0, G1, skipna=True))
  p0 = pe.PrimitiveEquationsSpecs.from_si()
  same('PrimitiveEquationsSpecs', p0, pe.PrimitiveEquationsSpecs.from_si())
  for f_ in dataclasses.fields(pe.PrimitiveEquationsSpecs):
    if f_.name == 'scale':
      distinct('PrimitiveEquationsSpecs.scale', p0, dataclasses.replace(p0, scale=scales.ATMOSPHERIC_SCALE))
    else:
      distinct(f'PrimitiveEquationsSpecs.{f_.name}', p0, dataclasses.replace(p0, **{f_.name: getattr(p0, f_.name) * 1.5 + 0.25}))
  h0 = vi.HybridCoordinates(a_boundaries=np.array([0.0, 20.0, 0.0]), b_boundaries=np.array([0.0, 0.3, 1.0]))
  distinct('HybridCoordinates.a_boundaries', h0, vi.HybridCoordinates(a_boundaries=np.array([0.0, 30.0, 0.0]), b_boundaries=np.array([0.0, 0.3, 1.0])))
  distinct('PressureCoordinates.centers', vi.PressureCoordinates(np.array([100.0, 500.0])), vi.PressureCoordinates(np.array([100.0, 600.0])))
  conf = dict(cases=n)
  ctx.clause('static_arguments_are_distinguished_by_every_field', 'discharged' if not bad else 'failed', config=dict(conf, exhaustive=True), queries=0, elements=n)
  if bad:
    ctx.violation('static_arguments_are_distinguished_by_every_field', dict(config=conf, kind='static-identity', what=bad[:6]), dict(problems=bad),
                  'objects used as static jit arguments: ' + '; '.join(bad[:3]))


def make_tasks(tier, seed):
  base_cfgs = [dict(M=3, L=4, nlon=8, nlat=5), dict(M=4, L=5, nlon=13, nlat=7, radius=2.5, offset=0.2),
               dict(M=3, L=4, nlon=10, nlat=9, spacing='equiangular'), dict(M=2, L=4, nlon=7, nlat=6, spacing='equiangular_with_poles'),
               dict(M=5, L=6, nlon=12, nlat=6), dict(M=1, L=2, nlon=4, nlat=3),
               # marginal longitude resolution: highest zonal wavenumber exactly at (nlon = 2(M-1)) or one node above (nlon = 2M-1) the Nyquist limit,
               # and below it (aliased, nlon = 2M-3): the two implementations must still agree although the quadrature no longer resolves m = M-1
               dict(M=5, L=6, nlon=8, nlat=8), dict(M=4, L=5, nlon=7, nlat=6, spacing='equiangular'), dict(M=4, L=4, nlon=5, nlat=5),
               # tight latitude resolution (truncation at the limit of the quadrature) for the three spacings
               dict(M=3, L=5, nlon=8, nlat=5), dict(M=4, L=5, nlon=10, nlat=9, spacing='equiangular_with_poles'), dict(M=3, L=4, nlon=8, nlat=7, spacing='equiangular')]
  if tier != 'quick':
    base_cfgs += [dict(M=8, L=9, nlon=25, nlat=13), dict(M=12, L=13, nlon=37, nlat=19, spacing='equiangular'), grids.construct(21, 16)]
  tasks = []
  variants = fast_variants(tier)
  for i, cfg in enumerate(base_cfgs):
    vs = variants if (tier != 'quick' or i < 2) else [variants[i % len(variants)], variants[(i + 2) % len(variants)]]
    if cfg['M'] > 12:
      vs = [dict(), dict(base=8, stacked=True, reverse=True)]
    for v in vs:
      tasks.append(dict(name=f"ops-{grids.cfg_name(cfg)}-{'_'.join(f'{k}{int(x)}' for k, x in v.items()) or 'default'}", fn='task_ops', kw=dict(cfg=cfg, variant=v)))
  tasks.append(dict(name='static-identity', fn='task_static_identity', kw={}))
  tcfg = dict(M=3, L=4, nlon=8, nlat=5)
  LS = models.level_sets(seed)
  for kind, v in (('dry', dict(base=4, stacked=False, reverse=True)), ('moist', dict(base=1, stacked=True)), ('sw', dict(base=2, stacked=True, reverse=True))):
    tasks.append(dict(name=f'tendency-{kind}', fn='task_tendency', kw=dict(cfg=tcfg, variant=v, levels=LS['dy2'].tolist(), lname='dy2', kind=kind)))
  return tasks


def main(tier='quick', seed=0, jobs=None, only=None, t0=None):
  t0 = t0 or time.time()
  tasks = make_tasks(tier, seed)
  if only:
    tasks = [t for t in tasks if only in t['name']]
  results = harness.run_tasks(MOD, tasks, PID, seed, tier, jobs)
  nprog = len(tasks) * 2
  return harness.finalize(
      PID, tier, seed, results, t0, level='translation_validation',
      explanation='Translation validation: RealSphericalHarmonics and FastSphericalHarmonics (each option combination) are traced and '
                  'interpreted on the same symbolic inputs under the fixed re-indexing; outputs are compared for ALL inputs by QF_LRA queries; '
                  'dry/moist primitive-equation and shallow-water tendencies compared as polynomial identities.',
      bounds=dict(tasks=[t['name'] for t in tasks], box='[-1,1] per coefficient / nodal value', eps='1e-9 x coefficient mass'),
      assumptions=['real-arithmetic semantics of the float64 IR', "transform_precision has no meaning in real arithmetic (outside the claim)"],
      trusted=['JAX tracing', 'dverif interpreter (validated each run)', 'z3/cvc5'],
      outside=['float rounding / precision hints', 'wind-based operations on equiangular_with_poles (F9)'],
      extra=dict(programs=nprog, disagreements_checked=sum(len(r['violations']) for r in results)))
