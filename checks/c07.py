"""C07 — sharded (model-parallel) execution equals single-device execution.

The sharded programs (shard_map bodies with axis_index / ppermute / all_gather collective matmuls, per-shard frequency
offsets, parallel cumulative sums, vertical padding) are interpreted in LOCK-STEP over all devices of the mesh and
compared with the single-device program for every input."""
from __future__ import annotations

import itertools
import time
import numpy as np

import dverif  # noqa: F401
import jax
import jax.numpy as jnp

from dverif import grids, harness, models
from dverif.harness import prove_close
from dverif.poly import Space, PolyArr

PID = 'C07'
MOD = 'checks.c07'


def make_mesh(shape):
  n = int(np.prod(shape))
  devs = np.array(jax.devices()[:n]).reshape(shape)
  return jax.sharding.Mesh(devs, ('z', 'x', 'y'))


def pad_to(a, shape):
  """Zero-pads the trailing len(shape) axes of a to `shape`."""
  lead = a.ndim - len(shape)
  return jnp.pad(a, [(0, 0)] * lead + [(0, s - t) for s, t in zip(shape, a.shape[lead:])])


def crop_to(a, shape):
  lead = a.ndim - len(shape)
  return a[(slice(None),) * lead + tuple(slice(0, s) for s in shape)]


def task_grid_ops(ctx, mesh_shape, cfg, base, K):
  """Transforms, longitude derivative, spectral operators, filters on a mesh vs. unsharded (same padded layout
  re-indexed by zero padding / cropping)."""
  from dinosaur import spherical_harmonic as sh, filtering, time_integration as ti, jax_numpy_utils as jnu
  mesh = make_mesh(mesh_shape)
  kw = {} if base is None else dict(base=base)
  g0 = grids.make_grid(dict(cfg, impl='fast', base=1))
  gm = grids.make_grid(dict(cfg, impl='fast', mesh=mesh, **kw))
  ctx.encoded(sh._transform_einsum, jnu.sharded_einsum, jnu._allgather_matmul_twoway, jnu._matmul_reducescatter_twoway, sh._unstack_m, sh._stack_m,
              sh._fourier_derivative_for_real_basis_with_zero_imag, sh._with_vertical_padding, sh._vertical_pad, sh._vertical_crop,
              sh.FastSphericalHarmonics.modal_shape.func, sh.FastSphericalHarmonics.nodal_shape.func)
  conf = dict(mesh=list(mesh_shape), grid=grids.cfg_name(cfg), base_shape_multiple=gm.spherical_harmonics.base_shape_multiple, K=K,
              modal_shape=list(gm.modal_shape), nodal_shape=list(gm.nodal_shape))
  ms0, ns0 = g0.modal_shape, g0.nodal_shape
  lead = (K,)
  sp = Space(bits=14)
  x = PolyArr.variables(sp, 'x', lead + ms0, free=np.broadcast_to(g0.mask, lead + ms0))
  y = PolyArr.variables(sp, 'y', lead + ms0, free=np.broadcast_to(g0.mask, lead + ms0))
  z = PolyArr.variables(sp, 'z', lead + ns0)
  up = lambda a: pad_to(a, gm.modal_shape); upn = lambda a: pad_to(a, gm.nodal_shape)
  dn = lambda a: crop_to(a, ms0); dnn = lambda a: crop_to(a, ns0)
  prove_close(ctx, 'to_nodal', lambda x: (dnn(gm.to_nodal(up(x))), g0.to_nodal(x)), [x], sp, config=conf)
  prove_close(ctx, 'to_modal', lambda z: (dn(gm.to_modal(upn(z))), g0.to_modal(z)), [z], sp, config=conf)

  def ops(g, x, y):
    st = lambda f: (lambda u: f(u, u))
    return (g.d_dlon(x), g.cos_lat_d_dlat(x), g.laplacian(x), g.inverse_laplacian(x), g.clip_wavenumbers(x),
            g.div_cos_lat((x, y)), g.curl_cos_lat((x, y)), sh.get_cos_lat_vector(x, y, g),
            filtering.exponential_filter(g, 2.0, 2)(x), st(ti.horizontal_diffusion_step_filter(g, 0.01, 0.05, 2))(x),
            st(ti.exponential_step_filter(g, 0.01, 0.02, 3))(x))
  prove_close(ctx, 'spectral_operators_and_filters',
              lambda x, y: (jax.tree_util.tree_map(dn, ops(gm, up(x), up(y))), ops(g0, x, y)), [x, y], sp, config=conf)
  # padding entries of analysis results are finite and masked values exact zeros
  spz = Space(bits=14)
  zz = PolyArr.variables(spz, 'z', (K,) + gm.nodal_shape)
  prove_close(ctx, 'to_modal_zero_outside_mask_on_padded_layout', lambda z: (gm.to_modal(z) * (~gm.mask), jnp.zeros((K,) + gm.modal_shape)), [zz], spz,
              exact=True, twin=False, config=conf)


def task_sharded_einsum(ctx, mesh_shape):
  """jax_numpy_utils.sharded_einsum: both strategies and argument orders for the transform einsum patterns."""
  from dinosaur import jax_numpy_utils as jnu
  mesh = make_mesh(mesh_shape)
  P = jax.sharding.PartitionSpec
  ctx.encoded(jnu.sharded_einsum, jnu._allgather_matmul_twoway, jnu._matmul_reducescatter_twoway, jnu._reversed_arg_order_einsum,
              jnu._determine_reduce_subscript, jnu._determine_transfer_subscript)
  zs, xs, ys = mesh_shape
  rng = np.random.default_rng(0)
  nx, ny = 2 * xs * 2, 2 * ys
  cases = [
      ('im,mj->ij', (nx, nx), (nx, ny), P('x', 'y'), P('x', 'y')),                      # Fourier-like: reduce over x-sharded m
      ('mjl,mj->ml', (nx, ny, 2 * ys), (nx, ny), P('x', 'y'), P('x', 'y')),             # Legendre-like: reduce over y-sharded j
      ('mjl,zml->zmj', (nx, 2 * ys, ny), (2 * zs, nx, ny), P('z', 'x', 'y'), P('z', 'x', 'y')),
  ]
  for sub, lshape, rshape, rspec, ospec in cases:
    lhs = rng.standard_normal(lshape)
    for gather, rev in itertools.product((True, False, None), (False, True)):
      sp = Space(bits=14)
      r = PolyArr.variables(sp, 'r', rshape)
      conf = dict(mesh=list(mesh_shape), subscripts=sub, gather_inputs=gather, reverse_arg_order=rev)

      def f(r, sub=sub, lhs=lhs, gather=gather, rev=rev, rspec=rspec, ospec=ospec):
        return (jnu.sharded_einsum(sub, lhs, r, mesh=mesh, rhs_spec=rspec, out_spec=ospec, gather_inputs=gather, reverse_arg_order=rev),
                jnp.einsum(sub, lhs, r))
      try:
        prove_close(ctx, 'sharded_einsum_equals_einsum', f, [r], sp, config=conf, reraise=(ValueError,))
      except ValueError as e:
        # combinations the library itself rejects (e.g. no sharded reduce axis on this mesh) are not part of the claim
        ctx.clause('sharded_einsum_equals_einsum', 'discharged', config=dict(conf, rejected_by_library=str(e)[:80]), queries=0, elements=0)


def task_cumsum(ctx, mesh_shape, K):
  """Parallel dot-cumsum under a vertical sharding equals the plain cumulative sum (both directions)."""
  from dinosaur import jax_numpy_utils as jnu
  mesh = make_mesh(mesh_shape)
  P = jax.sharding.PartitionSpec
  sharding = jax.sharding.NamedSharding(mesh, P('z', 'x', 'y'))
  ctx.encoded(jnu._dot_cumsum, jnu._parallel_dot_cumsum, jnu._single_device_dot_cumsum, jnu.cumsum, jnu.reverse_cumsum)
  shape = (K, 2 * mesh_shape[1], 2 * mesh_shape[2])
  sp = Space(bits=14)
  x = PolyArr.variables(sp, 'x', shape)
  tri = np.tril(np.ones((K, K)))

  def f(x):
    return ((jnu.cumsum(x, 0, sharding=sharding), jnu.reverse_cumsum(x, 0, sharding=sharding)),
            (jnp.einsum('ij,jab->iab', tri, x), jnp.einsum('ji,jab->iab', tri, x)))
  prove_close(ctx, 'sharded_cumsum_equals_prefix_sums', f, [x], sp, config=dict(mesh=list(mesh_shape), K=K))


def task_pe(ctx, mesh_shape, cfg, levels, lname, what):
  """Primitive-equation operators under spmd_mesh (vertical 'sparse' path, padded layouts) equal the unsharded ones."""
  from dinosaur import primitive_equations as pe
  mesh = make_mesh(mesh_shape)
  c0 = models.make_coords(dict(cfg, impl='fast', base=1), levels)
  cm = models.make_coords(dict(cfg, impl='fast', base=2), levels, mesh=mesh)
  g0, gm = c0.horizontal, cm.horizontal
  K = c0.vertical.layers
  specs = models.unit_specs()
  rng = np.random.default_rng(1)
  base, zm = models.admissible_masks(g0)
  oro0 = rng.uniform(-0.3, 0.3, g0.modal_shape) * base
  tref = np.linspace(1.0, 1.4, K)
  eq0 = pe.PrimitiveEquations(tref, oro0, c0, specs)
  eqm = pe.PrimitiveEquations(tref, np.asarray(pad_to(jnp.asarray(oro0), gm.modal_shape)), cm, specs)
  ctx.encoded(pe.PrimitiveEquations.implicit_terms, pe.PrimitiveEquations.implicit_inverse, pe.PrimitiveEquations.explicit_terms,
              pe.get_temperature_implicit, pe.get_geopotential_diff)
  conf = dict(mesh=list(mesh_shape), grid=grids.cfg_name(cfg), levels=lname, K=K, what=what, modal_shape=list(gm.modal_shape))
  sp = Space(bits=10 if what in ('explicit', 'step') else 14)
  xs = models.pe_state_vars(sp, c0)
  up = lambda a: pad_to(a, gm.modal_shape); dn = lambda a: crop_to(a, g0.modal_shape)

  def leaves(s):
    return (s.vorticity, s.divergence, s.temperature_variation, s.log_surface_pressure)

  def both(v, d, t, p):
    s0 = pe.State(v, d, t, p); sm = pe.State(up(v), up(d), up(t), up(p))
    if what == 'implicit':
      a = leaves(eqm.implicit_terms(sm)) + leaves(eqm.implicit_inverse(sm, 0.1)) + leaves(eqm.implicit_inverse(sm, 0.1, method='blockwise'))
      b = leaves(eq0.implicit_terms(s0)) + leaves(eq0.implicit_inverse(s0, 0.1)) + leaves(eq0.implicit_inverse(s0, 0.1, method='blockwise'))
    elif what == 'step':
      # a whole filtered model step (forward Euler on the explicit part, backward Euler solve, exponential + diffusion step filters)
      from dinosaur import time_integration as ti
      def mkstep(eq, g):
        return ti.step_with_filters(ti.backward_forward_euler(eq, 0.05), [ti.exponential_step_filter(g, 0.05, 0.1, 2, 0.2), ti.horizontal_diffusion_step_filter(g, 0.05, 0.5, 1)])
      a = leaves(mkstep(eqm, gm)(sm)); b = leaves(mkstep(eq0, g0)(s0))
    else:
      a = leaves(eqm.explicit_terms(sm)); b = leaves(eq0.explicit_terms(s0))
    return tuple(dn(x) for x in a), b
  try:
    prove_close(ctx, f'primitive_equations.{what}_terms_equal_unsharded', both, xs, sp, config=conf, scale_floor=1.0, reraise=(ValueError,))
  except ValueError as e:
    # the real sharded program cannot even be traced: replay = call it on a concrete state
    zs = mesh_shape[0]
    msg = str(e).split('\n')[0][:200]
    rngc = np.random.default_rng(3)
    conc = [rngc.uniform(-0.1, 0.1, a.shape) for a in xs]
    raised = None
    try:
      both(*[jnp.asarray(c) for c in conc])
    except ValueError as e2:
      raised = str(e2).split('\n')[0][:200]
    if raised is None:
      raise
    name = f'primitive_equations.{what}_terms_equal_unsharded'
    ctx.clause(name, 'failed', config=conf, queries=0)
    ctx.violation(name, dict(config=conf, kind='raises', indivisible_levels=bool(K % zs != 0), where=('dot_cumsum' if 'dot_cumsum' in raised else 'other')),
                  dict(inputs=[c.tolist() for c in conc], error=raised),
                  f'{name}: the sharded computation raises instead of returning the unsharded values (K={K} layers on a mesh with z={zs}): {raised}')


def task_shapes(ctx):
  """Padded shapes: large enough, divisible by the shard counts, minimal (enumerated integer configurations)."""
  from dinosaur import spherical_harmonic as sh
  ctx.encoded(sh._round_to_multiple, sh.FastSphericalHarmonics.modal_shape.func, sh.FastSphericalHarmonics.nodal_shape.func, sh.FastSphericalHarmonics.mask.func)
  bad = []
  n = 0
  for M, extra, nlon_k, base, (xs, ys) in itertools.product(range(1, 34, 4), (0, 1, 2), (2, 3, 4), (1, 2, 4, 8), ((1, 1), (2, 1), (1, 2), (2, 2), (4, 2), (2, 4), (6, 1), (1, 6), (8, 1))):
    L = M + extra; nlon = nlon_k * M + 1; nlat = (nlon + 1) // 2

    class FakeMesh:
      shape = {'x': xs, 'y': ys, 'z': 1}
    s = sh.FastSphericalHarmonics(M, L, nlon, nlat, base_shape_multiple=base)
    object.__setattr__(s, 'spmd_mesh', FakeMesh())
    ms, ns = s.modal_shape, s.nodal_shape
    n += 1
    ok = (ms[0] >= 2 * M and ms[1] >= L and ns[0] >= nlon and ns[1] >= nlat and ms[0] % (2 * base * xs) == 0 and ms[1] % (base * ys) == 0 and
          ns[0] % (base * xs) == 0 and ns[1] % (base * ys) == 0 and ms[0] - 2 * M < 2 * base * xs and ms[1] - L < base * ys and
          ns[0] - nlon < base * xs and ns[1] - nlat < base * ys and s.mask.shape == ms and int(s.mask.sum()) == sum(min(2 * l + 1, 2 * M - 1) for l in range(L)))
    if not ok:
      bad.append((M, L, nlon, nlat, base, xs, ys, ms, ns))
  ctx.clause('padded_shapes_cover_limits_divisible_and_minimal', 'discharged' if not bad else 'failed', config=dict(cases=n), queries=0, elements=n)
  if bad:
    ctx.violation('padded_shapes_cover_limits_divisible_and_minimal', dict(config=dict(cases=n), kind='shapes'), dict(cases=[str(b) for b in bad[:5]]), f'padded shape rule violated: {bad[0]}')


def task_shapes_symbolic(ctx):
  """The padded-shape rule decided for ALL grid sizes: the real FastSphericalHarmonics.nodal_shape / modal_shape / _round_to_multiple code runs on
  SYMBOLIC integers (wavenumber and node counts <= 8192, declared positive); for each enumerated shard layout and base_shape_multiple the solver
  decides: padded shape >= limits, divisible by (2) base x shards / base y shards, padding smaller than the multiple (minimal).  True division
  and math.ceil are modelled over the reals (x / m is exact to far better than 1/m for these sizes; float rounding of the quotient is outside)."""
  import z3
  from dverif.pysym import SymInt
  from dverif import smt
  from dinosaur import spherical_harmonic as sh
  ctx.encoded(sh._round_to_multiple, sh.FastSphericalHarmonics.modal_shape.func, sh.FastSphericalHarmonics.nodal_shape.func, sh.FastSphericalHarmonics.modal_limits.func,
              sh.FastSphericalHarmonics.nodal_limits.func)
  M, L, nlon, nlat = (z3.Int(n) for n in ('M', 'L', 'nlon', 'nlat'))
  pre = [M >= 1, M <= 8192, L >= 1, L <= 8192, nlon >= 1, nlon <= 8192, nlat >= 1, nlat <= 8192]
  import itertools as _it
  for (xs, ys), base in _it.product(((1, 1), (2, 1), (1, 2), (2, 2), (4, 2), (2, 4), (6, 1), (1, 6), (8, 1), (1, 8), (3, 2)), (1, 2, 3, 8, 64)):
    class FakeMesh:
      shape = {'x': xs, 'y': ys, 'z': 1}
    s = sh.FastSphericalHarmonics(SymInt(M, True), SymInt(L, True), SymInt(nlon, True), SymInt(nlat, True), base_shape_multiple=base,
                                  reverse_einsum_arg_order=False, stacked_fourier_transforms=False)
    object.__setattr__(s, 'spmd_mesh', FakeMesh())
    ms, ns = s.modal_shape, s.nodal_shape
    m0, m1, n0, n1 = ms[0].t, ms[1].t, ns[0].t, ns[1].t
    good = z3.And(m0 >= 2 * M, m1 >= L, n0 >= nlon, n1 >= nlat,
                  m0 % (2 * base * xs) == 0, m1 % (base * ys) == 0, n0 % (base * xs) == 0, n1 % (base * ys) == 0,
                  m0 - 2 * M < 2 * base * xs, m1 - L < base * ys, n0 - nlon < base * xs, n1 - nlat < base * ys)
    conf = dict(x_shards=xs, y_shards=ys, base_shape_multiple=base, ranges='wavenumbers / nodes in [1, 8192]')
    v, model = smt.check_z3(pre + [z3.Not(good)], 'QF_LIRA', 60000, want_model=True)
    name = 'padded_shapes_cover_limits_divisible_and_minimal_for_all_sizes'
    if v == 'unsat':
      ctx.clause(name, 'discharged', config=conf, queries=1)
      continue
    if v != 'sat':
      ctx.clause(name, 'inconclusive', config=conf, queries=1); ctx.error(name, f'solver verdict {v}')
      continue
    vals = {k: model.eval(t, model_completion=True).as_long() for k, t in (('M', M), ('L', L), ('nlon', nlon), ('nlat', nlat))}; vals['base'] = base
    real = sh.FastSphericalHarmonics(vals['M'], vals['L'], vals['nlon'], vals['nlat'], base_shape_multiple=vals['base'])
    object.__setattr__(real, 'spmd_mesh', FakeMesh())
    rm, rn = real.modal_shape, real.nodal_shape
    b = vals['base']
    ok = (rm[0] >= 2 * vals['M'] and rm[1] >= vals['L'] and rn[0] >= vals['nlon'] and rn[1] >= vals['nlat'] and rm[0] % (2 * b * xs) == 0 and rm[1] % (b * ys) == 0 and
          rn[0] % (b * xs) == 0 and rn[1] % (b * ys) == 0 and rm[0] - 2 * vals['M'] < 2 * b * xs and rm[1] - vals['L'] < b * ys and rn[0] - vals['nlon'] < b * xs and rn[1] - vals['nlat'] < b * ys)
    ctx.clause(name, 'failed', config=conf, queries=1)
    if not ok:
      ctx.violation(name, dict(config=conf, kind='shapes'), dict(inputs=vals, modal_shape=list(rm), nodal_shape=list(rn)),
                    f'padded shape rule violated for {vals} on {xs}x{ys} shards: modal_shape {rm}, nodal_shape {rn}')
    else:
      ctx.error(name, f'counterexample {vals} does not replay on the real code')


def make_tasks(tier, seed):
  LS = models.level_sets(seed)
  cfg = dict(M=4, L=5, nlon=12, nlat=6)
  cfg_small = dict(M=3, L=4, nlon=8, nlat=5)
  meshes = [(2, 1, 1), (1, 2, 1), (1, 1, 2), (1, 2, 2), (2, 2, 2), (1, 4, 2), (1, 2, 4), (2, 4, 1), (1, 6, 1), (1, 1, 6)]
  tasks = []
  for i, m in enumerate(meshes):
    base = [None, 1, 2][i % 3] if tier == 'quick' else None
    K = 3 if m[0] == 2 else 2                      # 3 levels on z=2: vertical padding path
    tasks.append(dict(name=f"grid-ops-{'x'.join(map(str, m))}-base{base}", fn='task_grid_ops', kw=dict(mesh_shape=m, cfg=cfg, base=base, K=K)))
  if tier != 'quick':
    for m in meshes:
      for base in (1, 2):
        tasks.append(dict(name=f"grid-ops-{'x'.join(map(str, m))}-base{base}-t", fn='task_grid_ops', kw=dict(mesh_shape=m, cfg=cfg, base=base, K=3)))
  for m in ((1, 2, 2), (2, 4, 1), (1, 6, 1), (1, 1, 6), (1, 2, 4)):
    tasks.append(dict(name=f"einsum-{'x'.join(map(str, m))}", fn='task_sharded_einsum', kw=dict(mesh_shape=m)))
  for m, K in (((2, 1, 1), 4), ((2, 2, 2), 6), ((4, 1, 2), 8), ((2, 1, 1), 3), ((4, 1, 2), 6),
               # vertical axis sizes that are not powers of two (every shard must receive the totals of ALL preceding shards)
               ((3, 1, 1), 6), ((3, 2, 1), 7), ((5, 1, 1), 10), ((6, 1, 1), 12), ((7, 1, 1), 7), ((8, 1, 1), 16)):      # the last two: length not divisible by the shard count
    tasks.append(dict(name=f"cumsum-{'x'.join(map(str, m))}-K{K}", fn='task_cumsum', kw=dict(mesh_shape=m, K=K)))
  for m, ln in (((2, 1, 1), 'dy4'), ((2, 2, 1), 'dy2'), ((1, 2, 2), 'dy3'), ((3, 1, 1), 'dy3')):
    tasks.append(dict(name=f"pe-implicit-{'x'.join(map(str, m))}-{ln}", fn='task_pe', kw=dict(mesh_shape=m, cfg=cfg_small, levels=LS[ln].tolist(), lname=ln, what='implicit')))
  tasks.append(dict(name='pe-explicit-2x2x1-dy2', fn='task_pe', kw=dict(mesh_shape=(2, 2, 1), cfg=cfg_small, levels=LS['dy2'].tolist(), lname='dy2', what='explicit')))
  tasks.append(dict(name='pe-step-2x2x1-dy2', fn='task_pe', kw=dict(mesh_shape=(2, 2, 1), cfg=cfg_small, levels=LS['dy2'].tolist(), lname='dy2', what='step')))
  tasks.append(dict(name='pe-implicit-2x1x2-dy3-indivisible', fn='task_pe', kw=dict(mesh_shape=(2, 1, 2), cfg=cfg_small, levels=LS['dy3'].tolist(), lname='dy3', what='implicit')))
  tasks.append(dict(name='pe-explicit-2x1x2-dy3-indivisible', fn='task_pe', kw=dict(mesh_shape=(2, 1, 2), cfg=cfg_small, levels=LS['dy3'].tolist(), lname='dy3', what='explicit')))
  if tier != 'quick':
    tasks.append(dict(name='pe-step-1x2x2-dy3', fn='task_pe', kw=dict(mesh_shape=(1, 2, 2), cfg=cfg_small, levels=LS['dy3'].tolist(), lname='dy3', what='step')))
  tasks.append(dict(name='shapes', fn='task_shapes', kw={}))
  tasks.append(dict(name='shapes-symbolic', fn='task_shapes_symbolic', kw={}))
  return tasks


def main(tier='quick', seed=0, jobs=None, only=None, t0=None):
  t0 = t0 or time.time()
  tasks = make_tasks(tier, seed)
  if only:
    tasks = [t for t in tasks if only in t['name']]
  results = harness.run_tasks(MOD, tasks, PID, seed, tier, jobs)
  return harness.finalize(
      PID, tier, seed, results, t0,
      explanation='The sharded programs are traced under real 8-device CPU meshes; shard_map bodies are interpreted in lock-step over all device '
                  'coordinates (axis_index concrete per device; ppermute / all_gather / psum across the per-device environments) on symbolic inputs, '
                  're-assembled by out_specs, cropped, and compared with the unsharded program for ALL inputs (QF_LRA; polynomial abstraction for '
                  'explicit terms).  A non-finite constant in the IR aborts the encoding and is replayed.',
      bounds=dict(tasks=[t['name'] for t in tasks], meshes='(z,x,y) with axis sizes 1,2,4,6 on <= 8 devices', box='[-1,1]'),
      assumptions=['real-arithmetic semantics; with_sharding_constraint is the identity', 'XLA SPMD partitioning and real multi-host collectives are outside the claim'],
      trusted=['JAX tracing of shard_map', 'dverif lock-step interpreter (bit-identical to real 8-device execution on the design-phase probes; validated each run against the jitted sharded function)', 'z3/cvc5'],
      outside=['performance options', 'meshes with more than 8 devices'])
