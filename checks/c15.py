"""C15 — spectral filters are mean-preserving, non-amplifying and step-size consistent."""
from __future__ import annotations

import itertools
import time
import numpy as np
import z3

import dverif  # noqa: F401
import jax
import jax.numpy as jnp

from dverif import grids, harness, smt
from dverif.harness import prove_close
from dverif.poly import Space, PolyArr
from dverif.term import TermArr, TermSpace, R
from dverif.jsym import Interp

PID = 'C15'
MOD = 'checks.c15'


def exp_arguments(fn, param_shapes, grid, sp, params=None):
  """Interprets fn(*params)(ones) and returns (params, array of exp-arguments per modal entry).
  The filter factor of entry (m,l) is exp(arg[m,l]) — exp is uninterpreted, only its argument is
  reasoned about (exp(0)=1, 0<exp(t)<=1 for t<=0, monotone, exp(s)exp(t)=exp(s+t) are mathematics)."""
  params = params or [TermArr.variables(sp, f'p{i}', shp) for i, shp in enumerate(param_shapes)]
  ones = jnp.ones(grid.modal_shape)

  def f(*ps):
    return fn(*ps)(ones)
  cl = jax.make_jaxpr(f)(*[jnp.ones(p.shape) * 0.5 for p in params])
  out = Interp(sp).run(cl, *params)[0]
  apps = {str(r): a for a, r in sp.uf_apps.get('exp', [])}
  flat = out.a.reshape(-1) if isinstance(out, TermArr) else np.asarray(out, dtype=object).reshape(-1)
  args = np.empty(flat.size, dtype=object)
  for i, t in enumerate(flat):
    if not isinstance(t, z3.ExprRef):
      # concrete factor: exp was folded by JAX (argument concrete): recover log
      args[i] = float(np.log(t)) if t > 0 else None
      continue
    if not (z3.is_app(t) and t.decl().name() == 'exp' and t.num_args() == 1):
      raise harness.HarnessError(f'filter factor is not a bare exp application: {str(t)[:80]}')
    args[i] = t.arg(0)
  shape = out.shape if isinstance(out, TermArr) else np.shape(out)
  return params, args.reshape(shape)


def decide(ctx, name, config, assumptions, bad, logic='QF_NRA', timeout=60000):
  """unsat(assumptions & bad) => clause holds."""
  v, model = smt.check_z3(list(assumptions) + [bad], logic, timeout, want_model=True)
  if v == 'unsat':
    ctx.clause(name, 'discharged', config=config, queries=1)
    return True, None
  if v == 'sat':
    return False, model
  ctx.clause(name, 'inconclusive', config=config, queries=1)
  ctx.error(name, f'solver verdict {v}')
  return False, None


def _num(t):
  t = R(t)
  return z3.ToReal(t) if z3.is_int(t) else t


def task_factors(ctx, cfg, kind, order, cutoff):
  """Factor properties with SYMBOLIC strength parameters (attenuation / scale / dt, tau > 0)."""
  from dinosaur import filtering, time_integration as ti
  grid = grids.make_grid(cfg)
  ctx.encoded(filtering.exponential_filter, filtering.horizontal_diffusion_filter, filtering._make_filter_fn, filtering._preserves_shape,
              ti.exponential_step_filter, ti.horizontal_diffusion_step_filter, ti.exponential_leapfrog_step_filter,
              ti.runge_kutta_step_filter, ti.leapfrog_step_filter)
  L = grid.total_wavenumbers
  conf = dict(grid=grids.cfg_name(cfg), filter=kind, order=order, cutoff=cutoff)
  sp = TermSpace()
  st = lambda f: (lambda u: f(u, u))
  if kind == 'exponential':
    mk = lambda a: filtering.exponential_filter(grid, a, order, cutoff)
    nparams = 1
  elif kind == 'diffusion':
    mk = lambda s: filtering.horizontal_diffusion_filter(grid, s, order)
    nparams = 1
  elif kind == 'exponential_step':
    mk = lambda dt, tau: st(ti.exponential_step_filter(grid, dt, tau, order, cutoff))
    nparams = 2
  elif kind == 'diffusion_step':
    mk = lambda dt, tau: st(ti.horizontal_diffusion_step_filter(grid, dt, tau, order))
    nparams = 2
  else:
    raise KeyError(kind)
  params, A = exp_arguments(mk, [()] * nparams, grid, sp)
  pv = [p.a.reshape(-1)[0] for p in params]
  pos = [p > 0 for p in pv]
  ms = grid.modal_shape
  m_ax, l_ax = grid.modal_axes
  # A has the broadcast shape of the scaling against the modal shape
  A = np.broadcast_to(A, ms)
  inside = grid.mask
  # (1) depends only on total wavenumber: identical argument along m for each l (syntactic or solver)
  bad = []
  for l in range(ms[1]):
    col = [A[m, l] for m in range(ms[0]) if inside[m, l]]
    for t in col[1:]:
      if not _num(t).eq(_num(col[0])):
        bad.append(_num(t) != _num(col[0]))
  if bad:
    ok, _ = decide(ctx, 'factor_depends_only_on_total_wavenumber', conf, pos, z3.Or(*bad))
    if not ok:
      ctx.violation('factor_depends_only_on_total_wavenumber', dict(config=conf), {}, 'filter factor varies with zonal wavenumber')
  else:
    ctx.clause('factor_depends_only_on_total_wavenumber', 'discharged', config=conf, queries=0, note='syntactically identical')
  arg = [_num(A[0, l]) for l in range(L)]
  # (2) arg_0 = 0 (factor 1 for the global mean); (3) arg_l <= 0 (factor in (0,1]); (4) non-increasing in l
  clauses = {
      'mean_preserved_factor_one_at_l0': arg[0] != 0,
      'factor_in_unit_interval': z3.Or(*[a > 0 for a in arg]),
      'factor_non_increasing_in_wavenumber': z3.Or(*[arg[l + 1] > arg[l] for l in range(L - 1)]) if L > 1 else z3.BoolVal(False),
  }
  for cname, badc in clauses.items():
    ok, model = decide(ctx, cname, conf, pos, badc)
    if not ok and model is not None:
      vals = {str(p): str(model.eval(p, model_completion=True)) for p in pv}
      ctx.violation(cname, dict(config=conf), dict(params=vals), f'{kind} order={order} cutoff={cutoff}: {cname} fails for {vals}')
  if nparams == 2:
    # (5) step-size consistency: arg(dt/2) + arg(dt/2) = arg(dt) for all dt, tau > 0;  damping law of the top mode
    sp2 = TermSpace()
    dt = TermArr.variables(sp2, 'dt', ()); tau = TermArr.variables(sp2, 'tau', ())
    _, Ah = exp_arguments(lambda d, t: mk(d / 2, t), None, grid, sp2, params=[dt, tau])
    sp3 = TermSpace()
    _, Af = exp_arguments(mk, None, grid, sp3, params=[dt, tau])
    Ah = np.broadcast_to(Ah, ms); Af = np.broadcast_to(Af, ms)
    d, t = dt.a.reshape(-1)[0], tau.a.reshape(-1)[0]
    tol = z3.RealVal(smt.Fraction(1e-9))
    badc = z3.Or(*[z3.Or(2 * _num(Ah[0, l]) - _num(Af[0, l]) > tol * (d / t), _num(Af[0, l]) - 2 * _num(Ah[0, l]) > tol * (d / t)) for l in range(L)])
    ok, model = decide(ctx, 'two_half_steps_equal_one_full_step', conf, [d > 0, t > 0, d <= 10, t <= 10, t >= z3.RealVal('1/100')], badc)
    if not ok and model is not None:
      vals = {str(p): str(model.eval(p, model_completion=True)) for p in (d, t)}
      # replay with the real filters
      dv = float(model.eval(d, model_completion=True).as_fraction()); tv = float(model.eval(t, model_completion=True).as_fraction())
      x = jnp.ones(ms)
      full = np.asarray(mk(dv, tv)(x)); half = np.asarray(mk(dv / 2, tv)(mk(dv / 2, tv)(x)))
      disc = float(np.abs(full - half).max())
      if disc > 1e-12:
        ctx.violation('two_half_steps_equal_one_full_step', dict(config=conf), dict(inputs=[dv, tv], discrepancy=disc),
                      f'{kind} order={order}: step(dt/2) twice != step(dt) for dt={dv}, tau={tv} (|diff|={disc:.3e})')
      else:
        ctx.error('two_half_steps', f'counterexample did not replay ({vals})')
    if kind == 'diffusion_step':
      top = _num(Af[0, L - 1])
      badc = z3.Or(top + d / t > tol * (d / t), -(top + d / t) > tol * (d / t))
      ok, model = decide(ctx, 'top_mode_decays_with_time_scale_tau', conf, [d > 0, t > 0, d <= 10, t <= 10, t >= z3.RealVal('1/100')], badc)
      if not ok and model is not None:
        dv = float(model.eval(d, model_completion=True).as_fraction()); tv = float(model.eval(t, model_completion=True).as_fraction())
        fac = float(np.asarray(mk(dv, tv)(jnp.ones(ms)))[0, L - 1])
        if abs(fac - np.exp(-dv / tv)) > 1e-12:
          ctx.violation('top_mode_decays_with_time_scale_tau', dict(config=conf), dict(inputs=[dv, tv], factor=fac, expected=float(np.exp(-dv / tv))),
                        f'diffusion step filter order={order}: top-mode factor {fac} != exp(-dt/tau)={np.exp(-dv / tv)}')
        else:
          ctx.error('top_mode', 'counterexample did not replay')


def task_application(ctx, cfg):
  """Filter application = elementwise product on leaves of spectral shape, identity object otherwise;
  array-valued strengths act slice-wise; Robert-Asselin."""
  from dinosaur import filtering, time_integration as ti
  grid = grids.make_grid(cfg)
  ms = grid.modal_shape
  K = 3
  conf = dict(grid=grids.cfg_name(cfg))
  # enumerated leaf shapes (rank <= 4): scaled iff the scaling broadcasts INTO the leaf shape
  f_scalar = filtering.exponential_filter(grid, 2.0, 2, 0.1)
  avec = np.array([1.0, 2.0, 3.0])[:, None, None]
  f_vec = filtering.exponential_filter(grid, avec, 2, 0.1)
  f_diff = filtering.horizontal_diffusion_filter(grid, 0.05, 2)
  sc_scalar = np.asarray(f_scalar(jnp.ones(ms[1])))
  shapes = [(), (1,), (ms[1],), ms, (K,) + ms, (1,) + ms, (2, K) + ms, (5,), (ms[0],), (K, 1, 1), (ms[1] + 1,), (K, ms[0], 1)]
  bad = []
  n = 0
  for fname, f, scal_shape in (('scalar-strength', f_scalar, (ms[1],)), ('vector-strength', f_vec, (K, 1, ms[1])), ('diffusion', f_diff, (ms[1],))):
    for shp in shapes:
      x = jnp.asarray(np.random.default_rng(1).uniform(-1, 1, shp))
      n += 1
      try:
        preserved = (np.broadcast_shapes(shp, scal_shape) == tuple(shp))
      except ValueError:
        preserved = False          # unrelated shape: must be left alone
      try:
        y = f({'leaf': x, 'clock': jnp.asarray(3.0)})
      except ValueError as e:
        bad.append((fname, shp, f'filter raised on a leaf of unrelated shape: {str(e)[:60]}'))
        continue
      if not (y['clock'] == 3.0):
        bad.append((fname, shp, 'clock modified'))
      if not preserved and y['leaf'] is not x:
        bad.append((fname, shp, 'leaf of unrelated shape was not returned unchanged (same object)'))
  ctx.clause('leaves_of_other_shape_are_returned_unchanged', 'discharged' if not bad else 'failed', config=conf, queries=0, cases=n)
  if bad:
    ctx.violation('leaves_of_other_shape_are_returned_unchanged', dict(config=conf, kind='shape-rule', what=sorted({b[2][:40] for b in bad})), dict(cases=[str(b) for b in bad]), str(bad[0]))
  # symbolic: application on spectral leaves is the elementwise product with the factors; array strengths slice-wise
  sp = Space(bits=12)
  x = PolyArr.variables(sp, 'x', (K,) + ms)
  xs = PolyArr.variables(sp, 'xs', (1,) + ms)
  fac = np.asarray(f_scalar(jnp.ones(ms)))

  def app(x, xs):
    out = f_scalar({'a': x, 'b': xs, 't': jnp.asarray(1.5)})
    return (out['a'], out['b'], out['t']), (x * fac, xs * fac, jnp.asarray(1.5))
  prove_close(ctx, 'filter_is_elementwise_product_on_spectral_leaves', app, [x, xs], sp, config=conf)
  # the same on integer-valued leaves STORED as int64 (counters, masks, indices carried in the state next to the prognostic fields)
  spi = Space(bits=12)
  xi = harness.with_dtype(spi, PolyArr.variables(spi, 'xi', (K,) + ms, lo=-4.0, hi=4.0), 'int64')
  xsi = harness.with_dtype(spi, PolyArr.variables(spi, 'xsi', (1,) + ms, lo=-4.0, hi=4.0), 'int32')

  def app_int(x, xs):
    out = f_scalar({'a': x, 'b': xs, 't': jnp.asarray(1.5)})
    return (out['a'], out['b'], out['t']), (x.astype(jnp.float64) * fac, xs.astype(jnp.float64) * fac, jnp.asarray(1.5))
  prove_close(ctx, 'filter_is_elementwise_product_on_spectral_leaves', app_int, [xi, xsi], spi, config=dict(conf, leaf_dtype='int64/int32'))

  def slicewise(x):
    whole = f_vec(x)
    parts = jnp.stack([filtering.exponential_filter(grid, float(avec[k, 0, 0]), 2, 0.1)(x[k]) for k in range(K)])
    return whole, parts
  prove_close(ctx, 'array_valued_strength_acts_slice_by_slice', slicewise, [x], sp, config=conf)
  # array strengths with boundary entries: an exact zero (that level is not filtered) next to positive ones, for the plain and the
  # step filters (tau = inf gives strength dt / tau = 0), exponential and diffusion
  dt = 0.1
  cases = {
      'exponential(a=[0,2,.5])': (lambda a: filtering.exponential_filter(grid, a, 3, 0.2), np.array([0.0, 2.0, 0.5])),
      'exponential(a=[4,0,0])': (lambda a: filtering.exponential_filter(grid, a, 1, 0.0), np.array([4.0, 0.0, 0.0])),
      'diffusion(s=[0,.05,.3])': (lambda a: filtering.horizontal_diffusion_filter(grid, a, 2), np.array([0.0, 0.05, 0.3])),
      'exponential_step(tau=[.004,inf,.02])': (lambda a: (lambda u: ti.exponential_step_filter(grid, dt, a, 2, 0.1)(u, u)), np.array([0.004, np.inf, 0.02])),
      'exponential_leapfrog_step(tau=[inf,.05,.5])': (lambda a: (lambda u: ti.exponential_leapfrog_step_filter(grid, dt, a, 4, 0.0)((u, u), (u, u))[1]), np.array([np.inf, 0.05, 0.5])),
      'diffusion_step(tau=[.3,inf,2])': (lambda a: (lambda u: ti.horizontal_diffusion_step_filter(grid, dt, a, 1)(u, u)), np.array([0.3, np.inf, 2.0])),
  }
  for cname, (mk, vec) in cases.items():
    def slicewise2(x, mk=mk, vec=vec):
      whole = mk(vec[:, None, None])(x)
      parts = jnp.stack([mk(float(vec[k]))(x[k]) for k in range(K)])
      return whole, parts
    prove_close(ctx, 'array_valued_strength_acts_slice_by_slice', slicewise2, [x], sp, config=dict(conf, strengths=cname))
  # Robert-Asselin: newest level untouched (same object), linear-in-time sequences unchanged for every r
  ra = ti.robert_asselin_leapfrog_filter(0.05)
  p, c, f_ = jnp.ones(ms), 2 * jnp.ones(ms), 3 * jnp.ones(ms)
  out = ra((p, c), (c, f_))
  same = out[1] is f_
  ctx.clause('robert_asselin.newest_level_is_same_object', 'discharged' if same else 'failed', config=conf, queries=0)
  if not same:
    ctx.violation('robert_asselin.newest_level_is_same_object', dict(config=conf), {}, 'future time level was modified')
  sp2 = Space(bits=10)
  cc = PolyArr.variables(sp2, 'c', ms); dd = PolyArr.variables(sp2, 'd', ms); r = PolyArr.variables(sp2, 'r', (), lo=0.0, hi=1.0)
  ff = PolyArr.variables(sp2, 'f', ms)

  def ra_lin(c, d, r, f):
    o = ti.robert_asselin_leapfrog_filter(r)((c - d, c), (c, c + d))
    o2 = ti.robert_asselin_leapfrog_filter(r)((c - d, c), (c, f))
    return (o[0], o[1], o2[1]), (c, c + d, f)
  prove_close(ctx, 'robert_asselin.linear_in_time_sequences_and_newest_level_unchanged', ra_lin, [cc, dd, r, ff], sp2, config=conf, scale_floor=1.0)


def make_tasks(tier, seed):
  cfgs = [dict(M=3, L=5, nlon=8, nlat=6), dict(M=4, L=6, nlon=12, nlat=8, impl='fast', base=4), dict(M=2, L=4, nlon=6, nlat=5, radius=3.0)]
  tasks = []
  orders_exp = (1, 2, 3, 6, 18) if tier == 'quick' else (1, 2, 3, 4, 6, 9, 12, 18)
  k = 0
  for cfg in cfgs:
    for kind, orders, cutoffs in (('exponential', orders_exp, (0, 0.3)), ('diffusion', (1, 2, 3, 4, 8, 13), (0,)),
                                  ('exponential_step', (1, 2, 18), (0, 0.4)), ('diffusion_step', (1, 2, 3, 8, 13), (0,))):
      for o, c in itertools.product(orders, cutoffs):
        k += 1
        if tier == 'quick' and cfg is not cfgs[0] and k % 3:
          continue
        tasks.append(dict(name=f'factors-{grids.cfg_name(cfg)}-{kind}-o{o}-c{c}', fn='task_factors', kw=dict(cfg=cfg, kind=kind, order=o, cutoff=c)))
  for cfg in cfgs[:2]:
    tasks.append(dict(name=f'application-{grids.cfg_name(cfg)}', fn='task_application', kw=dict(cfg=cfg)))
  return tasks


def main(tier='quick', seed=0, jobs=None, only=None, t0=None):
  t0 = t0 or time.time()
  tasks = make_tasks(tier, seed)
  if only:
    tasks = [t for t in tasks if only in t['name']]
  results = harness.run_tasks(MOD, tasks, PID, seed, tier, jobs)
  return harness.finalize(
      PID, tier, seed, results, t0,
      explanation='Filter factories are traced with SYMBOLIC strength parameters (attenuation, scale, dt, tau); the factor of each coefficient is '
                  'exp(arg) with exp uninterpreted, and the solver decides for all parameter values > 0: arg depends only on l, arg_0 = 0, arg <= 0, '
                  'arg non-increasing in l, 2 arg(dt/2) = arg(dt), top-mode law; application to pytrees (elementwise product / identity object) and '
                  'Robert-Asselin identities as polynomial identities.',
      bounds=dict(tasks=len(tasks), orders='exponential 1..18, diffusion 1..3 (concrete)', cutoffs='0, 0.3, 0.4 (concrete)', params='symbolic > 0 (dt, tau in (0,10], tau >= 0.01 for the step laws)'),
      assumptions=['exp: exp(0)=1, 0<exp(t)<=1 for t<=0, monotone, exp(s)exp(t)=exp(s+t) (mathematics, not encoded)', 'real-arithmetic semantics'],
      trusted=['JAX tracing', 'dverif interpreter', 'z3'],
      outside=['symbolic order/cutoff', 'float rounding (e.g. factors underflowing to 0 in float32)'])
