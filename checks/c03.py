"""C03 — the implicit solve is the exact inverse of (1 - step * implicit tendency)."""
from __future__ import annotations

import time
import numpy as np

import dverif  # noqa: F401
import jax
import jax.numpy as jnp

from dverif import grids, harness, models
from dverif.harness import prove_close
from dverif.poly import Space, PolyArr

PID = 'C03'
MOD = 'checks.c03'

GRID_SMALL = dict(M=3, L=4, nlon=8, nlat=4)          # construct-like
GRID_FAST = dict(M=3, L=5, nlon=8, nlat=5, impl='fast')
GRID_4 = dict(M=4, L=5, nlon=12, nlat=6, radius=1.7)


def tref_profiles(K, seed):
  rng = np.random.default_rng(seed + 17)
  return {'const': np.full(K, 1.3), 'linear': np.linspace(0.8, 1.6, K),
          'random': np.round(rng.uniform(0.5, 2.0, K), 3),
          # isothermal stretches inside a non-constant profile (isothermal stratosphere / repeated values): some of the couplings vanish, not all
          'isothermal-top': np.concatenate([np.full(min(2, K), 1.1), np.linspace(1.2, 1.6, max(K - 2, 0))]),
          'isothermal-stretch': np.array(([0.9] + [1.3] * 3 + [1.5] * K)[:K])}


def task_pe(ctx, cfg, levels, lname, tname, tref, etas, specs_kw, with_time=False):
  from dinosaur import primitive_equations as pe
  coords = models.make_coords(cfg, levels)
  grid = coords.horizontal
  specs = models.unit_specs(**specs_kw)
  oro = np.zeros(grid.modal_shape)
  eq = pe.PrimitiveEquations(np.asarray(tref, float), oro, coords, specs)
  ctx.encoded(pe.PrimitiveEquations.implicit_terms, pe.PrimitiveEquations.implicit_inverse,
              pe._get_implicit_term_matrix, pe.get_geopotential_diff, pe.get_geopotential_weights,
              pe.get_temperature_implicit, pe.get_temperature_implicit_weights, pe.get_sigma_ratios,
              pe._vertical_matvec, pe._vertical_matvec_per_wavenumber)
  ms = coords.modal_shape; ss = coords.surface_modal_shape
  K = coords.vertical.layers
  conf0 = dict(grid=grids.cfg_name(cfg), levels=lname, K=K, tref=tname, **{k: v for k, v in specs_kw.items()})
  uneven = bool(np.ptp(np.diff(levels)) > 1e-12)

  def state(v, d, t, p):
    return pe.State(v, d, t, p)

  def leaves(s):
    return (s.vorticity, s.divergence, s.temperature_variation, s.log_surface_pressure)

  mk = np.broadcast_to(grid.mask, ms); mks = np.broadcast_to(grid.mask, ss)

  # (b) dense == sparse for the two vertical operators, every input
  sp0 = Space(bits=14)
  T = PolyArr.variables(sp0, 'T', ms, free=mk)
  prove_close(ctx, 'b.geopotential_dense_eq_sparse',
              lambda T: (pe.get_geopotential_diff(T, coords.vertical, specs.R, method='dense'),
                         pe.get_geopotential_diff(T, coords.vertical, specs.R, method='sparse')),
              [T], sp0, config=dict(conf0))
  prove_close(ctx, 'b.temperature_implicit_dense_eq_sparse',
              lambda D: (pe.get_temperature_implicit(D, coords.vertical, eq.reference_temperature, specs.kappa, method='dense'),
                         pe.get_temperature_implicit(D, coords.vertical, eq.reference_temperature, specs.kappa, method='sparse')),
              [T], sp0, config=dict(conf0, uneven=uneven))

  # (c) linearity (additivity + homogeneity of the traced function)
  sp1 = Space(bits=14)
  a = [PolyArr.variables(sp1, n, shp, free=m) for n, shp, m in (('v', ms, mk), ('d', ms, mk), ('t', ms, mk), ('p', ss, mks))]
  b = [PolyArr.variables(sp1, n + "'", shp, free=m) for n, shp, m in (('v', ms, mk), ('d', ms, mk), ('t', ms, mk), ('p', ss, mks))]

  def additive(v, d, t, p, v2, d2, t2, p2):
    f = lambda *xs: leaves(eq.implicit_terms(state(*xs)))
    s = f(v + 2.0 * v2, d + 2.0 * d2, t + 2.0 * t2, p + 2.0 * p2)
    r1 = f(v, d, t, p); r2 = f(v2, d2, t2, p2)
    return s, tuple(x + 2.0 * y for x, y in zip(r1, r2))
  prove_close(ctx, 'c.linearity', additive, a + b, sp1, config=dict(conf0))

  # (a) resolvent identity for each step size, terms method and solve method
  for eta in etas:
    for tm in ('dense', 'sparse'):
      eqm = pe.PrimitiveEquations(np.asarray(tref, float), oro, coords, specs, vertical_matmul_method=tm)
      for method in ('split', 'stacked', 'blockwise'):
        sp = Space(bits=14)
        xs = [PolyArr.variables(sp, n, shp, free=m) for n, shp, m in (('v', ms, mk), ('d', ms, mk), ('t', ms, mk), ('p', ss, mks))]

        def resolvent(v, d, t, p, eqm=eqm, eta=eta, method=method):
          x = state(v, d, t, p)
          y = x - eta * eqm.implicit_terms(x)
          return leaves(eqm.implicit_inverse(y, eta, method=method)), (v, d, t, p)
        prove_close(ctx, 'a.resolvent', resolvent, xs, sp,
                    config=dict(conf0, eta=eta, terms=tm, solve=method, uneven=uneven), scale_floor=1.0)
  if with_time:
    eqt = pe.PrimitiveEquationsWithTime(np.asarray(tref, float), oro, coords, specs)
    ctx.encoded(pe.PrimitiveEquationsWithTime.implicit_terms, pe.PrimitiveEquationsWithTime.implicit_inverse)
    eta = etas[0]
    sp = Space(bits=14)
    xs = [PolyArr.variables(sp, n, shp, free=m) for n, shp, m in (('v', ms, mk), ('d', ms, mk), ('t', ms, mk), ('p', ss, mks))]
    tm_ = PolyArr.variables(sp, 'time', ())

    def resolvent_t(v, d, t, p, tt):
      x = pe.StateWithTime(v, d, t, p, tt)
      y = x - eta * eqt.implicit_terms(x)
      z = eqt.implicit_inverse(y, eta)
      return (z.vorticity, z.divergence, z.temperature_variation, z.log_surface_pressure, z.sim_time), (v, d, t, p, tt)
    prove_close(ctx, 'a.resolvent_with_time', resolvent_t, xs + [tm_], sp, config=dict(conf0, eta=eta), scale_floor=1.0)


def task_derived(ctx, cfg, levels, lname, eta):
  """History independence: an equation object derived from another one that has already been
  used (dataclasses.replace / copy + attribute assignment) must solve ITS OWN system."""
  import copy, dataclasses
  from dinosaur import primitive_equations as pe
  coords = models.make_coords(cfg, levels)
  grid = coords.horizontal
  K = coords.vertical.layers
  ms = coords.modal_shape; ss = coords.surface_modal_shape
  mk = np.broadcast_to(grid.mask, ms); mks = np.broadcast_to(grid.mask, ss)
  base = pe.PrimitiveEquations(np.linspace(0.9, 1.4, K), np.zeros(grid.modal_shape), coords, models.unit_specs())
  # use the parent concretely first, with every method, at the same step size
  z = pe.State(jnp.ones(ms), jnp.ones(ms), jnp.ones(ms), jnp.ones(ss))
  for method in ('split', 'stacked', 'blockwise'):
    jax.block_until_ready(base.implicit_inverse(z, eta, method=method).divergence)
  coords2 = models.make_coords(dict(cfg, radius=2.0), levels)
  derived = {
      'replace(reference_temperature)': dataclasses.replace(base, reference_temperature=np.linspace(1.5, 0.7, K)),
      'replace(physics_specs)': dataclasses.replace(base, physics_specs=models.unit_specs(R=0.6, kappa=0.4)),
      'replace(coords: other radius)': dataclasses.replace(base, coords=coords2),
  }
  c = copy.copy(base); c.reference_temperature = np.linspace(0.6, 1.9, K)
  derived['copy+assign(reference_temperature)'] = c
  for dname, eqd in derived.items():
    for method in ('split', 'stacked', 'blockwise'):
      sp = Space(bits=14)
      xs = [PolyArr.variables(sp, n, shp, free=m) for n, shp, m in (('v', ms, mk), ('d', ms, mk), ('t', ms, mk), ('p', ss, mks))]

      def resolvent(v, d, t, p, eqd=eqd, method=method):
        x = pe.State(v, d, t, p)
        y = x - eta * eqd.implicit_terms(x)
        zz = eqd.implicit_inverse(y, eta, method=method)
        return (zz.vorticity, zz.divergence, zz.temperature_variation, zz.log_surface_pressure), (v, d, t, p)
      prove_close(ctx, 'a.resolvent_derived_equation', resolvent, xs, sp,
                  config=dict(grid=grids.cfg_name(cfg), levels=lname, eta=eta, derived=dname, solve=method), scale_floor=1.0)


def task_time_reversed(ctx, cfg, levels, lname, eta):
  """TimeReversedImExODE wraps terms and solve consistently: inverse(x - eta*(-G)x, eta) = x."""
  from dinosaur import primitive_equations as pe, time_integration as ti
  coords = models.make_coords(cfg, levels)
  grid = coords.horizontal
  specs = models.unit_specs()
  K = coords.vertical.layers
  eq = pe.PrimitiveEquations(np.linspace(0.9, 1.4, K), np.zeros(grid.modal_shape), coords, specs)
  rev = ti.TimeReversedImExODE(eq)
  ctx.encoded(ti.TimeReversedImExODE.implicit_terms, ti.TimeReversedImExODE.implicit_inverse, ti.TimeReversedImExODE.explicit_terms)
  ms = coords.modal_shape; ss = coords.surface_modal_shape
  mk = np.broadcast_to(grid.mask, ms); mks = np.broadcast_to(grid.mask, ss)
  sp = Space(bits=14)
  xs = [PolyArr.variables(sp, n, shp, free=m) for n, shp, m in (('v', ms, mk), ('d', ms, mk), ('t', ms, mk), ('p', ss, mks))]

  def f(v, d, t, p):
    x = pe.State(v, d, t, p)
    y = x - eta * rev.implicit_terms(x)
    z = rev.implicit_inverse(y, eta)
    g1 = rev.implicit_terms(x); g0 = eq.implicit_terms(x)
    return ((z.vorticity, z.divergence, z.temperature_variation, z.log_surface_pressure,
             g1.divergence, g1.temperature_variation, g1.log_surface_pressure),
            (v, d, t, p, -g0.divergence, -g0.temperature_variation, -g0.log_surface_pressure))
  prove_close(ctx, 'a.time_reversed_resolvent', f, xs, sp,
              config=dict(grid=grids.cfg_name(cfg), levels=lname, eta=eta), scale_floor=1.0)


def task_sw(ctx, cfg, nlayers, eta_box, phi_box):
  """Shallow water: step size and reference potentials are symbolic (traced) as well."""
  from dinosaur import shallow_water as sw, coordinate_systems as cs, layer_coordinates as lc, scales
  grid = grids.make_grid(cfg)
  coords = cs.CoordinateSystem(grid, lc.LayerCoordinates(nlayers))
  specs = sw.ShallowWaterSpecs(densities=np.linspace(1.0, 1.5, nlayers), radius=float(grid.radius), angular_velocity=1.0,
                               gravity_acceleration=1.0, scale=scales.DEFAULT_SCALE)
  ctx.encoded(sw.ShallowWaterEquations.implicit_terms, sw.ShallowWaterEquations.implicit_inverse)
  ms = (nlayers,) + grid.modal_shape
  mk = np.broadcast_to(grid.mask, ms)
  sp = Space(bits=10)
  v = PolyArr.variables(sp, 'v', ms, free=mk); d = PolyArr.variables(sp, 'd', ms, free=mk); p = PolyArr.variables(sp, 'p', ms, free=mk)
  eta = PolyArr.variables(sp, 'eta', (), lo=eta_box[0], hi=eta_box[1])
  phi = PolyArr.variables(sp, 'phi', (nlayers,), lo=phi_box[0], hi=phi_box[1])

  def f(v, d, p, eta, phi):
    eq = sw.ShallowWaterEquations(coords, specs, None, phi)
    x = sw.State(v, d, p)
    y = x - eta * eq.implicit_terms(x)
    z = eq.implicit_inverse(y, eta)
    return (z.vorticity, z.divergence, z.potential), (v, d, p)
  ok = prove_close(ctx, 'sw.resolvent_symbolic_step_and_potentials', f, [v, d, p, eta, phi], sp,
                   config=dict(grid=grids.cfg_name(cfg), layers=nlayers, eta_box=list(eta_box), phi_box=list(phi_box)),
                   clear_denominators=True, scale_floor=1.0)
  # definedness: 1 - eta^2 phi lambda_l >= 1 on the box (interval bound recorded by the atoms)
  bad = [a for a in sp.atoms if a['kind'] == 'recip' and not a['arg_lo'] > 0]
  ctx.clause('sw.schur_complement_nonzero', 'discharged' if not bad else 'failed',
             config=dict(layers=nlayers), atoms=len(sp.atoms),
             min_denominator=min([a['arg_lo'] for a in sp.atoms], default=None), queries=0)
  if bad:
    ctx.error('sw.schur_complement_nonzero', 'denominator interval contains 0')

  def lin(v, d, p, v2, d2, p2, phi):
    eq = sw.ShallowWaterEquations(coords, specs, None, phi)
    g = lambda a, b, c: tuple(jax.tree_util.tree_leaves(eq.implicit_terms(sw.State(a, b, c))))
    return g(v + 2.0 * v2, d + 2.0 * d2, p + 2.0 * p2), tuple(x + 2.0 * y for x, y in zip(g(v, d, p), g(v2, d2, p2)))
  v2 = PolyArr.variables(sp, "v'", ms, free=mk); d2 = PolyArr.variables(sp, "d'", ms, free=mk); p2 = PolyArr.variables(sp, "p'", ms, free=mk)
  prove_close(ctx, 'sw.linearity', lin, [v, d, p, v2, d2, p2, phi], sp, config=dict(layers=nlayers))


def make_tasks(tier, seed):
  LS = models.level_sets(seed)
  tasks = []
  quick = tier == 'quick'
  combos = [
      (GRID_SMALL, 'eq1', 'const', (0.1,), {}),
      (GRID_SMALL, 'eq2', 'linear', (-0.1, 1.0), {}),
      (GRID_SMALL, 'dy3', 'linear', (1e-3, -1.0, 50.0), {}),
      (GRID_FAST, 'un4', 'random', (0.1, -1e-3), dict(R=0.7, kappa=0.2857)),
      (GRID_4, 'eq5', 'const', (1.0,), {}),
      (GRID_SMALL, 'dy3', 'isothermal-top', (0.1, -1.0), {}),
      (GRID_SMALL, 'eq5', 'isothermal-stretch', (0.1,), {}),
      (GRID_SMALL, [k for k in LS if k.startswith('rnd')][0], 'random', (-0.1,), dict(R=1.3, kappa=0.4)),
  ]
  if not quick:
    combos += [(dict(M=6, L=8, nlon=20, nlat=10), 'dy5', 'random', (0.1, -1.0, 50.0), {}),
               (dict(M=8, L=9, nlon=25, nlat=13, impl='fast'), 'un4', 'linear', (1e-3, 1.0), {}),
               (GRID_4, 'dy4', 'linear', (-50.0, 0.1), dict(R=0.3, kappa=0.1))]
  for i, (cfg, ln, tn, etas, skw) in enumerate(combos):
    K = len(LS[ln]) - 1
    tasks.append(dict(name=f'pe-{grids.cfg_name(cfg)}-{ln}-{tn}', fn='task_pe',
                      kw=dict(cfg=cfg, levels=LS[ln].tolist(), lname=ln, tname=tn, tref=tref_profiles(K, seed)[tn].tolist(),
                              etas=etas, specs_kw=skw, with_time=(i % 2 == 0))))
  tasks.append(dict(name='derived-equations', fn='task_derived', kw=dict(cfg=GRID_SMALL, levels=LS['dy3'].tolist(), lname='dy3', eta=0.1)))
  tasks.append(dict(name='time-reversed', fn='task_time_reversed', kw=dict(cfg=GRID_SMALL, levels=LS['dy3'].tolist(), lname='dy3', eta=0.1)))
  for nl, eb, pb in ((1, (-50.0, 50.0), (0.1, 10.0)), (2, (-2.0, 2.0), (0.5, 5.0)), (3, (-1.0, 1.0), (0.1, 2.0))):
    tasks.append(dict(name=f'sw-{nl}', fn='task_sw', kw=dict(cfg=GRID_SMALL if nl < 3 else dict(M=2, L=3, nlon=6, nlat=4), nlayers=nl, eta_box=eb, phi_box=pb)))
  return tasks


def main(tier='quick', seed=0, jobs=None, only=None, t0=None):
  t0 = t0 or time.time()
  tasks = make_tasks(tier, seed)
  if only:
    tasks = [t for t in tasks if only in t['name']]
  results = harness.run_tasks(MOD, tasks, PID, seed, tier, jobs)
  return harness.finalize(
      PID, tier, seed, results, t0,
      explanation='Bounded symbolic verification of the resolvent identity inverse(x - eta*G x, eta) = x for every state x '
                  '(all coefficients symbolic) on each enumerated (grid, sigma levels, T_ref, constants, eta, terms method, solve method); '
                  'dense/sparse vertical operators compared for all inputs; linearity as additivity; shallow water with the step size '
                  'and reference potentials symbolic as well (denominators cleared, definedness by interval bound). QF_LRA queries.',
      bounds=dict(tasks=[t['name'] for t in tasks], state_box='[-1,1] per coefficient', eps='1e-9 x max(coefficient mass, 1)',
                  etas='concrete per configuration for the primitive equations (the code requires a static step); symbolic interval for shallow water'),
      assumptions=['real-arithmetic semantics of the float64 IR (np.linalg.inv results are constants of the IR)', 'O(1) physical constants (unit_specs) so all blocks have comparable magnitude'],
      trusted=['JAX tracing', 'dverif interpreter (validated each run)', 'z3/cvc5'],
      outside=['float rounding of evaluation', 'unenumerated level sets / step sizes'])
