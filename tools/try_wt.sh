#!/bin/sh
# try_wt.sh <patch.diff> <check id> [tier] [extra check args...] — run a check against a scratch worktree of /repo HEAD carrying the patch (/repo untouched).
P=$(realpath $1); ID=$2; TIER=${3:-quick}; shift; shift; [ $# -gt 0 ] && shift
cd /verif
WT=/tmp/wt/try.$$
git -C /repo worktree add -q --detach $WT HEAD || exit 3
trap 'git -C /repo worktree remove --force $WT' EXIT
git -C $WT apply $P || { echo "patch does not apply"; exit 3; }
EV=$(mktemp -d)
DVERIF_REPO=$WT DVERIF_EVIDENCE_DIR=$EV ./check $ID --tier $TIER "$@" 2>&1 | grep -v '^WARNING' | cut -c1-260 | tail -${TAILN:-8}
rm -rf $EV
