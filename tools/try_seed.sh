#!/bin/sh
# try_seed.sh <patch.diff> <check id> [tier]  — apply to /repo, run the check, always revert.
P=$1; ID=$2; TIER=${3:-quick}
cd /verif
git -C /repo apply $P || exit 3
./check $ID --tier $TIER 2>&1 | grep -v '^WARNING' | cut -c1-240 | tail -${TAILN:-6}
git -C /repo checkout -- . 
git -C /repo status --short
