#!/bin/sh
# try_seed.sh <patch.diff> <check id> [tier]  — apply to /repo, run the check (evidence to a scratch dir, never /verif/evidence), always revert.
P=$1; ID=$2; TIER=${3:-quick}
cd /verif
git -C /repo apply $P || exit 3
EV=$(mktemp -d)
DVERIF_EVIDENCE_DIR=$EV ./check $ID --tier $TIER 2>&1 | grep -v '^WARNING' | cut -c1-240 | tail -${TAILN:-6}
rm -rf $EV
git -C /repo checkout -- .
git -C /repo status --short
