#!/usr/bin/env python3
"""Writes seeded/<name>/meta.json from the table below + the latest result.txt of tools/seed_matrix.sh."""
import json, os
HERE = os.path.dirname(os.path.dirname(os.path.abspath(__file__)))
META = {
 'C01-stacked-fourier-unweighted': ('C01', 'FastSphericalHarmonics with the stacked Fourier layout (default only for 129..256 longitude wavenumbers, or stacked_fourier_transforms=True) and a forward transform', 'caught as written (quick grid set contains stacked=True variants)'),
 'C02-inverse-laplacian-isclose': ('C02', 'grid radius >~ 1.4e4 (dimensional radius): np.isclose absolute tolerance zeroes low wavenumbers of the inverse Laplacian', 'missed by the first grid set (radii <= 3); caught after adding the radius 6.371e6 / 2e4 / 1e-3 grids that DESIGN had planned'),
 'C03-stale-inverse-cache': ('C03', 'an equation object derived with dataclasses.replace / copy from one that already solved at the same step size (cache keyed by step size only); split/stacked strategies', 'missed by the first version (fresh equation per configuration); caught after adding the derived-equation scenario'),
 'C04-vertical-tref-advection-endpoint-test': ('C04', 'non-constant reference profile whose first and last values coincide', 'the profile set was extended with non-monotone profiles (bulge / zig-zag) after this seed; the original set {const, linear, random} would have missed it'),
 'C05-lsp-gradient-clipped': ('C05', 'orography / ln ps with content at the highest retained total wavenumber AND T_ref != T0', 'caught as written (orography coefficients are symbolic at every retained wavenumber)'),
 'C06-leapfrog-alpha-swapped': ('C06', 'semi_implicit_leapfrog with alpha != 0.5', 'caught as written (stability and theta-method reduction for alpha in {0.6, 0.75, 1.0})'),
 'C07-allgather-bitmask-wrap': ('C07', 'sharded axis of size 6 (even, not a power of two) with the gather strategy', 'caught as written (meshes (1,6,1), (1,1,6) are in the set)'),
 'C08-inverse-laplacian-where-inf': ('C08', 'reverse-mode differentiation on a modal layout padded along total wavenumber', 'caught as written: the -inf constant aborts the encoding of the reverse program and the replay shows NaN'),
 'C09-fast-modal-axes-padding': ('C09', 'FastSphericalHarmonics padded along total wavenumber together with a wavenumber-normalised filter', 'missed by the first version (Grid operations only); caught after adding the filters to the translation-validation set'),
 'C10-moist-vorticity-cross-product-index': ('C10', 'moist equations, equatorial mirror, humidity and surface pressure both with meridional gradients', 'caught as written'),
 'C11-sw-orography-outside-clip': ('C11', 'shallow water with an orography that has content at the top total wavenumber', 'missed by the first version (orography clipped by the harness); caught after using un-clipped orography'),
 'C12-moist-geopotential-default-gas-constant': ('C12', 'moist equations, humidity != 0, scale differing from the default in length/time/temperature', 'caught as written'),
 'C13-centered-difference-mean-inverse': ('C13', 'uneven layer thicknesses', 'caught as written'),
 'C14-nested-scan-reshape': ('C14', 'three or more nesting levels and non-scalar per-step outputs', 'caught as written (per-step outputs of shape (2,3) / (2,))'),
 'C15-diffusion-scale-parenthesis': ('C15', 'horizontal_diffusion_step_filter with order != 1 and dt != tau (patch re-based onto the F2 fix, same semantics)', 'caught as written (symbolic dt, tau; orders 1..3)'),
 'C16-vertical-weights-normalised-by-thickness': ('C16', 'hybrid level set whose top is at non-zero pressure (target layers sticking out of the source range)', 'caught as written (symbolic bounds, low-top hybrid sets)'),
 'C17-dot-interp-unclipped-index': ('C17', 'query exactly at the last node on the matrix (accelerator) code path', 'caught as written (x == node queries on _dot_interp)'),
 'C18-datetime-round-negative-time': ('C18', 'datetimes before the reference datetime (negative model time)', 'caught as written: the real conversion code runs on a symbolic double, the cast is captured, negative minute offsets are in the bit-precise range'),
 'C19-flatten-dict-sep-not-forwarded': ('C19', 'non-default separator together with a nested non-empty dict', 'caught as written (separator is a symbolic character in the CrossHair harnesses)'),
 'C20-held-suarez-wind-clipped': ('C20', 'vorticity/divergence content at the highest retained total wavenumber', 'caught as written (all retained coefficients symbolic)'),
}
for name, (pid, needs, note) in META.items():
  d = os.path.join(HERE, 'seeded', name)
  if not os.path.isdir(d):
    continue
  res = open(os.path.join(d, 'result.txt')).read().strip() if os.path.exists(os.path.join(d, 'result.txt')) else 'not run yet'
  meta = dict(breaks_property=pid, needs_to_manifest=needs, origin='independent sub-agent given only the property text and a scratch worktree',
              confirmed='tools/confirm_seed.sh: demo.py exits 0 on /repo HEAD and non-zero with patch.diff applied (scratch worktree); the sub-agent ran the full test suite with the patch (395 passed, the 2 always-failing tests excepted)',
              detection=note, latest_quick_check_result=res,
              how_to_rerun=f'tools/seed_matrix.sh seeded/{name}/   (or: git -C /repo apply seeded/{name}/patch.diff; ./check {pid}; git -C /repo checkout -- .)')
  json.dump(meta, open(os.path.join(d, 'meta.json'), 'w'), indent=1)
print('meta written')
