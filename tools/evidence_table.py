#!/usr/bin/env python3
"""Prints the per-property summary table of DESIGN §9.13 from the evidence files (evidence/*.json)."""
import json, os, re, sys
HERE = os.path.dirname(os.path.dirname(os.path.abspath(__file__)))
d = sys.argv[1] if len(sys.argv) > 1 else os.path.join(HERE, 'evidence')
print('| id | obligations | discharged | solver queries | solver s | wall s | known findings reported | translator validations |')
print('|---|---|---|---|---|---|---|---|')
tot = 0.0
for i in range(1, 21):
  pid = f'C{i:02d}'
  e = json.load(open(os.path.join(d, pid + '.json')))
  c = e['coverage']
  kf = sorted({re.match(r'(F\d+[ab]?)', str(k.get('id', k) if isinstance(k, dict) else k)).group(1) for k in c.get('known_findings_reported', [])
               if re.match(r'(F\d+[ab]?)', str(k.get('id', k) if isinstance(k, dict) else k))})
  nq = sum(sum(v.values()) for v in c.get('queries_by_logic', {}).values())
  tot += e['wall_s']
  print(f"| {pid} | {c['obligations']} | {c['discharged']} | {nq} | {c['solver_time_s']:.0f} | {e['wall_s']:.0f} | {', '.join(kf) or '–'} | {c.get('translator_validations', 0)} |")
print(f'\ntotal wall {tot / 60:.1f} min, tier {e["tier"]}')
