#!/bin/sh
# confirm_seed.sh <seed dir with patch.diff demo.py> [pytest targets...]
# In a scratch worktree of /repo HEAD: demo passes without the patch, fails with it, given tests still pass.
set -u
D=$1; shift
WT=/tmp/wt/confirm.$$
git -C /repo worktree add -q --detach $WT HEAD || exit 3
trap 'git -C /repo worktree remove --force $WT' EXIT
cd $WT
PYTHONPATH=$WT /venv/bin/python $D/demo.py >/tmp/confirm.$$.a 2>&1; A=$?
git apply $D/patch.diff || { echo "patch does not apply"; exit 3; }
PYTHONPATH=$WT /venv/bin/python $D/demo.py >/tmp/confirm.$$.b 2>&1; B=$?
echo "demo without patch: exit $A ; with patch: exit $B"
tail -3 /tmp/confirm.$$.b
if [ $# -gt 0 ]; then
  PYTHONPATH=$WT /venv/bin/python -m pytest -q -p no:cacheprovider "$@" 2>&1 | tail -2
fi
rm -f /tmp/confirm.$$.a /tmp/confirm.$$.b
