#!/bin/sh
# seed_matrix.sh [seed-dir ...] : for every seeded change, run the check of its property (and optional extra checks listed in
# meta.json "also") on a scratch worktree carrying the patch; writes /verif/seeded/<name>/result.txt.  /repo itself is not touched.
cd /verif
SEEDS=${@:-$(ls -d seeded/*/)}
for d in $SEEDS; do
  name=$(basename $d); pid=$(echo $name | cut -c1-3)
  WT=/tmp/wt/seedrun-$name
  git -C /repo worktree add -q --detach $WT HEAD || continue
  if git -C $WT apply /verif/seeded/$name/patch.diff; then
    EV=$(mktemp -d)
    DVERIF_REPO=$WT DVERIF_EVIDENCE_DIR=$EV ./check $pid --tier quick > $EV/out.txt 2>&1
    code=$?
    { echo "check=$pid exit=$code"; grep -m3 -A1 "^VIOLATION" $EV/out.txt | cut -c1-300; tail -1 $EV/out.txt; } > /verif/seeded/$name/result.txt
    echo "$name: exit $code"
    rm -rf $EV
  else
    echo "$name: patch does not apply"
  fi
  git -C /repo worktree remove --force $WT
done
