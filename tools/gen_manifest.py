#!/usr/bin/env python3
"""Regenerates MANIFEST.json from the table below (keeps it schema-valid)."""
import json, os
HERE = os.path.dirname(os.path.dirname(os.path.abspath(__file__)))

NOTE = ('Real-arithmetic semantics of the float64 jaxpr traced from /repo (constants = exact rationals of the '
        'doubles in the IR); float rounding of evaluation is outside the claim. Configurations (grids, level sets, '
        'meshes) are enumerated, inputs are universally quantified inside the stated box. Trusted: JAX tracing, '
        'dverif interpreter (validated on every run against the jitted function), z3 (+cvc5 cross-check).')

CHECKS = {
  'C01': dict(category='other', technique='symbolic execution of the traced jaxpr (sparse affine/polynomial normal forms) + QF_LRA queries (z3, cvc5 cross-check); mpmath analytic-basis oracle',
              text='Bounded symbolic verification: round trip, mask exactness, integral identity, orthonormality and agreement with the analytic basis are decided for ALL spectral fields in [-1,1]^n on each enumerated grid (both implementations, 3 spacings incl. grids whose truncation sits exactly at the resolution limit, padding options, leading axes); mask and wavenumber tables tied to the documented triangular truncation. Integer-valued fields stored as int64/int32 (symbolic integer values) are transformed like their real values.',
              design='§3 C01'),
  'C02': dict(category='other', technique='symbolic execution of the traced jaxpr + QF_LRA queries; mpmath analytic-derivative oracle',
              text='Bounded symbolic verification: every spectral operator (d_dlon, cos_lat_d_dlat, sec_lat_d_dlat_cos2, grad, div, curl, Laplacian, inverse, clipping, wind conversions) is compared for ALL fields in the box with analytic derivatives of the basis, the eigenvalue specification, vector identities and round trips, on each enumerated grid. Integer-valued coefficients stored as int64 give the same operators as their float64 values.',
              design='§3 C02'),
  'C03': dict(category='other', technique='symbolic execution of the traced jaxpr + QF_LRA queries (monomial abstraction, denominators cleared for shallow water)',
              text='Bounded symbolic verification of the resolvent identity inverse(x - eta G x, eta) = x for ALL states on each enumerated (grid, uneven/even sigma levels, T_ref, constants, step size of either sign, dense/sparse operator, split/stacked/blockwise solve); dense==sparse for all inputs; linearity; derived (replace/copy) equation objects; shallow water with symbolic step and reference potentials. Reference profiles with isothermal stretches (some vertical couplings vanish, not all) are in the set.',
              design='§3 C03'),
  'C04': dict(category='other', technique='symbolic execution of the traced jaxpr (polynomial normal forms, reciprocal atoms reduced modulo their relations) + QF_LRA monomial-abstraction queries, NRA/replay on sat',
              text='Metamorphic polynomial identity decided for ALL admissible states: explicit+implicit tendency of the same physical atmosphere under two reference-temperature profiles agree (dry, with-time, moist, cloud classes; orography; tracers; even/uneven levels; non-monotone profiles).',
              design='§3 C04'),
  'C05': dict(category='other', technique='symbolic execution of the traced jaxpr on balanced families with symbolic parameters and against independent weak-form reference models + QF_LRA monomial-abstraction queries',
              text='Analytically balanced families have identically zero total tendency for ALL parameter values in the box: isothermal rest over arbitrary orography (every retained coefficient symbolic, T0 concrete and symbolic), solid-body rotation in gradient-wind balance (U, per-level temperatures, humidity, ln ps), geostrophic shallow-water jets (jet coefficients, 1-2 layers); moist(q=0)=dry for all states; total tendency of the dry primitive equations AND of the layered shallow-water equations equals an independent weak-form evaluation of the continuous equations (mpmath basis tables, numpy Gauss weights, unsplit documented vertical scheme / physical layer coupling) for all alias-free states. The weak-form reference clause also runs with an integer-valued reference profile passed as int64. MOIST equations against a moist weak-form reference written from the physics (virtual temperature, moist kappa, advected humidity): all states and humidity fields with l <= 1 for vorticity/divergence/surface pressure/humidity, per-layer uniform symbolic humidity for the temperature tendency.',
              design='§3 C05'),
  'C06': dict(category='other', technique='power-series execution of the traced step functions (time step symbolic) + QF_LRA queries on Taylor coefficients; QF_NRA queries on the amplification factor; QF_UFNRA equivalence of the generic drivers with symbolic tableaux and uninterpreted operators; CrossHair for list-length validation',
              text='Order conditions decided for ALL ODE coefficients (cubic scalar and tree-separating non-autonomous problem), reductions to parent explicit/implicit schemes, |R(z)|<=1 on the imaginary axis for all schemes and on the closed half plane where decided, leapfrog theta-method reduction and stability for several alpha, coefficient-length validation; the two generic drivers (imex_runge_kutta, low_storage_runge_kutta_crank_nicolson) equal their textbook definitions for SYMBOLIC coefficients (8 tableau zero patterns, 1-3(5) low-storage stages) and uninterpreted F, G, G^-1.',
              design='§3 C06'),
  'C09': dict(category='translation_validation', technique='symbolic execution of both implementations on the same symbolic inputs + QF_LRA equivalence queries',
              text='Translation validation of RealSphericalHarmonics vs FastSphericalHarmonics under the fixed re-indexing for every Grid operation and each option combination (padding multiple, stacked transforms, einsum order), for ALL inputs in the box; model tendencies compared as polynomial identities.',
              design='§3 C09'),
  'C10': dict(category='other', technique='symbolic execution of the traced jaxpr (polynomial normal forms, matched atoms) + QF_LRA monomial-abstraction queries',
              text='Equivariance decided as polynomial identities for ALL admissible states: tendency(T x) = T tendency(x), one Euler/leapfrog step, and 2-3 frame shallow-water trajectories built by the library trajectory builder (leapfrog + filters), T = rotation by grid steps (several k) or equatorial mirror (vorticity pseudo-scalar), dry/moist primitive equations and shallow water, both transform classes. Non-default options: upwind vertical advection (relu atoms matched on both sides) under mirror and rotation, sparse vertical matmul under the mirror.',
              design='§3 C10'),
  'C11': dict(category='other', technique='one inductive step decided symbolically: jaxpr interpretation on arbitrary states / stand-in operators returning fresh symbols + exact (eps=0) and QF_LRA queries; DCE of the clock output',
              text='Each structural invariant is shown inductive from an ARBITRARY invariant-satisfying state: explicit tendencies vanish exactly outside the truncation/top wavenumber with zero vorticity/divergence mean; implicit terms and solve preserve the subspace; every integrator keeps the complement at 0 and advances the clock by dt; every shipped filter with its options returns the (0,0) entries exactly; direct filtered Euler/leapfrog steps; shallow-water mean thickness, also along 2-frame trajectories of the library trajectory builder.',
              design='§3 C11'),
  'C12': dict(category='other', technique='symbolic execution of the traced jaxpr under two Scale objects + QF_LRA monomial-abstraction queries',
              text='The same SI problem built under two unit scales (default, atmospheric, SI, odd, seeded decades, and the default scale with exactly one base unit changed) gives SI-equal tendencies and Euler step for ALL states in the box: dry and moist primitive equations, Held-Suarez forcing, shallow water incl. 2-frame trajectories.',
              design='§3 C12'),
  'C14': dict(category='other', technique='symbolic execution of the traced combinators with uninterpreted step/filter/scan functions (z3 EUF terms) + QF_UF/QF_UFNRA equivalence queries, including reverse-mode gradient IRs',
              text='trajectory_from_step, repeated, step_with_filters, nested_checkpoint_scan (carries, non-scalar stacked outputs, gradients, explicit length, identity checkpoint, no scanned inputs), accumulate_repeated and digital-filter initialisation (= defining sum with independently computed Lanczos weights, evaluated twice; also with an UNINTERPRETED equation - explicit terms, implicit terms, one solve per step size - driven through the library integrators, whose backward half must integrate the documented time reversal) are equal to their sequential definitions for EVERY step/filter function and all data, for each enumerated split / ordered factorisation.',
              design='§3 C14'),
  'C15': dict(category='other', technique='symbolic execution of the traced filter factories with symbolic strength parameters (z3 terms, exp uninterpreted) + QF_NRA queries on the exp-arguments; polynomial identities for application and Robert-Asselin',
              text='For ALL positive attenuation/scale/dt/tau: factors depend only on total wavenumber, equal 1 for the mean, lie in (0,1], are non-increasing, compose over half steps and follow the documented top-mode law (orders 1..18, cutoffs, both layouts, padded grids); application to pytrees is an elementwise product on spectral leaves and the identity on others; array strengths (incl. exact-zero / infinite-tau entries) act slice-wise for all six factories; Robert-Asselin identities for all r. Integer-stored spectral leaves (int64/int32) are filtered like their real values.',
              design='§3 C15'),
  'C16': dict(category='other', technique='symbolic execution of the traced regridding code with symbolic grid bounds / surface pressure / fields (z3 terms with ite, sin uninterpreted) + QF_LRA / QF_NRA queries with cut-point abstraction; affine normal forms for concrete grid pairs',
              text='Vertical: overlap lemmas for ALL strictly increasing source/target bounds (<= 6x5 cells), weights in [0,1] with unit row sums, hybrid-to-sigma regridding for ALL surface pressures in [400,1100] and fields (constants, convex combination, thickness-weighted integral over the covered range against an independent specification of the hybrid layers, low-top models). Horizontal: latitude overlap identities for ALL increasing centres (<= 4x3), symbolic longitude centres, concrete grid pairs with ALL fields symbolic (constants, range, area integral), documented NaN rules on enumerated missing patterns. Integer (int64/int32, values in [-8,8]) and boolean fields with SYMBOLIC values regrid exactly like their float64 values (QF_LIRA, float->int conversion as ToInt).',
              design='§3 C16'),
  'C17': dict(category='other', technique='symbolic execution of the traced interpolation routines (scan-based searchsorted, clamped dynamic_slice/gather, masks) to z3 terms with symbolic query point, data (and nodes for n<=3) + QF_LRA atom specialisation + QF_NRA queries',
              text='For ALL query points and data (concrete uneven node sets up to 6 nodes; symbolic nodes for n<=3): value at nodes, agreement with the reference piecewise-linear interpolant, neighbour bounds, exactness on affine data, documented extrapolation (constant / unlimited linear / n cells then missing), equality of the two interp code paths, sigma<->pressure on affine columns for all surface pressures, surface-pressure equation, column-wise wrappers; bilinear/nearest regridding constants and identity. Fields with a leading axis and nested tree leaves are converted like their [level,x,y] slices (both directions).',
              design='§3 C17'),
  'C20': dict(category='other', technique='symbolic execution of the traced forcing code to z3 terms (sin/cos/exp uninterpreted with instantiated axioms, floor via to_int) + QF_UFNRA/QF_NRA/QF_LIRA queries with lemma decomposition and cut points; real numpy code on symbolic duck arrays; polynomial identities with atoms',
              text='Radiation: for ALL phases, positions and solar constants: |sin altitude|<=1, irradiance bounds, 0 <= flux <= S+dS, flux = 0 iff sun not above horizon, normalised flux in [0,1], 2pi-periodicity in both phases; orbital phases in [0,2pi) and congruent to elapsed time; SolarRadiation (class level): node coordinates equal the grid specification (offsets, both layouts) and radiation_flux(t) equals the unit function at those nodes for every t. Held-Suarez: friction/relaxation rates for ALL sigma levels and parameters (non-negative, zero above the boundary layer), linear drag law, temperature relaxation affine in T and independent of wind, no surface-pressure tendency, equilibrium floor. Held-Suarez drag/relaxation also on a surface-refined level set.',
              design='§3 C20'),
  'C18': dict(category='other', technique='symbolic scalars (z3 Real; Float64 bit-vector term + rounding-error-model term) executed through the real scales.py / pint / xarray_utils code, numpy integer cast captured; QF_NRA, QF_BVFP (z3 then cvc5) and QF_LIRA queries',
              text='Scale laws (inverse, unit independence, products/quotients/powers) for ALL magnitudes and ALL positive base scales; whole-second durations and minute-resolution datetimes through the real conversion code decided bit-precisely on a bounded range (both signs) and by the rounding-error model up to 2^26 minutes; orbital phases from symbolic day-of-year/hour/minute, and from symbolic model time through the traced SolarRadiation.time_to_orbital_time (in [0, 2 pi) and equal to the reduced reference + rate * t, |phase| <= 2000 rad).',
              design='§3 C18'),
  'C19': dict(category='exploration', technique='element-id symbolic execution of the traced tree utilities / resampling (exact identity queries); CrossHair symbolic execution (z3) of the real dictionary utilities over symbolic keys and separators; enumerated attribute/dataset round trips',
              text='pack/unpack, stack/unstack, split/concat, split_axis and spectral up/down-sampling are exact identities for ALL leaf values on enumerated tree shapes (up-sampling tied to the analytic basis); coordinate-system attrs round trip CONFIRMED OVER ALL PATHS by CrossHair for symbolic grid sizes / spacing / offset / radius / layer count (both implementations); flatten/unflatten explored by CrossHair per tree shape with symbolic keys (<= 2 chars) and separator within a time budget, counterexamples replayed; dataset dimension names and bit-identical read-back on enumerated configurations (modal / nodal, every combination of the optional sample and time axes).',
              design='§3 C19'),
  'C07': dict(category='other', technique='lock-step symbolic execution of the traced shard_map programs over all devices of real CPU meshes (collectives implemented across per-device environments) + QF_LRA / monomial-abstraction equivalence queries against the unsharded program',
              text='For ALL inputs: sharded transforms, longitude derivative, spectral operators, filters, sharded_einsum (gather/scatter strategies, both argument orders), parallel cumulative sums, vertical padding, primitive-equation implicit/explicit operators equal the single-device results after cropping, on meshes with axis sizes 1,2,4,6 (<= 8 devices) and padded layouts; no non-finite constant reaches the IR.',
              design='§3 C07'),
  'C08': dict(category='other', technique='symbolic execution of the jaxprs of jax.jvp / jax.vjp of the real functions (polynomial normal forms with atoms; z3 ite-terms for kinked functions) + exact symbolic differentiation of the primal normal form + QF_LRA monomial-abstraction / QF_NRA queries; definedness hazards settled by QF_NRA witness + replay',
              text='For ALL admissible states, tangents and cotangents: forward mode equals the exact derivative of the primal (chain rule through exp/log/pow/reciprocal atoms), reverse mode is the adjoint of forward mode, and no undefined operation is reachable in the derivative programs (an operation on the edge of its domain is settled by a solver witness replayed on the real jax.jvp/jax.vjp): transforms and spectral operators, filters, dry and moist primitive-equation explicit/implicit terms (dense and cumulative-sum vertical operators, split and blockwise solves; jax linear_call interpreted) and a filtered Euler step, shallow-water steps, gradients through nested_checkpoint_scan / trajectory_from_step / repeated against the flat scan and the sequential loop for EVERY step function (uninterpreted, QF_UFNRA), Held-Suarez forcing, plain and padded layouts; kinks (vertical interpolation routines, upwind advection) decided in the term domain for every branch: derivative of the documented formula off the kink, central-difference limit at the kink, adjointness everywhere. A comparison on data that switches inside the admissible box in a differentiated program is probed: QF_NRA witnesses on either side of and on the switching surface, real jax.jvp against central differences of the real primal there.',
              design='§3 C08'),
  'C13': dict(category='other', technique='symbolic execution of the traced jaxpr + QF_LRA queries (monomial abstraction for bilinear clauses)',
              text='Bounded symbolic verification of the sigma calculus identities for ALL column data and vertical velocities on each enumerated level set (even, dyadic uneven, seeded random), axis and shape. The same calculus on integer-valued data stored as int64/int32 (traced with an integer argument, integer witnesses) equals the documented formulas on the real values. Cumulative sums (both strategies), cumulative / total integrals and both geopotential strategies also on long level axes (130, 600 layers; 1030, 2050 thorough).',
              design='§3 C13'),
}

NOT_YET = {}

def main():
  props = [json.loads(l) for l in open(os.path.join(HERE, 'properties.jsonl'))]
  checks = []
  na = []
  for p in props:
    pid = p['id']
    if pid in CHECKS:
      c = CHECKS[pid]
      checks.append(dict(
          property_id=pid,
          quick_cmd=f'./check {pid} --tier quick',
          thorough_cmd=f'./check {pid} --tier thorough',
          evidence_file=f'/verif/evidence/{pid}.json',
          replay_cmd_template=f'./check {pid} --replay {{path}}',
          engine='dverif',
          level_claimed=dict(category=c['category'], text=c['text'], design_ref=c['design']),
          level_note=c.get('note', NOTE),
          technique=c['technique']))
    else:
      na.append(dict(property_id=pid, reason=NOT_YET.get(pid, 'check not landed yet in this build (planned, see DESIGN.md §3/§7); not claimed until it runs clean')))
  man = dict(
      version=1,
      setup_cmd='./setup.sh',
      hooks=dict(guard='GOOGLE_RESEARCH_DINOSAUR_VERIF', enable='no source hooks are needed; checks import dinosaur from /repo and trace it (GOOGLE_RESEARCH_DINOSAUR_VERIF=1 is set by dverif but read by nothing in /repo)',
                 baseline_off_cmd='cd /repo && /venv/bin/python -m pytest -ra -q -p no:cacheprovider --timeout=900 --continue-on-collection-errors',
                 source_commits=[], add_only=True),
      engines=[dict(name='dverif', path='/verif/dverif', serves_properties=sorted(CHECKS),
                    kind_free_text='symbolic interpreter for jaxprs traced from the real code (polynomial / z3-term domains), SMT back-end (z3 + cvc5), CrossHair and QF_FP harnesses')],
      checks=checks,
      notes='See DESIGN.md. Exit codes: 0 held, 1 VIOLATION (replayed on the real code), 2 harness error / undecided core clause.',
      not_applicable=na)
  with open(os.path.join(HERE, 'MANIFEST.json'), 'w') as f:
    json.dump(man, f, indent=1)
  try:
    import jsonschema
    jsonschema.validate(man, json.load(open('/root/.vp/MANIFEST.schema.json')))
    print('MANIFEST valid;', len(checks), 'checks,', len(na), 'not claimed')
  except ImportError:
    print('written (jsonschema unavailable)')

if __name__ == '__main__':
  main()
