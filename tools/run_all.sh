#!/bin/sh
# run_all.sh [tier] [ids...] : run every check of the tier on /repo, sequentially; summary in /tmp/run_all.<tier>.txt
cd "$(dirname "$0")/.."
TIER=${1:-quick}; shift
IDS=${@:-C01 C02 C03 C04 C05 C06 C07 C08 C09 C10 C11 C12 C13 C14 C15 C16 C17 C18 C19 C20}
OUT=/tmp/run_all.$TIER.txt; : > $OUT
for id in $IDS; do
  s=$(date +%s)
  DVERIF_EVIDENCE_DIR=${RUNALL_EVID:-/verif/evidence} ./check $id --tier $TIER > /tmp/run_all.$TIER.$id.log 2>&1; code=$?
  e=$(date +%s)
  echo "$id exit=$code wall=$((e-s))s $(grep -c '^VIOLATION' /tmp/run_all.$TIER.$id.log) violations $(grep -c '^KNOWN-FINDING' /tmp/run_all.$TIER.$id.log) known | $(tail -1 /tmp/run_all.$TIER.$id.log | cut -c1-200)" >> $OUT
done
echo DONE >> $OUT
