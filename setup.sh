#!/bin/sh
# Offline set-up of the overlay venv used by every check (idempotent).
set -e
cd "$(dirname "$0")"
V=/verif/.venv
if [ ! -x "$V/bin/python" ] || ! "$V/bin/python" -c "import z3, crosshair, mpmath, jax" 2>/dev/null; then
  rm -rf "$V"
  /venv/bin/python -m venv "$V"
  SP=$("$V/bin/python" -c "import site; print(site.getsitepackages()[0])")
  printf "import site; site.addsitedir('/venv/lib/python3.12/site-packages')\n" > "$SP/_venv_overlay.pth"
  PIP_NO_INDEX=1 "$V/bin/pip" install -q --no-index --find-links /opt/veriftools/wheels \
      z3-solver crosshair-tool cvc5 mpmath sympy jsonschema
fi
"$V/bin/python" -c "import z3, crosshair, mpmath, jax, dinosaur; print('setup ok', z3.get_version_string(), jax.__version__, dinosaur.__file__)"
