"""dverif: solver-based checking of google-research/dinosaur (see /verif/DESIGN.md).

Importing this package fixes the JAX configuration every check relies on:
float64 IR, CPU backend, 8 virtual host devices (needed for the mesh checks).
It must be imported before jax.
"""
import os
import sys

os.environ.setdefault('JAX_ENABLE_X64', '1')
os.environ.setdefault('JAX_PLATFORMS', 'cpu')
_flags = os.environ.get('XLA_FLAGS', '')
if 'xla_force_host_platform_device_count' not in _flags:
  os.environ['XLA_FLAGS'] = (_flags + ' --xla_force_host_platform_device_count=8 --xla_cpu_multi_thread_eigen=false intra_op_parallelism_threads=1').strip()
os.environ.setdefault('TF_CPP_MIN_LOG_LEVEL', '3')
for _v in ('OMP_NUM_THREADS', 'OPENBLAS_NUM_THREADS', 'MKL_NUM_THREADS', 'NPROC'):
  os.environ.setdefault(_v, '1')
# hooks guard (no hooks are currently needed; the name is reserved)
os.environ.setdefault('GOOGLE_RESEARCH_DINOSAUR_VERIF', '1')

REPO = os.environ.get('DVERIF_REPO', '/repo')
if REPO not in sys.path:
  sys.path.insert(0, REPO)
