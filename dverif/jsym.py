"""Symbolic interpreter for jaxprs traced from the real dinosaur functions.

* equations whose operands are all concrete are executed by JAX itself
  (`primitive.bind`), so index arithmetic, masks and tables are never re-modelled;
* data-movement primitives are executed by JAX on arrays of integer element ids
  and the symbolic operand is permuted accordingly;
* arithmetic primitives are delegated to the symbolic value classes
  (`poly.PolyArr`, `term.TermArr`).
"""
from __future__ import annotations

import collections
import itertools
import numpy as np
import scipy.sparse as sps

import dverif  # noqa: F401  (jax configuration)
import jax
import jax.numpy as jnp
import jax._src.core as _core

from dverif.poly import PolyArr, atom_apply as _atom_apply_raw, atom_apply_normalised


def atom_apply(kind, arg, extra=None):
  if getattr(arg.sp, 'normalise_atoms', False):
    return atom_apply_normalised(kind, arg, extra)
  return _atom_apply_raw(kind, arg, extra)
from dverif import term as _term
from dverif.term import TermArr


class Unsupported(Exception):
  pass


class UndecidedComparison(Unsupported):
  """A comparison of polynomial operands whose sign is not the same over the whole box (a switch on data).  Carries the
  difference a - b (PolyArr) and the undecided element indices so that a caller can ask the solver for states on either
  side of / on the switching surface and replay the real code there."""

  def __init__(self, msg, name, diff, und):
    super().__init__(msg)
    self.cmp_name = name
    self.diff = diff
    self.und = und


OPTIONS = {}      # 'div0_to_nan': x / 0-constant yields the constant NaN (missing value) instead of aborting


class NonFiniteConstant(Exception):
  """A non-finite float constant reached an arithmetic operation with symbolic data."""


def is_sym(x):
  return isinstance(x, (PolyArr, TermArr))


CALL_PRIMS = {'jit', 'pjit', 'closed_call', 'core_call', 'remat', 'remat2', 'checkpoint',
              'custom_jvp_call', 'custom_vjp_call', 'custom_vjp_call_jaxpr', 'eval_jaxpr',
              'custom_lin', 'named_call'}

STRUCTURAL = {'transpose', 'reshape', 'broadcast_in_dim', 'slice', 'pad', 'concatenate',
              'squeeze', 'expand_dims', 'rev', 'dynamic_slice', 'dynamic_update_slice',
              'gather', 'copy', 'copy_p', 'scatter', 'select_n', 'split', 'real', 'reduce_precision',
              'stack', 'unstack', 'tile'}

PASSTHROUGH = {'stop_gradient', 'optimization_barrier', 'sharding_constraint', 'device_put',
               'reduce_precision', 'copy', 'copy_p', 'pvary', 'mesh_cast', 'reshard'}

ELEMENTWISE_UNARY = {'exp', 'log', 'sin', 'cos', 'sqrt', 'rsqrt', 'tanh', 'abs', 'sign',
                     'floor', 'ceil', 'round', 'log1p', 'expm1', 'square', 'logistic', 'exp2',
                     'is_finite', 'not', 'tan', 'asin', 'acos', 'atan'}
COMPARISONS = {'lt', 'le', 'gt', 'ge', 'eq', 'ne', 'lt_to', 'le_to', 'gt_to', 'ge_to'}


def _sub_jaxpr(params):
  for k in ('jaxpr', 'call_jaxpr', 'fun_jaxpr'):
    if k in params:
      sub = params[k]
      if hasattr(sub, 'jaxpr'):
        return sub.jaxpr, sub.consts
      return sub, ()
  raise Unsupported('call primitive without jaxpr: %s' % list(params))


def _scan_arities(params):
  if 'num_consts' in params:
    return params['num_consts'], params['num_carry']
  ar = [len(t) for t in params['ft_in'].unpack()]
  return ar[0], ar[1]


class Interp:
  """Evaluates a jaxpr on a mix of concrete and symbolic arguments."""

  def __init__(self, sp=None):
    self.sp = sp
    self.stats = collections.Counter()
    self.sym_prims = collections.Counter()

  # ------------------------------------------------------------------ driver
  def run(self, closed, *args):
    return self.eval(closed.jaxpr, closed.consts, *args)

  def eval(self, jaxpr, consts, *args):
    env = {}

    def read(v):
      if isinstance(v, _core.Literal):
        return np.asarray(v.val)
      return env[v]

    for v, c in zip(jaxpr.constvars, consts):
      env[v] = c if is_sym(c) else np.asarray(c)
    assert len(jaxpr.invars) == len(args), (len(jaxpr.invars), len(args))
    for v, a in zip(jaxpr.invars, args):
      env[v] = a if is_sym(a) else np.asarray(a)
    for eqn in jaxpr.eqns:
      ins = [read(v) for v in eqn.invars]
      outs = self.apply(eqn.primitive, eqn.params, ins, eqn)
      if not eqn.primitive.multiple_results:
        outs = [outs]
      for v, o in zip(eqn.outvars, outs):
        if not is_sym(o):
          o = np.asarray(o)
          # keep aval dtype for concrete results
        elif tuple(o.shape) != tuple(v.aval.shape):
          raise AssertionError(f'shape mismatch in {eqn.primitive.name}: {o.shape} vs {v.aval.shape}')
        env[v] = o
    return [read(v) for v in jaxpr.outvars]

  # ------------------------------------------------------------------ dispatch
  def apply(self, prim, params, ins, eqn=None):
    name = prim.name
    self.stats[name] += 1
    if name in CALL_PRIMS:
      sub, consts = _sub_jaxpr(params)
      n = len(sub.invars)
      return self.eval(sub, consts, *ins[len(ins) - n:])
    if name == 'linear_call':
      # jax.custom_derivatives.linear_call: the program that runs is `callee` (after transposition it IS the user-supplied transpose), applied to
      # (callee constants, residuals, linear operands); nothing is assumed about the two functions being transposes of each other
      callee = params['callee']
      return self.eval(callee, [], *ins)
    if name == 'scan':
      return self.scan(params, ins)
    if name == 'while':
      return self.while_loop(params, ins)
    if name == 'cond':
      return self.cond(params, ins)
    if name == 'shard_map':
      return self.shard_map(params, ins)
    if name == 'custom_linear_solve' and any(is_sym(x) for x in ins):
      cl = params['const_lengths']; jp = params['jaxprs']
      n_m, n_v, n_s, n_t = cl.matvec, cl.vecmat, cl.solve, cl.transpose_solve
      solve_consts = ins[n_m + n_v:n_m + n_v + n_s]
      b = ins[n_m + n_v + n_s + n_t:]
      return self.eval(jp.solve.jaxpr, jp.solve.consts, *solve_consts, *b)
    if not any(is_sym(x) for x in ins):
      return self.concrete(prim, params, ins)
    self.sym_prims[name] += 1
    if name not in STRUCTURAL and name != 'convert_element_type':
      for x in ins:
        if isinstance(x, np.ndarray) and x.dtype.kind == 'f' and x.size and not np.all(np.isfinite(x)):
          raise NonFiniteConstant(f'non-finite constant operand of {name} (shape {x.shape})')
    if name == 'ne' and eqn is not None and len(eqn.invars) == 2 and eqn.invars[0] is eqn.invars[1] and isinstance(ins[0], PolyArr):
      return ins[0].nan_rows()          # jnp.isnan(x): only constant NaN entries (missing values) are NaN
    return self.symbolic(prim, params, ins, eqn)

  def concrete(self, prim, params, ins):
    out = prim.bind(*[jnp.asarray(x) for x in ins], **params)
    if prim.multiple_results:
      return [np.asarray(o) for o in out]
    return np.asarray(out)

  # ------------------------------------------------------------------ symbolic rules
  def symbolic(self, prim, params, ins, eqn):
    name = prim.name
    if name in ('uf', 'ufd'):
      symx = next(x for x in ins if is_sym(x))
      return _term.apply_uf(name, params, ins, symx.sp)
    if name in PASSTHROUGH:
      return ins[0] if not prim.multiple_results else list(ins)
    if name == 'convert_element_type':
      nd = np.dtype(params['new_dtype'])
      x = ins[0]
      if nd.kind == 'f':
        return x.to_float() if isinstance(x, TermArr) else x
      if isinstance(x, TermArr):
        return x.convert(nd)
      raise Unsupported('convert_element_type of polynomial to %s' % nd)
    if name == 'zeros_like':
      return np.zeros(ins[0].shape)
    if name in ('add', 'add_any'):
      return self._bin(ins, 'add')
    if name == 'sub':
      return self._bin(ins, 'sub')
    if name == 'mul':
      return self._bin(ins, 'mul')
    if name == 'div' and eqn is not None and np.dtype(eqn.outvars[0].aval.dtype).kind in 'iu':
      a, b = ins
      return a.intdiv(b) if is_sym(a) else b.intdiv(a, swap=True)
    if name == 'rem' and eqn is not None and np.dtype(eqn.outvars[0].aval.dtype).kind in 'iu':
      a, b = self._pair(ins) if not is_sym(ins[0]) else ins
      return a._ew(b, lambda x, y: (int(x) % int(y)) if not (_term.isz(x) or _term.isz(y)) else _term.R(x) % _term.R(y))
    if name == 'rem' and isinstance(next(x for x in ins if is_sym(x)), TermArr):
      a, b = ins
      return a.frem(b) if is_sym(a) else b.frem(a, swap=True)
    if name == 'div':
      if not is_sym(ins[1]) and np.any(np.asarray(ins[1]) == 0):
        if OPTIONS.get('div0_to_nan') and isinstance(ins[0], PolyArr):
          d = np.broadcast_to(np.asarray(ins[1], float), ins[0].shape)
          zero = d == 0
          res = ins[0].scale(1.0 / np.where(zero, 1.0, d)).select_rows(~zero)
          return res.add(PolyArr.const(np.where(zero, np.nan, 0.0), ins[0].sp))
        raise NonFiniteConstant('division of symbolic data by a constant containing 0')
      return self._bin(ins, 'div')
    if name == 'neg':
      return ins[0].neg()
    if name in ('max', 'min'):
      return self._bin(ins, name)
    if name == 'integer_pow':
      return ins[0].ipow(params['y'])
    if name == 'square':
      return ins[0].mul(ins[0])
    if name == 'pow':
      x, y = ins
      if not is_sym(y):
        yv = np.asarray(y)
        if yv.ndim == 0 or np.all(yv == yv.reshape(-1)[0]):
          y0 = float(yv.reshape(-1)[0])
          if is_sym(x):
            if y0 == int(y0) and abs(y0) <= 8:
              return x.ipow(int(y0))
            return x.unary('pow', y0)
      raise Unsupported('pow with symbolic or non-uniform exponent')
    if name in ELEMENTWISE_UNARY:
      return ins[0].unary(name)
    if name in COMPARISONS:
      a, b = self._pair(ins)
      return a.compare(name, b)
    if name in ('and', 'or', 'xor'):
      a, b = self._pair(ins)
      return a.logical(name, b)
    if name == 'select_n' and is_sym(ins[0]):
      return _term.select_n(ins)
    if name == 'clamp':
      lo, x, hi = ins
      t = self._bin([x, lo], 'max')
      return self._bin([t, hi], 'min')
    if name == 'reduce_sum':
      return ins[0].reduce_sum(tuple(params['axes']))
    if name in ('reduce_max', 'reduce_min', 'reduce_and', 'reduce_or', 'reduce_prod', 'argmax', 'argmin'):
      return ins[0].reduce(name, tuple(params['axes']))
    if name == 'cumsum':
      return ins[0].cumsum(params['axis'], bool(params.get('reverse', False)))
    if name in ('cummax', 'cummin', 'cumprod'):
      return ins[0].cumulative(name, params['axis'], bool(params.get('reverse', False)))
    if name == 'dot_general':
      a, b = ins
      dims = params['dimension_numbers']
      if is_sym(a):
        return a.dot_general(b, dims, True)
      return b.dot_general(a, dims, False)
    if name in ('scatter-add', 'scatter_add'):
      if is_sym(ins[1]):
        raise Unsupported(f'{name} with symbolic indices')
      return self.linear_fallback(prim, params, ins)
    if name == 'triangular_solve' and not is_sym(ins[0]):
      return self.linear_fallback(prim, params, ins)
    if name == 'dynamic_slice' and any(is_sym(x) for x in ins[1:]):
      return _term.dynamic_slice(ins, params)
    if name == 'gather' and is_sym(ins[1]):
      return _term.gather_symbolic_index(ins, params)
    if name == 'dynamic_update_slice' and any(is_sym(x) for x in ins[2:]):
      return _term.dynamic_update_slice(ins, params)
    if name in ('scatter', 'scatter-add', 'scatter_add', 'scatter-mul', 'scatter-min', 'scatter-max') and is_sym(ins[1]):
      raise Unsupported(f'{name} with symbolic indices')
    if name == 'sort':
      raise Unsupported('sort on symbolic data')
    if name in STRUCTURAL:
      return self.structural(prim, params, ins)
    raise Unsupported(f'primitive {name} on symbolic operands')

  def _pair(self, ins):
    a, b = ins
    if not is_sym(a):
      a = b.lift(a)
    return a, b

  def _bin(self, ins, op):
    a, b = ins
    if is_sym(a):
      if op == 'add': return a.add(b)
      if op == 'sub': return a.add(b, -1.0)
      if op == 'mul': return a.mul(b)
      if op == 'div': return a.div(b)
      if op == 'max': return a.maximum(b)
      if op == 'min': return a.minimum(b)
    else:
      if op == 'add': return b.add(a)
      if op == 'sub': return b.neg().add(a)
      if op == 'mul': return b.mul(a)
      if op == 'div': return b.rdiv(a)
      if op == 'max': return b.maximum(a)
      if op == 'min': return b.minimum(a)
    raise Unsupported(op)

  # ------------------------------------------------------------------ structural
  def structural(self, prim, params, ins):
    cls = next(type(x) for x in ins if is_sym(x))
    sym0 = next(x for x in ins if is_sym(x))
    parts = []
    id_ins = []
    n = 0
    for x in ins:
      if is_sym(x) or (isinstance(x, np.ndarray) and x.dtype.kind in 'fc'):
        size = int(np.prod(np.shape(x), dtype=int))
        ids = np.arange(n, n + size, dtype=np.int64).reshape(np.shape(x))
        n += size
        parts.append(x if is_sym(x) else np.asarray(x, dtype=float))
        id_ins.append(ids)
      else:
        id_ins.append(x)
    pool = cls.pool(parts, sym0.sp)
    out = prim.bind(*[jnp.asarray(x) for x in id_ins], **params)

    def back(o):
      o = np.asarray(o)
      if o.size and (o.min() < 0 or o.max() >= n):
        raise Unsupported(f'{prim.name}: out-of-range fill in structural op')
      return pool.take(o.astype(np.int64))
    if prim.multiple_results:
      return [back(o) for o in out]
    return back(out)

  def linear_fallback(self, prim, params, ins):
    """Primitive that is affine in its SYMBOLIC operands (concrete ones held fixed): constant part
    from evaluation at zero, linear part from its Jacobian (computed by JAX on the real primitive)."""
    data_pos = [i for i, x in enumerate(ins) if is_sym(x)]
    shapes = [tuple(ins[i].shape) for i in data_pos]

    def f(*data):
      full = list(ins)
      for i, d in zip(data_pos, data):
        full[i] = d
      out = prim.bind(*[jnp.asarray(v) if not isinstance(v, jax.Array) else v for v in full], **params)
      return out[0] if prim.multiple_results else out
    zeros = [jnp.zeros(s) for s in shapes]
    out0 = np.asarray(f(*zeros))
    jac = jax.jacfwd(f, argnums=tuple(range(len(data_pos))))(*zeros)
    res = out0 if np.any(out0 != 0) else None
    for i, J in zip(data_pos, jac):
      J = np.asarray(J).reshape(out0.size, -1)
      x = ins[i]
      contrib = x.reshape((x.size,)).linmap(sps.csr_matrix(J), out0.shape)
      res = contrib if res is None else (contrib.add(res) if not is_sym(res) else res.add(contrib))
    return [res] if prim.multiple_results else res

  # ------------------------------------------------------------------ control flow
  def scan(self, params, ins):
    nc, ncar = _scan_arities(params)
    consts, carry, xs = ins[:nc], list(ins[nc:nc + ncar]), ins[nc + ncar:]
    L = params['length']
    body = params['jaxpr']
    rev = bool(params['reverse'])
    ys = []
    order = range(L) if not rev else range(L - 1, -1, -1)
    for i in order:
      x_i = []
      for x in xs:
        if is_sym(x):
          ids = np.arange(x.size).reshape(x.shape)[i]
          x_i.append(x.reshape((x.size,)).take(ids))
        else:
          x_i.append(np.asarray(x)[i])
      outs = self.eval(body.jaxpr, body.consts, *consts, *carry, *x_i)
      carry, y = list(outs[:ncar]), outs[ncar:]
      ys.append(y)
    if rev:
      ys = ys[::-1]
    stacked = []
    nys = len(body.jaxpr.outvars) - ncar
    for j in range(nys):
      col = [y[j] for y in ys]
      aval = body.jaxpr.outvars[ncar + j].aval
      if not col:
        stacked.append(np.zeros((0,) + tuple(aval.shape), dtype=aval.dtype))
        continue
      if any(is_sym(c) for c in col):
        symc = next(c for c in col if is_sym(c))
        pool = type(symc).pool(col, symc.sp)
        shape = (len(col),) + tuple(symc.shape)
        stacked.append(pool.reshape(shape))
      else:
        stacked.append(np.stack([np.asarray(c) for c in col]))
    return carry + stacked

  def while_loop(self, params, ins):
    cn, bn = params['cond_nconsts'], params['body_nconsts']
    cc, bc, carry = ins[:cn], ins[cn:cn + bn], list(ins[cn + bn:])
    cj, bj = params['cond_jaxpr'], params['body_jaxpr']
    for _ in range(100000):
      (p,) = self.eval(cj.jaxpr, cj.consts, *cc, *carry)
      if is_sym(p):
        raise Unsupported('while loop with symbolic predicate')
      if not bool(p):
        return carry
      carry = list(self.eval(bj.jaxpr, bj.consts, *bc, *carry))
    raise Unsupported('while loop did not terminate')

  def cond(self, params, ins):
    idx = ins[0]
    if is_sym(idx):
      raise Unsupported('cond with symbolic predicate')
    br = params['branches'][int(np.asarray(idx))]
    return self.eval(br.jaxpr, br.consts, *ins[1:])

  def shard_map(self, params, ins):
    from dverif import shmap
    return shmap.shard_map(self, params, ins)


# ---------------------------------------------------------------------------
# PolyArr adapters (methods expected by the interpreter)

def _poly_unary(self, name, extra=None):
  if name == 'square':
    return self.mul(self)
  if name == 'is_finite':
    return np.ones(self.shape, dtype=bool)
  if name in ('exp', 'log', 'sqrt', 'rsqrt', 'sin', 'cos', 'tanh', 'abs', 'sign'):
    return atom_apply(name, self)
  if name == 'pow':
    return atom_apply('pow', self, extra)
  if name == 'log1p':
    return atom_apply('log', self.add(1.0))
  if name == 'expm1':
    return atom_apply('exp', self).add(-1.0)
  raise Unsupported(f'{name} on polynomial operand')


def _relu(d):
  """relu with sign-definite rows simplified exactly (sound: decided by interval bounds)."""
  lo, hi = d.bounds()
  pos = lo >= 0
  neg = hi <= 0
  und = ~(pos | neg)
  out = d.select_rows(pos)
  if und.any():
    out = out.add(atom_apply('relu', d.select_rows(und)).select_rows(und))
  return out


def _poly_maximum(self, other):
  # max(a, b) = b + relu(a - b)
  d = self.add(other, -1.0)
  return _relu(d).add(other)


def _poly_minimum(self, other):
  # min(a, b) = a - relu(a - b)
  d = self.add(other, -1.0)
  return self.add(_relu(d), -1.0)


def _poly_compare(self, name, other):
  """Comparison of polynomial arrays: decided elementwise by interval arithmetic over the box (sound: a verdict is only returned
  when the sign of a - b is the same for EVERY point of the box); an element whose sign is not definite makes the primitive
  unsupported in this domain (a kink inside the box: use the term domain)."""
  other = self._coerce(other) if hasattr(self, '_coerce') else other
  d = self.add(other, -1.0)
  lo, hi = d.bounds()
  if name in ('lt', 'lt_to'):
    yes, no = hi < 0, lo >= 0
  elif name in ('le', 'le_to'):
    yes, no = hi <= 0, lo > 0
  elif name == 'gt':
    yes, no = lo > 0, hi <= 0
  elif name == 'ge':
    yes, no = lo >= 0, hi < 0
  elif name == 'eq':
    yes, no = (lo == 0) & (hi == 0), (lo > 0) | (hi < 0)
  elif name == 'ne':
    yes, no = (lo > 0) | (hi < 0), (lo == 0) & (hi == 0)
  else:
    raise Unsupported(f'{name} on polynomial operands')
  und = ~(yes | no)
  if und.any():
    raise UndecidedComparison(f'comparison {name} on polynomial operands is not decided by interval arithmetic for {int(und.sum())} of {und.size} elements '
                              '(a kink inside the box: use the term domain)', name, d, np.flatnonzero(np.asarray(und).reshape(-1)))
  return np.asarray(yes)


def _poly_reduce(self, name, axes):
  raise Unsupported(f'{name} on polynomial operands')


PolyArr.unary = _poly_unary
PolyArr.maximum = _poly_maximum
PolyArr.minimum = _poly_minimum
PolyArr.compare = _poly_compare
PolyArr.logical = lambda self, name, other: (_ for _ in ()).throw(Unsupported(f'{name} on polynomial operands'))
PolyArr.reduce = _poly_reduce
PolyArr.cumulative = _poly_reduce
PolyArr.lift = lambda self, c: PolyArr.const(np.broadcast_to(np.asarray(c, float), np.shape(c)), self.sp)


# ---------------------------------------------------------------------------
def trace(f, *example_args, **kw):
  """make_jaxpr at float64."""
  return jax.make_jaxpr(f, **kw)(*example_args)
