"""SMT back-end: queries are SMT-LIB2 text, decided by z3 (python wheel, in-process parser)
and cross-checked on a sample by the cvc5 binary.  `unknown` and parser errors are never
counted as success."""
from __future__ import annotations

import os
import shutil
import subprocess
import tempfile
import time
from fractions import Fraction

import z3


class SolverError(Exception):
  pass


def rat(x) -> str:
  """Exact SMT-LIB rational literal of a python float / Fraction / int."""
  if isinstance(x, Fraction):
    n, d = x.numerator, x.denominator
  elif isinstance(x, int):
    n, d = x, 1
  else:
    n, d = float(x).as_integer_ratio()
  s = f'{abs(n)}.0' if d == 1 else f'(/ {abs(n)} {d})'
  return f'(- {s})' if n < 0 else s


class Stats:
  def __init__(self):
    self.by_logic = {}
    self.time = 0.0
    self.samples = []
    self.cross = []
    self.slowest = []          # (seconds, logic, verdict) of the slowest queries: margin against the per-query budgets

  def record(self, logic, verdict, dt, text=None):
    d = self.by_logic.setdefault(logic, {})
    d[verdict] = d.get(verdict, 0) + 1
    self.time += dt
    if dt > 2.0:
      self.slowest = sorted(self.slowest + [(round(dt, 1), logic, verdict)], reverse=True)[:5]
    if text is not None and len(self.samples) < 3 and len(text) < 6000:
      self.samples.append({'logic': logic, 'verdict': verdict, 'smt2': text})

  def merge(self, other: dict):
    for lg, d in other.get('by_logic', {}).items():
      t = self.by_logic.setdefault(lg, {})
      for k, v in d.items():
        t[k] = t.get(k, 0) + v
    self.time += other.get('time', 0.0)
    for s in other.get('samples', []):
      if len(self.samples) < 4:
        self.samples.append(s)
    self.cross.extend(other.get('cross', []))
    self.slowest = sorted(self.slowest + [tuple(x) for x in other.get('slowest', [])], reverse=True)[:5]

  def asdict(self):
    return {'by_logic': self.by_logic, 'time': self.time, 'samples': self.samples, 'cross': self.cross, 'slowest': self.slowest}

  def total(self):
    return sum(sum(d.values()) for d in self.by_logic.values())


STATS = Stats()
_CROSS_BUDGET = {'n': 2}


def check_text(text: str, logic: str, timeout_ms: int = 60000, want_model: bool = False,
               sample: bool = True, tag: str = ''):
  """Decide an SMT-LIB2 script (without check-sat).  Returns (verdict, model|None)."""
  t0 = time.time()
  s = z3.Solver()
  s.set('timeout', timeout_ms)
  try:
    s.from_string(text)
  except z3.Z3Exception as e:
    raise SolverError(f'parse error: {e}')
  r = s.check()
  verdict = str(r)
  if verdict == 'unknown':
    # undecided within the budget (often CPU starvation when many checks run at once): one retry with three times the budget
    STATS.record(logic + tag + '(retry)', 'unknown', time.time() - t0)
    s = z3.Solver(); s.set('timeout', 3 * timeout_ms); s.from_string(text)
    verdict = str(s.check())
  model = None
  if verdict == 'sat' and want_model:
    model = s.model()
  dt = time.time() - t0
  STATS.record(logic + tag, verdict, dt, text if sample else None)
  if sample and _CROSS_BUDGET['n'] > 0 and len(text) < 200000 and verdict in ('sat', 'unsat'):
    _CROSS_BUDGET['n'] -= 1
    cv = cross_check_cvc5(text, logic)
    STATS.cross.append({'logic': logic, 'z3': verdict, 'cvc5': cv})
    if cv in ('sat', 'unsat') and cv != verdict:
      raise SolverError(f'solver disagreement z3={verdict} cvc5={cv}')
  return verdict, model


def check_z3(assertions, logic: str, timeout_ms: int = 60000, want_model: bool = False,
             sample_text: bool = True):
  """Decide a list of z3 assertions built with the python API."""
  t0 = time.time()
  s = z3.Solver()
  s.set('timeout', timeout_ms)
  for a in assertions:
    s.add(a)
  r = s.check()
  verdict = str(r)
  if verdict == 'unknown':
    STATS.record(logic + '(retry)', 'unknown', time.time() - t0)
    s = z3.Solver(); s.set('timeout', 3 * timeout_ms)
    for a in assertions:
      s.add(a)
    verdict = str(s.check())
  model = s.model() if (verdict == 'sat' and want_model) else None
  dt = time.time() - t0
  text = None
  if sample_text and len(STATS.samples) < 3:
    try:
      text = s.to_smt2()
    except Exception:  # pragma: no cover
      text = None
  STATS.record(logic, verdict, dt, text)
  if text is not None and _CROSS_BUDGET['n'] > 0 and len(text) < 200000 and verdict in ('sat', 'unsat'):
    _CROSS_BUDGET['n'] -= 1
    cv = cross_check_cvc5(text.replace('(check-sat)', ''), logic)
    STATS.cross.append({'logic': logic, 'z3': verdict, 'cvc5': cv})
    if cv in ('sat', 'unsat') and cv != verdict:
      raise SolverError(f'solver disagreement z3={verdict} cvc5={cv}')
  return verdict, model


def cross_check_cvc5(text: str, logic: str, timeout_s: int = 20) -> str:
  exe = shutil.which('cvc5')
  if exe is None:
    return 'unavailable'
  if 'set-logic' not in text:
    lg = {'QF_LRA': 'QF_LRA', 'QF_NRA': 'QF_NRA', 'QF_UFNRA': 'QF_UFNRA', 'QF_UFLRA': 'QF_UFLRA',
          'QF_NIRA': 'QF_NIRA', 'QF_UFNIRA': 'QF_UFNIRA', 'QF_LIRA': 'QF_LIRA'}.get(logic, 'ALL')
    text = f'(set-logic {lg})\n' + text
  with tempfile.NamedTemporaryFile('w', suffix='.smt2', delete=False) as f:
    f.write(text + '\n(check-sat)\n')
    path = f.name
  try:
    out = subprocess.run([exe, '--tlimit=%d' % (timeout_s * 1000), path], capture_output=True,
                         text=True, timeout=timeout_s + 5)
    first = (out.stdout.strip().splitlines() or ['error'])[0]
    if '(error' in out.stdout or out.returncode not in (0,):
      return 'error:' + (out.stdout + out.stderr)[:100].replace('\n', ' ')
    return first
  except subprocess.TimeoutExpired:
    return 'timeout'
  finally:
    os.unlink(path)
