"""Term domain: arrays of z3 terms (Real / Int / Bool), for piecewise code.

Elements are Python numbers / bools (concrete) or z3 expressions.  Concrete
float constants enter terms as the exact rational value of the double.
Transcendental functions are uninterpreted functions; the harness instantiates
the axioms it needs on the occurring arguments (`TermSpace.uf_apps`).
"""
from __future__ import annotations

from fractions import Fraction
import itertools
import numpy as np
import z3


def isz(x):
  return isinstance(x, z3.ExprRef)


def R(x):
  """Lift a python scalar to a z3 term (exact rational of the double)."""
  if isz(x):
    return x
  if isinstance(x, (bool, np.bool_)):
    return z3.BoolVal(bool(x))
  if isinstance(x, (int, np.integer)):
    return z3.IntVal(int(x))
  x = float(x)
  if x != x or x in (float('inf'), float('-inf')):
    raise NonFinite(x)
  return z3.RealVal(Fraction(x))


class NonFinite(Exception):
  pass


def _num(a, b):
  a, b = R(a), R(b)
  if z3.is_bool(a): a = z3.If(a, z3.IntVal(1), z3.IntVal(0))
  if z3.is_bool(b): b = z3.If(b, z3.IntVal(1), z3.IntVal(0))
  if z3.is_int(a) and z3.is_real(b): a = z3.ToReal(a)
  if z3.is_int(b) and z3.is_real(a): b = z3.ToReal(b)
  return a, b


def s_add(a, b):
  if not isz(a) and not isz(b): return a + b
  if not isz(a) and a == 0: return b
  if not isz(b) and b == 0: return a
  a, b = _num(a, b); return a + b


def s_sub(a, b):
  if not isz(a) and not isz(b): return a - b
  if not isz(b) and b == 0: return a
  a, b = _num(a, b); return a - b


def s_mul(a, b):
  if not isz(a) and not isz(b): return a * b
  if not isz(a):
    if a == 0: return 0.0
    if a == 1: return b
  if not isz(b):
    if b == 0: return 0.0
    if b == 1: return a
  a, b = _num(a, b); return a * b


def s_div(a, b):
  if not isz(a) and not isz(b):
    return a / b
  if not isz(a) and a == 0: return 0.0
  a, b = _num(a, b)
  if z3.is_int(a): a = z3.ToReal(a)
  if z3.is_int(b): b = z3.ToReal(b)
  return a / b


def s_neg(a):
  return -a


def s_max(a, b):
  if not isz(a) and not isz(b): return max(a, b)
  a, b = _num(a, b); return z3.If(a >= b, a, b)


def s_min(a, b):
  if not isz(a) and not isz(b): return min(a, b)
  a, b = _num(a, b); return z3.If(a <= b, a, b)


def s_cmp(name, a, b):
  if not isz(a) and not isz(b):
    return bool({'lt': a < b, 'le': a <= b, 'gt': a > b, 'ge': a >= b, 'eq': a == b, 'ne': a != b}[name])
  a, b = _num(a, b)
  if a.eq(b):
    return name in ('le', 'ge', 'eq')
  if name == 'lt': return a < b
  if name == 'le': return a <= b
  if name == 'gt': return a > b
  if name == 'ge': return a >= b
  if name == 'eq': return a == b
  if name == 'ne': return a != b
  raise KeyError(name)


def s_bool(x):
  if isz(x):
    if z3.is_bool(x): return x
    return x != 0
  return bool(x)


def s_and(a, b):
  a, b = s_bool(a), s_bool(b)
  if not isz(a): return b if a else False
  if not isz(b): return a if b else False
  return z3.And(a, b)


def s_or(a, b):
  a, b = s_bool(a), s_bool(b)
  if not isz(a): return True if a else b
  if not isz(b): return True if b else a
  return z3.Or(a, b)


def s_not(a):
  a = s_bool(a)
  return z3.Not(a) if isz(a) else (not a)


def s_ite(p, a, b):
  """p ? a : b"""
  p = s_bool(p)
  if not isz(p):
    return a if p else b
  if not isz(a) and not isz(b) and a == b:
    return a
  a, b = _num(a, b)
  return z3.If(p, a, b)


class TermSpace:
  def __init__(self):
    self.ufs = {}
    self.uf_apps = {}      # name -> list of (arg term, result term)
    self.vars = []
    self.assumptions = []  # z3 Bool terms
    self.obligations = []  # definedness: list of (kind, term)
    self.counter = itertools.count()

  def real(self, name):
    v = z3.Real(name); self.vars.append(v); return v

  def uf(self, name, arg):
    f = self.ufs.setdefault(name, z3.Function(name, z3.RealSort(), z3.RealSort()))
    a = R(arg)
    if z3.is_int(a): a = z3.ToReal(a)
    r = f(a)
    apps = self.uf_apps.setdefault(name, [])
    if not any(z3.eq(a, x) for x, _ in apps):
      apps.append((a, r))
    return r


_UNARY_CONCRETE = {
    'exp': np.exp, 'log': np.log, 'sin': np.sin, 'cos': np.cos, 'sqrt': np.sqrt,
    'tanh': np.tanh, 'abs': abs, 'floor': np.floor, 'ceil': np.ceil,
}


class TermArr:
  __slots__ = ('a', 'sp')
  __array_priority__ = 1000

  def __init__(self, a, sp: TermSpace):
    self.a = a
    self.sp = sp

  @staticmethod
  def variables(sp: TermSpace, name, shape, sort='real'):
    shape = tuple(shape)
    n = int(np.prod(shape, dtype=int))
    arr = np.empty(n, dtype=object)
    for i in range(n):
      nm = f'{name}_{i}' if n > 1 or shape else name
      arr[i] = z3.Real(nm) if sort == 'real' else z3.Int(nm)
      sp.vars.append(arr[i])
    return TermArr(arr.reshape(shape), sp)

  @staticmethod
  def from_list(sp, items, shape=None):
    arr = np.empty(len(items), dtype=object)
    for i, it in enumerate(items): arr[i] = it
    if shape is not None: arr = arr.reshape(shape)
    return TermArr(arr, sp)

  @property
  def shape(self): return self.a.shape
  @property
  def size(self): return self.a.size
  @property
  def ndim(self): return self.a.ndim

  def reshape(self, shape):
    return TermArr(self.a.reshape(shape), self.sp)

  def take(self, idx):
    idx = np.asarray(idx)
    return TermArr(self.a.reshape(-1)[idx.reshape(-1)].reshape(idx.shape), self.sp)

  @staticmethod
  def pool(parts, sp):
    flat = []
    for p in parts:
      if isinstance(p, TermArr):
        flat.append(p.a.reshape(-1))
      else:
        o = np.empty(np.size(p), dtype=object)
        o[:] = [float(v) for v in np.asarray(p, dtype=float).reshape(-1)]
        flat.append(o)
    return TermArr(np.concatenate(flat) if flat else np.empty(0, dtype=object), sp)

  def lift(self, c):
    c = np.asarray(c)
    o = np.empty(c.size, dtype=object)
    o[:] = [v.item() for v in c.reshape(-1)]
    return TermArr(o.reshape(c.shape), self.sp)

  def _other(self, other):
    if isinstance(other, TermArr):
      return other.a
    c = np.asarray(other)
    o = np.empty(c.size, dtype=object)
    o[:] = [v.item() for v in c.reshape(-1)]
    return o.reshape(c.shape)

  def _ew(self, other, f, swap=False):
    b = self._other(other)
    shape = np.broadcast_shapes(self.a.shape, b.shape)
    A = np.broadcast_to(self.a, shape); B = np.broadcast_to(b, shape)
    out = np.empty(int(np.prod(shape, dtype=int)), dtype=object)
    if swap:
      for i, (x, y) in enumerate(zip(A.flat, B.flat)): out[i] = f(y, x)
    else:
      for i, (x, y) in enumerate(zip(A.flat, B.flat)): out[i] = f(x, y)
    return TermArr(out.reshape(shape), self.sp)

  def _map(self, f):
    out = np.empty(self.a.size, dtype=object)
    for i, x in enumerate(self.a.flat): out[i] = f(x)
    return TermArr(out.reshape(self.a.shape), self.sp)

  def add(self, other, sign=1.0):
    return self._ew(other, s_add if sign > 0 else s_sub)
  def neg(self): return self._map(s_neg)
  def mul(self, other): return self._ew(other, s_mul)
  def div(self, other):
    self._oblige_nonzero(other)
    return self._ew(other, s_div)
  def intdiv(self, other, swap=False):
    """Integer division (operands are non-negative in the index arithmetic this is used for)."""
    def f(x, y):
      if not isz(x) and not isz(y):
        return int(x) // int(y)
      x, y = R(x), R(y)
      return x / y          # z3 Int division: floor for positive divisors
    return self._ew(other, f, swap=swap)

  def frem(self, other, swap=False):
    """C fmod on reals: a - b * trunc(a / b)."""
    def f(a, b):
      if not isz(a) and not isz(b):
        return float(np.fmod(a, b))
      a, b = _num(a, b)
      if z3.is_int(a): a = z3.ToReal(a)
      if z3.is_int(b): b = z3.ToReal(b)
      q = a / b
      tr = z3.If(q >= 0, z3.ToReal(z3.ToInt(q)), -z3.ToReal(z3.ToInt(-q)))
      return a - b * tr
    return self._ew(other, f, swap=swap)

  def rdiv(self, num):
    self._oblige_nonzero(self)
    return self._ew(num, s_div, swap=True)
  def _oblige_nonzero(self, d):
    if isinstance(d, TermArr):
      for x in d.a.flat:
        if isz(x): self.sp.obligations.append(('nonzero', x))
  def maximum(self, other): return self._ew(other, s_max)
  def minimum(self, other): return self._ew(other, s_min)
  def scale(self, c): return self.mul(c)
  def __add__(self, o): return self.add(o)
  __radd__ = __add__
  def __sub__(self, o): return self.add(o, -1.0)
  def __rsub__(self, o): return self.neg().add(o)
  def __mul__(self, o): return self.mul(o)
  __rmul__ = __mul__
  def __neg__(self): return self.neg()
  def __truediv__(self, o): return self.div(o)

  def ipow(self, n):
    if n == 0: return self._map(lambda x: 1.0)
    if n < 0:
      return self.ipow(-n).rdiv(1.0)
    r = self
    for _ in range(n - 1): r = r.mul(self)
    return r

  def compare(self, name, other):
    name = name.replace('_to', '')
    return self._ew(other, lambda x, y: s_cmp(name, x, y))

  def logical(self, name, other):
    f = {'and': s_and, 'or': s_or, 'xor': lambda x, y: s_or(s_and(x, s_not(y)), s_and(s_not(x), y))}[name]
    return self._ew(other, f)

  def unary(self, name, extra=None):
    sp = self.sp
    if name == 'not': return self._map(s_not)
    if name == 'square': return self.mul(self)
    if name == 'abs':
      return self._map(lambda x: abs(x) if not isz(x) else z3.If(R(x) >= 0, R(x), -R(x)))
    if name == 'sign':
      return self._map(lambda x: float(np.sign(x)) if not isz(x) else
                       z3.If(x > 0, z3.RealVal(1), z3.If(x < 0, z3.RealVal(-1), z3.RealVal(0))))
    if name == 'is_finite':
      return self._map(lambda x: True)
    if name == 'floor':
      def fl(x):
        if not isz(x): return float(np.floor(x))
        if z3.is_int(x): return x
        return z3.ToReal(z3.ToInt(x))
      return self._map(fl)
    if name == 'round':
      half = z3.RealVal(Fraction(1, 2))
      def rnd(x):
        if not isz(x): return float(np.round(x))
        x = R(x)
        if z3.is_int(x): return x
        # round half away from zero (XLA ROUND_AWAY_FROM_ZERO)
        return z3.If(x >= 0, z3.ToReal(z3.ToInt(x + half)), -z3.ToReal(z3.ToInt(-x + half)))
      return self._map(rnd)
    if name == 'ceil':
      def ce(x):
        if not isz(x): return float(np.ceil(x))
        return -z3.ToReal(z3.ToInt(-x))
      return self._map(ce)
    if name in ('exp', 'log', 'sin', 'cos', 'sqrt', 'tanh', 'rsqrt', 'log1p', 'expm1'):
      def f(x):
        if not isz(x) and name in _UNARY_CONCRETE:
          return float(_UNARY_CONCRETE[name](x))
        if name in ('log', 'sqrt', 'rsqrt') and isz(x):
          sp.obligations.append(('positive' if name != 'sqrt' else 'nonneg', x))
        return sp.uf(name, x)
      return self._map(f)
    if name == 'pow':
      def f(x):
        if not isz(x): return float(x) ** extra
        sp.obligations.append(('positive', x))
        return sp.uf(f'pow_{extra!r}'.replace('.', 'p').replace('-', 'm'), x)
      return self._map(f)
    raise NotImplementedError(name)

  def to_float(self):
    def f(x):
      if isinstance(x, (bool, np.bool_)): return 1.0 if x else 0.0
      if not isz(x): return float(x)
      if z3.is_bool(x): return z3.If(x, z3.RealVal(1), z3.RealVal(0))
      if z3.is_int(x): return z3.ToReal(x)
      return x
    return self._map(f)

  def convert(self, nd):
    def f(x):
      if not isz(x):
        return bool(x) if nd.kind == 'b' else int(x)
      if nd.kind == 'b':
        return x if z3.is_bool(x) else x != 0
      if z3.is_bool(x): return z3.If(x, z3.IntVal(1), z3.IntVal(0))
      if z3.is_real(x):
        # C-style truncation toward zero
        return z3.If(x >= 0, z3.ToInt(x), -z3.ToInt(-x))
      return x
    return self._map(f)

  def reduce_sum(self, axes):
    return self._reduce(axes, s_add)

  def reduce(self, name, axes):
    f = {'reduce_max': s_max, 'reduce_min': s_min, 'reduce_and': s_and, 'reduce_or': s_or,
         'reduce_prod': s_mul}.get(name)
    if f is None: raise NotImplementedError(name)
    return self._reduce(axes, f)

  def _reduce(self, axes, f):
    axes = tuple(sorted(a % self.ndim for a in axes))
    xs = np.moveaxis(self.a, axes, tuple(range(len(axes))))
    rest = xs.shape[len(axes):]
    xs = xs.reshape((-1,) + rest)
    out = np.empty(rest, dtype=object)
    for idx in np.ndindex(*rest):
      acc = None
      for k in range(xs.shape[0]):
        v = xs[(k,) + idx]
        acc = v if acc is None else f(acc, v)
      out[idx] = acc
    return TermArr(out, self.sp)

  def cumsum(self, axis, reverse=False):
    return self.cumulative('cumsum', axis, reverse)

  def cumulative(self, name, axis, reverse=False):
    f = {'cumsum': s_add, 'cummax': s_max, 'cummin': s_min, 'cumprod': s_mul}[name]
    out = self.a.copy()
    xs = np.moveaxis(out, axis, 0)
    n = xs.shape[0]
    rng = range(1, n) if not reverse else range(n - 2, -1, -1)
    for i in rng:
      prev = xs[i - 1] if not reverse else xs[i + 1]
      cur = xs[i]
      res = np.empty(cur.size, dtype=object)
      for j, (p, c) in enumerate(zip(np.asarray(prev, dtype=object).flat, np.asarray(cur, dtype=object).flat)):
        res[j] = f(p, c)
      xs[i] = res.reshape(np.shape(cur))
    return TermArr(out, self.sp)

  def dot_general(self, other, dims, self_is_lhs):
    (lc, rc), (lb, rb) = dims
    a = self.a; b = self._other(other)
    if not self_is_lhs:
      a, b = b, a
    lc, rc, lb, rb = map(tuple, (lc, rc, lb, rb))
    a_free = [i for i in range(a.ndim) if i not in lc and i not in lb]
    b_free = [i for i in range(b.ndim) if i not in rc and i not in rb]
    A = np.transpose(a, lb + tuple(a_free) + lc)
    B = np.transpose(b, rb + tuple(b_free) + rc)
    Bs = tuple(a.shape[i] for i in lb); Fa = tuple(a.shape[i] for i in a_free)
    Fb = tuple(b.shape[i] for i in b_free)
    nB, nFa, nFb = (int(np.prod(s, dtype=int)) for s in (Bs, Fa, Fb))
    nC = int(np.prod([a.shape[i] for i in lc], dtype=int))
    A = A.reshape(nB, nFa, nC); B = B.reshape(nB, nFb, nC)
    out = np.empty((nB, nFa, nFb), dtype=object)
    for bi in range(nB):
      for i in range(nFa):
        for j in range(nFb):
          acc = 0.0
          for k in range(nC):
            acc = s_add(acc, s_mul(A[bi, i, k], B[bi, j, k]))
          out[bi, i, j] = acc
    return TermArr(out.reshape(Bs + Fa + Fb), self.sp)

  def linmap(self, L, out_shape):
    L = L.tocsr()
    flat = self.a.reshape(-1)
    out = np.empty(L.shape[0], dtype=object)
    for i in range(L.shape[0]):
      acc = 0.0
      for j, v in zip(L.indices[L.indptr[i]:L.indptr[i + 1]], L.data[L.indptr[i]:L.indptr[i + 1]]):
        acc = s_add(acc, s_mul(float(v), flat[j]))
      out[i] = acc
    return TermArr(out.reshape(out_shape), self.sp)

  def __repr__(self):
    return f'TermArr{self.shape}'


def select_n(ins):
  pred, *cases = ins
  sym = next(x for x in ins if isinstance(x, TermArr))
  P = pred.a if isinstance(pred, TermArr) else np.asarray(pred)
  cs = [c.a if isinstance(c, TermArr) else sym._other(c) for c in cases]
  shape = np.broadcast_shapes(P.shape, *[np.shape(c) for c in cs])
  P = np.broadcast_to(P, shape)
  cs = [np.broadcast_to(c, shape) for c in cs]
  if getattr(sym.sp, 'nan_sentinel', None) is not None:
    def fix(c):
      o = np.empty(c.size, dtype=object)
      for k, v in enumerate(c.flat):
        o[k] = sym.sp.nan_sentinel if (isinstance(v, float) and v != v) else v
      return o.reshape(c.shape)
    cs = [fix(c) for c in cs]
  out = np.empty(int(np.prod(shape, dtype=int)), dtype=object)
  for i, idx in enumerate(np.ndindex(*shape)):
    p = P[idx]
    if len(cs) == 2:
      if isz(p) and not z3.is_bool(p):
        p = p != 0
      out[i] = s_ite(p, cs[1][idx], cs[0][idx])      # select_n: False -> case0, True -> case1
    else:
      # integer selector
      r = cs[-1][idx]
      for k in range(len(cs) - 2, -1, -1):
        r = s_ite(s_cmp('eq', p, k), cs[k][idx], r)
      out[i] = r
  return TermArr(out.reshape(shape), sym.sp)


def _clamp_index(i, lo, hi):
  """XLA clamps dynamic_slice start indices into [0, dim - size]."""
  if not isz(i):
    return int(min(max(int(i), lo), hi))
  return z3.If(i < lo, z3.IntVal(lo), z3.If(i > hi, z3.IntVal(hi), i))


def dynamic_slice(ins, params):
  operand, *starts = ins
  sizes = params['slice_sizes']
  sym = next(x for x in ins if isinstance(x, TermArr))
  op = operand.a if isinstance(operand, TermArr) else sym._other(operand)
  st = []
  for s, dim, size in zip(starts, op.shape, sizes):
    v = s.a.reshape(-1)[0] if isinstance(s, TermArr) else np.asarray(s).item()
    st.append(_clamp_index(v, 0, dim - size))
  out = np.empty(sizes, dtype=object)
  # enumerate possible concrete starts per axis
  ranges = []
  for v, dim, size in zip(st, op.shape, sizes):
    ranges.append([v] if not isz(v) else list(range(0, dim - size + 1)))
  for idx in np.ndindex(*sizes):
    acc = None
    for combo in itertools.product(*ranges):
      val = op[tuple(c + i for c, i in zip(combo, idx))]
      cond = True
      for v, c in zip(st, combo):
        if isz(v):
          cond = s_and(cond, v == c)
      acc = val if acc is None else s_ite(cond, val, acc)
    out[idx] = acc
  return TermArr(out, sym.sp)


def dynamic_update_slice(ins, params):
  """operand with `update` written at (clamped, possibly symbolic) start indices: element j of the result is the update element
  whose position lands on j if there is one (decided by equalities on the symbolic starts), else the operand element."""
  operand, update, *starts = ins
  sym = next(x for x in ins if isinstance(x, TermArr))
  op = operand.a if isinstance(operand, TermArr) else sym._other(operand)
  up = update.a if isinstance(update, TermArr) else sym._other(update)
  st = []
  for s, dim, size in zip(starts, op.shape, up.shape):
    v = s.a.reshape(-1)[0] if isinstance(s, TermArr) else np.asarray(s).item()
    st.append(_clamp_index(v, 0, dim - size))
  ranges = []
  for v, dim, size in zip(st, op.shape, up.shape):
    ranges.append([v] if not isz(v) else list(range(0, dim - size + 1)))
  out = np.empty(op.shape, dtype=object)
  for idx in np.ndindex(*op.shape):
    acc = op[idx]
    for combo in itertools.product(*ranges):
      rel = tuple(i - c for i, c in zip(idx, combo))
      if any(r < 0 or r >= sz for r, sz in zip(rel, up.shape)):
        continue
      cond = True
      for v, c in zip(st, combo):
        if isz(v):
          cond = s_and(cond, v == c)
      acc = s_ite(cond, up[rel], acc)
    out[idx] = acc
  return TermArr(out, sym.sp)


def apply_uf(prim_name, params, ins, sp):
  """Symbolic rule for the uninterpreted primitives uf / ufd (elementwise z3 functions)."""
  name = params['name'] if prim_name == 'uf' else f"{params['name']}__d{params['index']}"
  n = len(ins)
  f = sp.ufs.get((name, n))
  if f is None:
    f = z3.Function(name, *([z3.RealSort()] * (n + 1)))
    sp.ufs[(name, n)] = f
  sym = next(x for x in ins if isinstance(x, TermArr))
  arrs = [x.a if isinstance(x, TermArr) else sym._other(x) for x in ins]
  shape = np.broadcast_shapes(*[a.shape for a in arrs])
  arrs = [np.broadcast_to(a, shape) for a in arrs]
  out = np.empty(int(np.prod(shape, dtype=int)), dtype=object)
  for i, vals in enumerate(zip(*[a.flat for a in arrs])):
    zs = []
    for v in vals:
      v = R(v)
      if z3.is_int(v): v = z3.ToReal(v)
      zs.append(v)
    out[i] = f(*zs)
  return TermArr(out.reshape(shape), sp)


def gather_symbolic_index(ins, params, prim=None):
  """gather whose start indices are symbolic Int terms: each output element is an ite-chain over the
  possible (clamped) values of ITS index vector; the data movement for every concrete index value is
  obtained by running the real primitive on element ids."""
  import jax.numpy as jnp
  from jax import lax
  operand, indices = ins
  sym = next(x for x in ins if isinstance(x, TermArr))
  sp = sym.sp
  op = operand.a if isinstance(operand, TermArr) else sym._other(operand)
  idx = indices.a if isinstance(indices, TermArr) else sym._other(indices)
  dn = params['dimension_numbers']
  k = idx.shape[-1]
  rows = idx.reshape(-1, k)
  nrows = rows.shape[0]
  maxv = [op.shape[dn.start_index_map[c]] - params['slice_sizes'][dn.start_index_map[c]] for c in range(k)]
  ids = np.arange(op.size, dtype=np.int64).reshape(op.shape)
  pool = op.reshape(-1)

  def run(index_array):
    return np.asarray(lax.gather_p.bind(jnp.asarray(ids), jnp.asarray(index_array.reshape(idx.shape), dtype=jnp.int32), **params))
  base = run(np.zeros((nrows, k), dtype=np.int64))
  # which index row does each output element read?  probe row by row (component with a non-trivial range)
  owner = np.full(base.size, -1, dtype=np.int64)
  comp = next((c for c in range(k) if maxv[c] > 0), None)
  if comp is None:
    res = np.empty(base.size, dtype=object); res[:] = pool[base.reshape(-1)]
    return TermArr(res.reshape(base.shape), sp)
  for r in range(nrows):
    probe = np.zeros((nrows, k), dtype=np.int64); probe[r, comp] = 1
    changed = (run(probe) != base).reshape(-1)
    owner[changed] = r
  if (owner < 0).any():
    owner[owner < 0] = 0          # elements independent of the probed component
  out = np.empty(base.size, dtype=object)
  combos = list(itertools.product(*[range(m + 1) for m in maxv]))
  tables = {v: run(np.tile(np.asarray(v, dtype=np.int64), (nrows, 1))).reshape(-1) for v in combos}
  clamped = [[_clamp_index(rows[r, c], 0, maxv[c]) for c in range(k)] for r in range(nrows)]
  for e in range(base.size):
    r = owner[e]
    acc = None
    for v in combos:
      val = pool[tables[v][e]]
      cond = True
      for c in range(k):
        ci = clamped[r][c]
        if isz(ci):
          cond = s_and(cond, ci == v[c])
        elif int(ci) != v[c]:
          cond = False
      if cond is False:
        continue
      acc = val if acc is None else s_ite(cond, val, acc)
    out[e] = acc
  return TermArr(out.reshape(base.shape), sp)


def specialize(terms, assumptions, timeout_ms=2000, stats=None):
  """Partial evaluation under assumptions: every arithmetic comparison atom occurring in `terms`
  that is decided by `assumptions` (checked with two small solver queries per atom) is replaced by
  its truth value; the result is simplified.  Sound: only implied facts are substituted."""
  atoms = {}
  seen = set()

  def rec(t):
    if t.get_id() in seen:
      return
    seen.add(t.get_id())
    if z3.is_bool(t) and t.num_args() == 2 and (z3.is_le(t) or z3.is_lt(t) or z3.is_ge(t) or z3.is_gt(t) or z3.is_eq(t) or z3.is_distinct(t)) \
       and z3.is_arith(t.arg(0)):
      atoms[t.get_id()] = t
    for c in t.children():
      rec(c)
  for t in terms:
    if isz(t):
      rec(t)
  subs = []
  s = z3.Solver(); s.set('timeout', timeout_ms)
  s.add(list(assumptions))
  nq = 0
  for a in atoms.values():
    s.push(); s.add(a); r1 = s.check(); s.pop()
    nq += 1
    if str(r1) == 'unsat':
      subs.append((a, z3.BoolVal(False)))
      continue
    s.push(); s.add(z3.Not(a)); r2 = s.check(); s.pop()
    nq += 1
    if str(r2) == 'unsat':
      subs.append((a, z3.BoolVal(True)))
  if stats is not None:
    stats['atoms'] = stats.get('atoms', 0) + len(atoms)
    stats['decided'] = stats.get('decided', 0) + len(subs)
    stats['queries'] = stats.get('queries', 0) + nq
  out = []
  for t in terms:
    if isz(t):
      t2 = z3.substitute(t, *subs) if subs else t
      out.append(z3.simplify(t2))
    else:
      out.append(t)
  return out


# ---------------------------------------------------------------------------
# TermArr as a duck array through real numpy code (E2): numpy ufuncs dispatch to the symbolic rules

_UFUNC_BIN = {'add': lambda a, b: a.add(b), 'subtract': lambda a, b: a.add(b, -1.0), 'multiply': lambda a, b: a.mul(b),
              'true_divide': lambda a, b: a.div(b), 'divide': lambda a, b: a.div(b), 'maximum': lambda a, b: a.maximum(b),
              'minimum': lambda a, b: a.minimum(b), 'less': lambda a, b: a.compare('lt', b), 'less_equal': lambda a, b: a.compare('le', b),
              'greater': lambda a, b: a.compare('gt', b), 'greater_equal': lambda a, b: a.compare('ge', b),
              'equal': lambda a, b: a.compare('eq', b), 'not_equal': lambda a, b: a.compare('ne', b)}
_UFUNC_UN = {'negative': lambda a: a.neg(), 'cos': lambda a: a.unary('cos'), 'sin': lambda a: a.unary('sin'), 'exp': lambda a: a.unary('exp'),
             'log': lambda a: a.unary('log'), 'sqrt': lambda a: a.unary('sqrt'), 'absolute': lambda a: a.unary('abs'), 'square': lambda a: a.mul(a),
             'floor': lambda a: a.unary('floor')}


def _array_ufunc(self, ufunc, method, *inputs, **kwargs):
  if method != '__call__' or kwargs.get('out') is not None:
    return NotImplemented
  name = ufunc.__name__
  if name in _UFUNC_UN and len(inputs) == 1:
    return _UFUNC_UN[name](self)
  if name in _UFUNC_BIN and len(inputs) == 2:
    a, b = inputs
    if isinstance(a, TermArr):
      return _UFUNC_BIN[name](a, b)
    lifted = b.lift(np.asarray(a))
    return _UFUNC_BIN[name](lifted, b)
  if name == 'power' and len(inputs) == 2 and isinstance(inputs[0], TermArr) and np.ndim(inputs[1]) == 0 and float(inputs[1]) == int(inputs[1]):
    return inputs[0].ipow(int(inputs[1]))
  return NotImplemented


TermArr.__array_ufunc__ = _array_ufunc
TermArr.__getitem__ = lambda self, idx: TermArr(np.asarray(self.a[idx], dtype=object) if not isinstance(self.a[idx], np.ndarray) else self.a[idx], self.sp)
TermArr.__rtruediv__ = lambda self, o: self.rdiv(o)
TermArr.__pow__ = lambda self, n: self.ipow(int(n))
TermArr.__len__ = lambda self: self.a.shape[0]
