"""Uninterpreted functions as JAX primitives.

`uf(name, *xs)` is an elementwise function of n same-shaped arrays about which the symbolic
interpreter knows NOTHING (z3 uninterpreted function); its forward-mode derivative is
sum_i ufd(name, i, *xs) * dx_i with further uninterpreted functions `ufd`.  A verdict obtained
with `uf` in the place of a step/filter function therefore holds for EVERY such function.
For concrete evaluation (translator validation, replay) a fixed smooth function is used.
"""
from __future__ import annotations

import zlib
import numpy as np

import dverif  # noqa: F401
import jax
import jax.numpy as jnp
from jax.extend import core as jcore
from jax.interpreters import ad, mlir, batching

uf_p = jcore.Primitive('uf')
ufd_p = jcore.Primitive('ufd')


def _weights(name, n):
  rng = np.random.default_rng(zlib.crc32(name.encode()))
  return rng.uniform(0.3, 1.1, n) * rng.choice([-1.0, 1.0], n), float(rng.uniform(-0.3, 0.3))


def _concrete(name, xs):
  w, b = _weights(name, len(xs))
  return jnp.tanh(sum(wi * x for wi, x in zip(w, xs)) + b) + 0.1 * xs[0]


def _concrete_d(name, i, xs):
  w, b = _weights(name, len(xs))
  t = jnp.tanh(sum(wi * x for wi, x in zip(w, xs)) + b)
  return w[i] * (1 - t * t) + (0.1 if i == 0 else 0.0)


def uf(name, *xs):
  xs = [jnp.asarray(x, dtype=jnp.float64) for x in xs]
  shape = jnp.broadcast_shapes(*[x.shape for x in xs])
  xs = [jnp.broadcast_to(x, shape) for x in xs]
  return uf_p.bind(*xs, name=name)


def ufd(name, i, *xs):
  return ufd_p.bind(*xs, name=name, index=i)


uf_p.def_impl(lambda *xs, name: _concrete(name, xs))
ufd_p.def_impl(lambda *xs, name, index: _concrete_d(name, index, xs))
uf_p.def_abstract_eval(lambda *xs, name: jax.core.ShapedArray(xs[0].shape, xs[0].dtype))
ufd_p.def_abstract_eval(lambda *xs, name, index: jax.core.ShapedArray(xs[0].shape, xs[0].dtype))
mlir.register_lowering(uf_p, mlir.lower_fun(lambda *xs, name: _concrete(name, xs), multiple_results=False))
mlir.register_lowering(ufd_p, mlir.lower_fun(lambda *xs, name, index: _concrete_d(name, index, xs), multiple_results=False))


def _uf_jvp(primals, tangents, *, name):
  out = uf_p.bind(*primals, name=name)
  tan = None
  for i, t in enumerate(tangents):
    if type(t) is ad.Zero:
      continue
    term = ufd_p.bind(*primals, name=name, index=i) * t
    tan = term if tan is None else tan + term
  if tan is None:
    tan = ad.Zero.from_primal_value(out)
  return out, tan


ad.primitive_jvps[uf_p] = _uf_jvp


def _ufd_jvp(primals, tangents, *, name, index):
  # second derivatives are not needed by the checks; treat ufd as locally constant is NOT sound,
  # so refuse instead of guessing.
  raise NotImplementedError('second derivative of an uninterpreted function')


ad.primitive_jvps[ufd_p] = _ufd_jvp


def _batch(prim):
  def rule(args, dims, **params):
    size = next(a.shape[d] for a, d in zip(args, dims) if d is not batching.not_mapped)
    args = [batching.bdim_at_front(a, d, size) for a, d in zip(args, dims)]
    return prim.bind(*args, **params), 0
  return rule


batching.primitive_batchers[uf_p] = _batch(uf_p)
batching.primitive_batchers[ufd_p] = _batch(ufd_p)
