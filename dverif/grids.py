"""Grid configurations, the 'resolved wavenumber' rule and the independent analytic basis
(mpmath) used as an oracle for C01/C02/C05/C09/C19."""
from __future__ import annotations

import functools
import numpy as np

import dverif  # noqa: F401
from dinosaur import spherical_harmonic as sh


def make_grid(cfg: dict) -> sh.Grid:
  """cfg keys: M, L, nlon, nlat, spacing, offset, radius, impl ('real'|'fast'),
  base (base_shape_multiple), stacked (bool|None), reverse (bool|None), mesh."""
  impl = cfg.get('impl', 'real')
  if impl == 'real':
    cls = sh.RealSphericalHarmonics
  else:
    kw = {}
    for k_src, k_dst in (('base', 'base_shape_multiple'), ('stacked', 'stacked_fourier_transforms'),
                         ('reverse', 'reverse_einsum_arg_order')):
      if cfg.get(k_src) is not None:
        kw[k_dst] = cfg[k_src]
    cls = functools.partial(sh.FastSphericalHarmonics, **kw) if kw else sh.FastSphericalHarmonics
  return sh.Grid(longitude_wavenumbers=cfg['M'], total_wavenumbers=cfg['L'],
                 longitude_nodes=cfg['nlon'], latitude_nodes=cfg['nlat'],
                 latitude_spacing=cfg.get('spacing', 'gauss'),
                 longitude_offset=cfg.get('offset', 0.0), radius=cfg.get('radius'),
                 spherical_harmonics_impl=cls, spmd_mesh=cfg.get('mesh'))


def with_wavenumbers(M, dealiasing='quadratic', **kw):
  order = {'linear': 2, 'quadratic': 3, 'cubic': 4}[dealiasing]
  nlon = order * M + 1
  nlat = -(-nlon // 2)
  return dict(M=M, L=M + 1, nlon=nlon, nlat=nlat, **kw)


def construct(max_wavenumber, gaussian_nodes, **kw):
  return dict(M=max_wavenumber + 1, L=max_wavenumber + 2, nlon=4 * gaussian_nodes,
              nlat=2 * gaussian_nodes, **kw)


def cfg_name(c):
  s = f"{c.get('impl', 'real')}-M{c['M']}L{c['L']}-{c['nlon']}x{c['nlat']}-{c.get('spacing', 'gauss')}"
  if c.get('offset'): s += f"-off{c['offset']}"
  if c.get('radius') is not None: s += f"-r{c['radius']}"
  for k in ('base', 'stacked', 'reverse'):
    if c.get(k) is not None: s += f'-{k}{int(c[k])}'
  return s


def quick_grids(seed=0):
  """Fixed core set (M <= 5) + one seeded grid."""
  G = [
      with_wavenumbers(3, 'linear'),
      with_wavenumbers(4, 'quadratic', radius=2.5),
      with_wavenumbers(5, 'quadratic', impl='fast'),
      with_wavenumbers(2, 'cubic', offset=0.3),
      with_wavenumbers(5, 'linear', impl='fast', base=4, stacked=False),
      construct(4, 3),                                   # T-like ratio
      construct(3, 2, impl='fast', base=1, stacked=True),  # TL-like: top wavenumbers unresolved by the quadrature
      dict(M=3, L=4, nlon=10, nlat=9, spacing='equiangular', radius=0.5),
      dict(M=3, L=4, nlon=8, nlat=8, spacing='equiangular', impl='fast', offset=1.0),
      dict(M=3, L=4, nlon=9, nlat=9, spacing='equiangular_with_poles'),
      dict(M=2, L=3, nlon=6, nlat=6, spacing='equiangular_with_poles', impl='fast', base=4, stacked=True),
      dict(M=4, L=6, nlon=9, nlat=7, spacing='gauss', impl='fast', base=1, stacked=False, reverse=True),
      dict(M=1, L=2, nlon=4, nlat=3),
      with_wavenumbers(3, 'quadratic', radius=6.371e6),          # dimensional radius (metres)
      dict(M=3, L=5, nlon=8, nlat=6, impl='fast', radius=2.0e4, base=2),
      with_wavenumbers(2, 'quadratic', radius=1e-3),
      # TIGHT grids: the truncation sits exactly at the limit the quadrature resolves (gauss: l_max = nlat - 1; both equiangular rules:
      # 2 l_max = nlat - 1), odd and even node counts - an error in the highest-degree exactness of the weights only shows here
      dict(M=3, L=5, nlon=8, nlat=5),
      dict(M=4, L=6, nlon=9, nlat=6, impl='fast', base=2),
      dict(M=4, L=5, nlon=10, nlat=9, spacing='equiangular_with_poles'),
      dict(M=3, L=4, nlon=8, nlat=8, spacing='equiangular_with_poles', impl='fast'),
      dict(M=3, L=4, nlon=8, nlat=7, spacing='equiangular'),
      dict(M=4, L=5, nlon=9, nlat=10, spacing='equiangular', impl='fast', base=1),
      dict(M=5, L=7, nlon=12, nlat=13, spacing='equiangular_with_poles', radius=1.7),
  ]
  rng = np.random.default_rng(seed)
  M = int(rng.integers(2, 6)); L = M + int(rng.integers(0, 3))
  nlon = 2 * M - 1 + int(rng.integers(0, 6)); nlat = L + int(rng.integers(0, 5))
  G.append(dict(M=M, L=L, nlon=nlon, nlat=nlat, spacing=['gauss', 'equiangular', 'equiangular_with_poles'][int(rng.integers(0, 3))],
                impl=['real', 'fast'][int(rng.integers(0, 2))], radius=float(np.round(rng.uniform(0.5, 3), 3)),
                offset=float(np.round(rng.uniform(0, 1), 3))))
  return G


def thorough_grids(seed=0):
  G = list(quick_grids(seed))
  for M in (6, 8, 10, 12):
    for sp_ in ('gauss', 'equiangular', 'equiangular_with_poles'):
      G.append(with_wavenumbers(M, 'quadratic', spacing=sp_, impl='fast' if M % 4 == 0 else 'real'))
  G.append(construct(21, 16))                    # T21
  G.append(construct(31, 16, impl='fast'))       # TL31
  G.append(construct(31, 24))                    # T31
  G.append(construct(47, 24, impl='fast'))       # TL47
  return G


# ---------------------------------------------------------------------------
# resolved rule (specification side; derived from quadrature exactness, not from the code)

def resolved_l(cfg) -> int:
  """Largest total wavenumber l such that products of two basis functions of degree <= l are
  integrated exactly by the latitude quadrature: Gauss n nodes: degree 2n-1; both equiangular
  rules (interpolatory, n nodes): degree n-1."""
  n = cfg['nlat']
  if cfg.get('spacing', 'gauss') == 'gauss':
    return n - 1
  return (n - 1) // 2


def resolved_m(cfg) -> int:
  """Largest zonal wavenumber resolved by the longitude trapezoid rule: 2m <= nlon-1."""
  return (cfg['nlon'] - 1) // 2


def resolved_mask(grid, cfg, lmax=None, extra_l=0) -> np.ndarray:
  """Boolean modal mask of coefficients that are both inside the triangular truncation and
  resolved by the quadrature (|m| <= resolved_m, l <= min(resolved_l, lmax))."""
  m, l = grid.modal_mesh
  lr = resolved_l(cfg) - extra_l
  if lmax is not None:
    lr = min(lr, lmax)
  return grid.mask & (np.abs(m) <= resolved_m(cfg)) & (l <= lr)


# ---------------------------------------------------------------------------
# analytic real spherical harmonics (mpmath), unit L2 norm on the unit sphere,
# Condon-Shortley phase:  Y_l^{m,c} = N_lm P_l^m(mu) cos(m lam)/sqrt(pi) , m>0 ; m=0: /sqrt(2 pi)

def _mp():
  import mpmath
  mpmath.mp.dps = 40
  return mpmath


def _ferrers(mp, l, m, x):
  """Ferrers function P_l^m(x) with Condon-Shortley phase from the explicit finite sum
  P_l(x) = 2^-l sum_k (-1)^k C(l,k) C(2l-2k,l) x^(l-2k), differentiated m times."""
  s = mp.mpf(0)
  for k in range(0, (l - m) // 2 + 1):
    e = l - 2 * k
    if e < m:
      break
    c = mp.mpf((-1) ** k) * mp.binomial(l, k) * mp.binomial(2 * l - 2 * k, l) * mp.factorial(e) / mp.factorial(e - m)
    s += c * (x ** (e - m) if e - m > 0 else 1)
  return mp.mpf((-1) ** m) * (1 - x * x) ** (mp.mpf(m) / 2) * s / mp.mpf(2) ** l


@functools.lru_cache(maxsize=64)
def legendre_tables(M: int, L: int, mu_key: tuple):
  """Returns P[m, j, l] (normalised on [-1,1]) and dP[m, j, l] = (1-mu^2) dP/dmu, float64,
  computed with mpmath from closed forms (independent of the code's recurrence)."""
  mp = _mp()
  mu = [mp.mpf(v) for v in mu_key]
  P = np.zeros((M, len(mu), L)); dP = np.zeros((M, len(mu), L))
  for m in range(M):
    for l in range(m, L):
      norm = mp.sqrt(mp.mpf(2 * l + 1) / 2 * mp.factorial(l - m) / mp.factorial(l + m))
      for j, x in enumerate(mu):
        pl = _ferrers(mp, l, m, x)
        plp1 = _ferrers(mp, l + 1, m, x)
        P[m, j, l] = float(norm * pl)
        # (1-x^2) dP_l^m/dx = (l+1) x P_l^m - (l-m+1) P_{l+1}^m
        dP[m, j, l] = float(norm * ((l + 1) * x * pl - (l - m + 1) * plp1))
  return P, dP


@functools.lru_cache(maxsize=64)
def fourier_tables(M: int, lam_key: tuple):
  """C[i, m], S[i, m] = cos(m lam_i)/sqrt(pi), sin(m lam_i)/sqrt(pi) (m=0: 1/sqrt(2 pi), 0)."""
  mp = _mp()
  C = np.zeros((len(lam_key), M)); S = np.zeros((len(lam_key), M))
  for i, lv in enumerate(lam_key):
    lam = mp.mpf(lv)
    for m in range(M):
      if m == 0:
        C[i, 0] = float(1 / mp.sqrt(2 * mp.pi))
      else:
        C[i, m] = float(mp.cos(m * lam) / mp.sqrt(mp.pi)); S[i, m] = float(mp.sin(m * lam) / mp.sqrt(mp.pi))
  return C, S


def analytic_basis(grid, cfg):
  """Tables Y, dlamY, cosdthY of shape nodal_shape + modal_shape: values of the analytic basis
  function (and its lambda / cos(theta) d/dtheta derivatives) of each modal slot at each node.
  Slots outside the mask (and padding nodes) are zero."""
  M, L = cfg['M'], cfg['L']
  nlon, nlat = cfg['nlon'], cfg['nlat']
  lon, sinlat = grid.nodal_axes
  lam = tuple(float(v) - float(cfg.get('offset', 0.0)) for v in lon[:nlon])
  # longitudes relative to the first node: the transform's basis is anchored at node 0
  mu = tuple(float(v) for v in sinlat[:nlat])
  P, dP = legendre_tables(M, L, mu)
  C, S = fourier_tables(M, lam)
  nshape = grid.nodal_shape; mshape = grid.modal_shape
  Y = np.zeros(nshape + mshape); dl = np.zeros_like(Y); dt = np.zeros_like(Y)
  mm, ll = grid.modal_axes
  fast = cfg.get('impl', 'real') == 'fast'
  for a in range(mshape[0]):
    if fast:
      if a >= 2 * M: continue
      m = a // 2; is_sin = (a % 2 == 1)
    else:
      m = (a + 1) // 2; is_sin = (a > 0 and a % 2 == 0)
    if m == 0 and is_sin:
      continue
    F = S[:, m] if is_sin else C[:, m]
    dF = (m * C[:, m]) if is_sin else (-m * S[:, m])
    for l in range(m, L):
      Y[:nlon, :nlat, a, l] = np.outer(F, P[m, :, l])
      dl[:nlon, :nlat, a, l] = np.outer(dF, P[m, :, l])
      dt[:nlon, :nlat, a, l] = np.outer(F, dP[m, :, l])
  return Y, dl, dt


def spec_mask(cfg, modal_shape) -> np.ndarray:
  """Specification of the degrees of freedom of a real spherical-harmonic layout, written from the documented layouts (NOT from
  the code's mask): slot (row, l) is a coefficient iff its zonal wavenumber m satisfies |m| <= l, l < L, |m| < M; the real layout
  has rows m = 0, +1, -1, +2, -2, ... (2M-1 rows), the fast layout rows m = 0, (unused imaginary part of m = 0), +1, -1, ...
  (2M rows) followed by zero padding in both directions."""
  M, L = cfg['M'], cfg['L']
  out = np.zeros(modal_shape, bool)
  fast = cfg.get('impl', 'real') == 'fast'
  for a in range(modal_shape[0]):
    if fast:
      if a >= 2 * M or a == 1:
        continue
      m = a // 2
    else:
      if a >= 2 * M - 1:
        continue
      m = (a + 1) // 2
    for l in range(min(L, modal_shape[1])):
      if m <= l:
        out[a, l] = True
  return out


def spec_modal_axes(cfg, modal_shape):
  """Documented wavenumber tables: signed m per row (0 on unused / padding rows), l per column (0 on padding columns)."""
  M, L = cfg['M'], cfg['L']
  fast = cfg.get('impl', 'real') == 'fast'
  mrow = np.zeros(modal_shape[0], int)
  for a in range(modal_shape[0]):
    if fast:
      if a < 2 * M and a >= 2:
        mrow[a] = (a // 2) * (1 if a % 2 == 0 else -1)
    else:
      if a < 2 * M - 1 and a >= 1:
        mrow[a] = ((a + 1) // 2) * (1 if a % 2 == 1 else -1)
  lcol = np.where(np.arange(modal_shape[1]) < L, np.arange(modal_shape[1]), 0)
  return mrow, lcol


def exercise(grid):
  """Use a grid object the way set-up code does BEFORE the clauses run on it: every public operation once, with non-default option values
  (clip counts 2 and 3, clip=False, float32 and float64 data, leading axes).  Results are discarded; anything the object caches as a side effect of
  these calls must not influence later calls with other arguments."""
  import jax.numpy as jnp
  from dinosaur import spherical_harmonic as sh
  ms, ns = grid.modal_shape, grid.nodal_shape
  # first use in single-precision mode (jax_enable_x64 switched off), as a float32 model run would do, before the double-precision clauses
  import jax
  with jax.enable_x64(False):
    z32 = jnp.ones(ms, jnp.float32); n32 = jnp.ones(ns, jnp.float32)
    grid.to_nodal(z32); grid.to_modal(n32); grid.integrate(n32); grid.laplacian(z32); grid.clip_wavenumbers(z32, n=2)
  for dt in (np.float64, np.float32):
    z = jnp.ones((2,) + ms, dt); zn = jnp.ones((2,) + ns, dt)
    grid.clip_wavenumbers(z, n=3); grid.clip_wavenumbers(z[0], n=2)
    grid.to_nodal(z); grid.to_modal(zn); grid.integrate(zn)
    grid.laplacian(z); grid.inverse_laplacian(z); grid.d_dlon(z); grid.cos_lat_d_dlat(z); grid.sec_lat_d_dlat_cos2(z)
    grid.cos_lat_grad(z, clip=False); grid.div_cos_lat((z, z), clip=False); grid.curl_cos_lat((z, z), clip=False)
    try:
      sh.get_cos_lat_vector(z, z, grid, clip=False)
    except Exception:  # noqa: BLE001  (pole grids: known finding F9)
      pass
  return grid
