"""Model builders shared by the checks: level sets, coordinate systems, equation objects and
symbolic admissible states."""
from __future__ import annotations

import numpy as np

import dverif  # noqa: F401
import jax.numpy as jnp

from dverif import grids
from dverif.poly import Space, PolyArr


def level_sets(seed=0):
  """name -> boundaries. Dyadic uneven sets are exact in binary."""
  rng = np.random.default_rng(seed)
  out = {
      'eq1': np.linspace(0, 1, 2), 'eq2': np.linspace(0, 1, 3), 'eq3': np.linspace(0, 1, 4),
      'eq5': np.linspace(0, 1, 6),
      'dy2': np.array([0, 0.25, 1.0]), 'dy3': np.array([0, 0.125, 0.5, 1.0]),
      'dy4': np.array([0, 0.0625, 0.25, 0.625, 1.0]), 'dy5': np.array([0, 0.125, 0.25, 0.5, 0.875, 1.0]),
      'un4': np.array([0, 0.1, 0.3, 0.6, 1.0]),
  }
  k = int(rng.integers(3, 6))
  b = np.sort(rng.uniform(0.05, 0.95, k - 1))
  out[f'rnd{k}'] = np.concatenate([[0.0], np.round(b, 4), [1.0]])
  return out


def make_coords(cfg, boundaries, mesh=None):
  from dinosaur import coordinate_systems as cs, sigma_coordinates as sc
  c = dict(cfg)
  grid = grids.make_grid(c)
  return cs.CoordinateSystem(grid, sc.SigmaCoordinates(np.asarray(boundaries)), spmd_mesh=mesh)


def admissible_masks(grid):
  """(mask for scalars incl. mean, mask for zero-mean fields); top total wavenumber excluded."""
  m, l = grid.modal_mesh
  L = grid.total_wavenumbers
  base = grid.mask & (l <= L - 2)
  return base, base & (l >= 1)


def pe_state_vars(sp: Space, coords, *, tracers=(), box=1.0, free_top=False, prefix='', lsp_box=None,
                  support=None, tracer_box=None):
  """Symbolic admissible PE state: list of PolyArr [vor, div, T, lsp, *tracers].

  Zero-mean vorticity/divergence, top wavenumber and masked entries fixed to 0 (unless free_top).
  """
  grid = coords.horizontal
  ms = coords.modal_shape; ss = coords.surface_modal_shape
  base, zm = admissible_masks(grid)
  if free_top:
    m, l = grid.modal_mesh
    base = grid.mask; zm = grid.mask & (l >= 1)
  if support is not None:
    base = base & support; zm = zm & support
  b = lambda msk, shp: np.broadcast_to(msk, shp)
  out = [PolyArr.variables(sp, prefix + 'vor', ms, -box, box, free=b(zm, ms)),
         PolyArr.variables(sp, prefix + 'div', ms, -box, box, free=b(zm, ms)),
         PolyArr.variables(sp, prefix + 'T', ms, -box, box, free=b(base, ms)),
         PolyArr.variables(sp, prefix + 'lsp', ss, -(lsp_box or box), (lsp_box or box), free=b(base, ss))]
  for t in tracers:
    tb = (tracer_box or {}).get(t, box)
    out.append(PolyArr.variables(sp, prefix + t, ms, -tb, tb, free=b(base, ms)))
  return out


def default_specs(scale=None):
  from dinosaur import primitive_equations as pe, scales
  return pe.PrimitiveEquationsSpecs.from_si(scale=scale or scales.DEFAULT_SCALE)


def unit_specs(R=1.0, kappa=0.25, g=1.0, omega=1.0, radius=1.0, Rv=1.6, cpv=7.0):
  """O(1) constants so that all terms of the equations have comparable magnitude in [-1,1] boxes."""
  from dinosaur import primitive_equations as pe, scales
  return pe.PrimitiveEquationsSpecs(radius=radius, angular_velocity=omega, gravity_acceleration=g,
                                    ideal_gas_constant=R, water_vapor_gas_constant=Rv,
                                    water_vapor_isobaric_heat_capacity=cpv, kappa=kappa,
                                    scale=scales.DEFAULT_SCALE)
