"""Entry point: python -m dverif.cli <Cxx> [--tier quick|thorough] [--replay path]."""
import argparse
import importlib
import os
import sys
import time

import dverif  # noqa: F401


def main(argv=None):
  ap = argparse.ArgumentParser()
  ap.add_argument('pid')
  ap.add_argument('--tier', default=os.environ.get('VERIF_TIER', 'quick'))
  ap.add_argument('--replay', default=None)
  ap.add_argument('--jobs', type=int, default=None)
  ap.add_argument('--only', default=None, help='substring filter on task names (debugging)')
  a = ap.parse_args(argv)
  tier = a.tier if a.tier in ('quick', 'thorough') else 'quick'
  seed = int(os.environ.get('VERIF_SEED', '0') or 0)
  if a.replay:
    from dverif import replay
    return replay.main(a.replay)
  sys.path.insert(0, os.path.dirname(os.path.dirname(os.path.abspath(__file__))))
  mod = importlib.import_module(f'checks.{a.pid.lower()}')
  t0 = time.time()
  return mod.main(tier=tier, seed=seed, jobs=a.jobs, only=a.only, t0=t0)


if __name__ == '__main__':
  sys.exit(main())
