"""Symbolic scalars that flow through real Python / pint / numpy-protocol code (engine E2).

* `SymReal` : a z3 Real term with arithmetic dunders (exact real semantics).
* `SymF64`  : a double-precision value tracked twice — as a z3 Float64 term (bit-precise) and as a real term
              under the standard rounding-error model fl(a o b) = (a o b)(1 + d), |d| <= 2^-53 (one fresh d per
              operation).  At the numpy C boundary (`astype(int)`, `int()`, `np.asarray(..).astype`) the object
              raises `Captured` carrying the value and the conversion that the real code was about to perform.
"""
from __future__ import annotations

import itertools
from fractions import Fraction
import numpy as np
import z3


def _q(x):
  return z3.RealVal(Fraction(float(x)))


class SymReal:
  __array_priority__ = 10000
  __array_ufunc__ = None

  def __init__(self, t):
    self.t = t if isinstance(t, z3.ExprRef) else _q(t)

  @staticmethod
  def _lift(o):
    if isinstance(o, SymReal):
      return o.t
    if isinstance(o, (int, np.integer)):
      return z3.RealVal(int(o))
    return _q(o)

  def __add__(self, o): return SymReal(self.t + self._lift(o))
  __radd__ = __add__
  def __sub__(self, o): return SymReal(self.t - self._lift(o))
  def __rsub__(self, o): return SymReal(self._lift(o) - self.t)
  def __mul__(self, o):
    if hasattr(o, 'dimensionality') or hasattr(o, '_REGISTRY'):
      return NotImplemented
    return SymReal(self.t * self._lift(o))
  __rmul__ = __mul__
  def __truediv__(self, o):
    if hasattr(o, 'dimensionality') or hasattr(o, '_REGISTRY'):
      return NotImplemented
    return SymReal(self.t / self._lift(o))
  def __rtruediv__(self, o): return SymReal(self._lift(o) / self.t)
  def __neg__(self): return SymReal(-self.t)
  def __pos__(self): return self
  def __pow__(self, n):
    if float(n) != int(n):
      raise TypeError('non-integer power of a symbolic real')
    n = int(n)
    if n == 0: return SymReal(z3.RealVal(1))
    r = self.t
    for _ in range(abs(n) - 1): r = r * self.t
    return SymReal(r if n > 0 else 1 / r)
  def __bool__(self):
    raise TypeError('branch on a symbolic real')
  def __float__(self):
    raise TypeError('float() of a symbolic real')
  def __repr__(self): return f'SymReal({self.t})'


class Captured(Exception):
  def __init__(self, value, conversion):
    super().__init__(conversion)
    self.value = value
    self.conversion = conversion


class FPContext:
  def __init__(self):
    self.deltas = []
    self.constraints = []
    self.ops = []
    self._n = itertools.count()

  def delta(self):
    d = z3.Real(f'd{next(self._n)}')
    self.deltas.append(d)
    u = z3.RealVal(Fraction(1, 2 ** 53))
    self.constraints += [d >= -u, d <= u]
    return d


F64 = z3.Float64()
RNE = z3.RNE()


class SymF64:
  """Double tracked bit-precisely (`fp`) and under the (1+d) error model (`re`)."""
  __array_priority__ = 10000
  __array_ufunc__ = None

  def __init__(self, ctx: FPContext, fp, re, integral=False):
    self.ctx = ctx; self.fp = fp; self.re = re; self.integral = integral

  def _other(self, o):
    if isinstance(o, SymF64):
      return o.fp, o.re
    f = float(o)
    return z3.FPVal(f, F64), _q(f)

  def _bin(self, o, name, fpop, reop, swap=False):
    if hasattr(o, 'dimensionality') or hasattr(o, '_REGISTRY'):
      return NotImplemented
    ofp, ore = self._other(o)
    a, b = (ofp, self.fp) if swap else (self.fp, ofp)
    ar, br = (ore, self.re) if swap else (self.re, ore)
    self.ctx.ops.append((name, None if isinstance(o, SymF64) else float(o), swap))
    if name in ('mul', 'div') and not isinstance(o, SymF64) and float(o) == 1.0 and not (name == 'div' and swap):
      return SymF64(self.ctx, fpop(RNE, a, b), reop(ar, br))            # exact
    return SymF64(self.ctx, fpop(RNE, a, b), reop(ar, br) * (1 + self.ctx.delta()))

  def __add__(self, o): return self._bin(o, 'add', z3.fpAdd, lambda x, y: x + y)
  def __radd__(self, o): return self._bin(o, 'add', z3.fpAdd, lambda x, y: x + y, swap=True)
  def __sub__(self, o): return self._bin(o, 'sub', z3.fpSub, lambda x, y: x - y)
  def __rsub__(self, o): return self._bin(o, 'sub', z3.fpSub, lambda x, y: x - y, swap=True)
  def __mul__(self, o): return self._bin(o, 'mul', z3.fpMul, lambda x, y: x * y)
  def __rmul__(self, o): return self._bin(o, 'mul', z3.fpMul, lambda x, y: x * y, swap=True)
  def __truediv__(self, o): return self._bin(o, 'div', z3.fpDiv, lambda x, y: x / y)
  def __rtruediv__(self, o): return self._bin(o, 'div', z3.fpDiv, lambda x, y: x / y, swap=True)
  def __neg__(self): return SymF64(self.ctx, z3.fpNeg(self.fp), -self.re)

  # numpy protocol used by the real code -------------------------------------------------------
  def round(self, decimals=0, out=None):
    if decimals != 0:
      raise TypeError('round(decimals != 0)')
    self.ctx.ops.append(('round_half_even', None, False))
    return SymF64(self.ctx, z3.fpRoundToIntegral(RNE, self.fp), None if self.re is None else ('round', self.re), integral=True)

  def __round__(self, n=None):
    return self.round(0)

  def rint(self):
    return self.round(0)

  def astype(self, dtype, *a, **k):
    raise Captured(self, f'astype({np.dtype(dtype).name})')

  def __int__(self):
    raise Captured(self, 'int()')

  def __index__(self):
    raise Captured(self, 'index()')

  def __float__(self):
    raise Captured(self, 'float()')

  def __array__(self, dtype=None, copy=None):
    if dtype is not None and np.dtype(dtype) != np.dtype(object):
      raise Captured(self, f'array({np.dtype(dtype).name})')
    a = np.empty((), dtype=object); a[()] = self
    return a

  def __bool__(self):
    raise TypeError('branch on a symbolic double')

  def __repr__(self): return 'SymF64'


def f64_from_int_bv(ctx: FPContext, name: str, bits: int = 32):
  """A double holding the exact value of a signed integer variable (|.| < 2^53 so the conversion is exact)."""
  bv = z3.BitVec(name, bits)
  iv = z3.Int(name + '_int')
  ctx.constraints.append(iv == z3.BV2Int(bv, is_signed=True))
  return bv, iv, SymF64(ctx, z3.fpSignedToFP(RNE, bv, F64), z3.ToReal(iv), integral=True)


# ---------------------------------------------------------------------------
# decision-replay path exploration: real Python code branching on symbolic comparisons

class PathExplorer:
  """Re-executes `fn` once per feasible path.  Symbolic comparisons return `SymBool`; its __bool__ consults the solver
  under the current path condition and follows a recorded decision prefix (depth-first)."""

  def __init__(self, assumptions=(), max_paths=256, timeout_ms=5000):
    self.assumptions = list(assumptions)
    self.max_paths = max_paths
    self.timeout_ms = timeout_ms
    self.queries = 0

  def _feasible(self, conds):
    s = z3.Solver(); s.set('timeout', self.timeout_ms)
    s.add(self.assumptions); s.add(conds)
    self.queries += 1
    return str(s.check())

  def explore(self, fn):
    """Returns [(path_condition list, outcome)] with outcome = ('return', value) or ('raise', exception)."""
    results = []
    stack = [[]]                       # decision prefixes still to run
    while stack and len(results) < self.max_paths:
      self.prefix = stack.pop(); self.decisions = []; self.pc = []; self.pending = []
      BranchReal.explorer = self
      try:
        out = ('return', fn())
      except Exception as e:  # noqa: BLE001  (the code under test may legitimately raise)
        out = ('raise', e)
      results.append((list(self.pc), out))
      stack.extend(self.pending)
    self.exhausted = not stack
    return results

  def decide(self, cond):
    i = len(self.decisions)
    if i < len(self.prefix):
      choice = self.prefix[i]
    else:
      t = self._feasible(self.pc + [cond]); f = self._feasible(self.pc + [z3.Not(cond)])
      if 'unknown' in (t, f):
        raise RuntimeError('path feasibility undecided')
      if t == 'sat' and f == 'sat':
        choice = True
        self.pending.append(self.decisions + [False])
      elif t == 'sat':
        choice = True
      elif f == 'sat':
        choice = False
      else:
        raise RuntimeError('infeasible path condition')
    self.decisions.append(choice)
    self.pc.append(cond if choice else z3.Not(cond))
    return choice


class SymBool:
  def __init__(self, t): self.t = t
  def __bool__(self): return BranchReal.explorer.decide(self.t)
  def __and__(self, o): return SymBool(z3.And(self.t, o.t if isinstance(o, SymBool) else z3.BoolVal(bool(o))))
  __rand__ = __and__
  def __or__(self, o): return SymBool(z3.Or(self.t, o.t if isinstance(o, SymBool) else z3.BoolVal(bool(o))))
  __ror__ = __or__
  def __invert__(self): return SymBool(z3.Not(self.t))


class BranchReal(SymReal):
  """SymReal whose comparisons yield SymBool (branchable under a PathExplorer)."""
  explorer = None

  def _w(self, r): return BranchReal(r.t)
  def __add__(self, o): return self._w(SymReal.__add__(self, o))
  __radd__ = __add__
  def __sub__(self, o): return self._w(SymReal.__sub__(self, o))
  def __rsub__(self, o): return self._w(SymReal.__rsub__(self, o))
  def __mul__(self, o):
    r = SymReal.__mul__(self, o)
    return r if r is NotImplemented else self._w(r)
  __rmul__ = __mul__
  def __truediv__(self, o):
    r = SymReal.__truediv__(self, o)
    return r if r is NotImplemented else self._w(r)
  def __neg__(self): return self._w(SymReal.__neg__(self))
  def __abs__(self): return BranchReal(z3.If(self.t >= 0, self.t, -self.t))
  def __lt__(self, o): return SymBool(self.t < self._lift(o))
  def __le__(self, o): return SymBool(self.t <= self._lift(o))
  def __gt__(self, o): return SymBool(self.t > self._lift(o))
  def __ge__(self, o): return SymBool(self.t >= self._lift(o))
  def __eq__(self, o): return SymBool(self.t == self._lift(o))
  def __ne__(self, o): return SymBool(self.t != self._lift(o))
  def __bool__(self): return BranchReal.explorer.decide(self.t != 0)      # truthiness (e.g. np.all on an object array) is the decision x != 0
  __hash__ = None


class SymInt:
  """Symbolic integer (z3 Int term) that runs through real Python integer code: + - * // % stay integers, true division gives a SymReal,
  math.ceil / math.floor of a SymReal come back as SymInt.  Truthiness is only defined for values DECLARED positive (`positive=True`, part of the
  stated precondition); any other branching on a symbolic value raises."""

  def __init__(self, t, positive=False):
    self.t = t if isinstance(t, z3.ExprRef) else z3.IntVal(int(t))
    self.positive = positive

  @staticmethod
  def _lift(o):
    if isinstance(o, SymInt):
      return o.t
    if isinstance(o, (int, np.integer)) and not isinstance(o, bool):
      return z3.IntVal(int(o))
    raise TypeError(f'SymInt arithmetic with {type(o).__name__}')

  def __add__(self, o): return SymInt(self.t + self._lift(o))
  __radd__ = __add__
  def __sub__(self, o): return SymInt(self.t - self._lift(o))
  def __rsub__(self, o): return SymInt(self._lift(o) - self.t)
  def __mul__(self, o): return SymInt(self.t * self._lift(o), positive=self.positive and (getattr(o, 'positive', False) or (isinstance(o, int) and o > 0)))
  __rmul__ = __mul__
  def __neg__(self): return SymInt(-self.t)
  def __floordiv__(self, o): return SymInt(self.t / self._lift(o))            # z3 Int division = floor for a positive divisor (declared in the precondition)
  def __mod__(self, o): return SymInt(self.t % self._lift(o))
  def __truediv__(self, o): return SymReal(z3.ToReal(self.t) / z3.ToReal(self._lift(o)))
  def __rtruediv__(self, o): return SymReal(z3.ToReal(self._lift(o)) / z3.ToReal(self.t))
  def __index__(self): raise TypeError('symbolic integer used as a concrete index')
  def __bool__(self):
    if self.positive:
      return True
    raise TypeError('branching on a symbolic integer')
  def _cmp(self, o, op): return SymBool(op(self.t, self._lift(o)))
  def __le__(self, o): return self._cmp(o, lambda a, b: a <= b)
  def __lt__(self, o): return self._cmp(o, lambda a, b: a < b)
  def __ge__(self, o): return self._cmp(o, lambda a, b: a >= b)
  def __gt__(self, o): return self._cmp(o, lambda a, b: a > b)
  def __hash__(self): return hash(self.t)


def _symreal_ceil(self):
  return SymInt(-z3.ToInt(-self.t))


def _symreal_floor(self):
  return SymInt(z3.ToInt(self.t))


SymReal.__ceil__ = _symreal_ceil
SymReal.__floor__ = _symreal_floor
