"""Symbolic scalars that flow through real Python / pint / numpy-protocol code (engine E2).

* `SymReal` : a z3 Real term with arithmetic dunders (exact real semantics).
* `SymF64`  : a double-precision value tracked twice — as a z3 Float64 term (bit-precise) and as a real term
              under the standard rounding-error model fl(a o b) = (a o b)(1 + d), |d| <= 2^-53 (one fresh d per
              operation).  At the numpy C boundary (`astype(int)`, `int()`, `np.asarray(..).astype`) the object
              raises `Captured` carrying the value and the conversion that the real code was about to perform.
"""
from __future__ import annotations

import itertools
from fractions import Fraction
import numpy as np
import z3


def _q(x):
  return z3.RealVal(Fraction(float(x)))


class SymReal:
  __array_priority__ = 10000
  __array_ufunc__ = None

  def __init__(self, t):
    self.t = t if isinstance(t, z3.ExprRef) else _q(t)

  @staticmethod
  def _lift(o):
    if isinstance(o, SymReal):
      return o.t
    if isinstance(o, (int, np.integer)):
      return z3.RealVal(int(o))
    return _q(o)

  def __add__(self, o): return SymReal(self.t + self._lift(o))
  __radd__ = __add__
  def __sub__(self, o): return SymReal(self.t - self._lift(o))
  def __rsub__(self, o): return SymReal(self._lift(o) - self.t)
  def __mul__(self, o):
    if hasattr(o, 'dimensionality') or hasattr(o, '_REGISTRY'):
      return NotImplemented
    return SymReal(self.t * self._lift(o))
  __rmul__ = __mul__
  def __truediv__(self, o):
    if hasattr(o, 'dimensionality') or hasattr(o, '_REGISTRY'):
      return NotImplemented
    return SymReal(self.t / self._lift(o))
  def __rtruediv__(self, o): return SymReal(self._lift(o) / self.t)
  def __neg__(self): return SymReal(-self.t)
  def __pos__(self): return self
  def __pow__(self, n):
    if float(n) != int(n):
      raise TypeError('non-integer power of a symbolic real')
    n = int(n)
    if n == 0: return SymReal(z3.RealVal(1))
    r = self.t
    for _ in range(abs(n) - 1): r = r * self.t
    return SymReal(r if n > 0 else 1 / r)
  def __bool__(self):
    raise TypeError('branch on a symbolic real')
  def __float__(self):
    raise TypeError('float() of a symbolic real')
  def __repr__(self): return f'SymReal({self.t})'


class Captured(Exception):
  def __init__(self, value, conversion):
    super().__init__(conversion)
    self.value = value
    self.conversion = conversion


class FPContext:
  def __init__(self):
    self.deltas = []
    self.constraints = []
    self.ops = []
    self._n = itertools.count()

  def delta(self):
    d = z3.Real(f'd{next(self._n)}')
    self.deltas.append(d)
    u = z3.RealVal(Fraction(1, 2 ** 53))
    self.constraints += [d >= -u, d <= u]
    return d


F64 = z3.Float64()
RNE = z3.RNE()


class SymF64:
  """Double tracked bit-precisely (`fp`) and under the (1+d) error model (`re`)."""
  __array_priority__ = 10000
  __array_ufunc__ = None

  def __init__(self, ctx: FPContext, fp, re, integral=False):
    self.ctx = ctx; self.fp = fp; self.re = re; self.integral = integral

  def _other(self, o):
    if isinstance(o, SymF64):
      return o.fp, o.re
    f = float(o)
    return z3.FPVal(f, F64), _q(f)

  def _bin(self, o, name, fpop, reop, swap=False):
    if hasattr(o, 'dimensionality') or hasattr(o, '_REGISTRY'):
      return NotImplemented
    ofp, ore = self._other(o)
    a, b = (ofp, self.fp) if swap else (self.fp, ofp)
    ar, br = (ore, self.re) if swap else (self.re, ore)
    self.ctx.ops.append((name, None if isinstance(o, SymF64) else float(o), swap))
    if name in ('mul', 'div') and not isinstance(o, SymF64) and float(o) == 1.0 and not (name == 'div' and swap):
      return SymF64(self.ctx, fpop(RNE, a, b), reop(ar, br))            # exact
    return SymF64(self.ctx, fpop(RNE, a, b), reop(ar, br) * (1 + self.ctx.delta()))

  def __add__(self, o): return self._bin(o, 'add', z3.fpAdd, lambda x, y: x + y)
  def __radd__(self, o): return self._bin(o, 'add', z3.fpAdd, lambda x, y: x + y, swap=True)
  def __sub__(self, o): return self._bin(o, 'sub', z3.fpSub, lambda x, y: x - y)
  def __rsub__(self, o): return self._bin(o, 'sub', z3.fpSub, lambda x, y: x - y, swap=True)
  def __mul__(self, o): return self._bin(o, 'mul', z3.fpMul, lambda x, y: x * y)
  def __rmul__(self, o): return self._bin(o, 'mul', z3.fpMul, lambda x, y: x * y, swap=True)
  def __truediv__(self, o): return self._bin(o, 'div', z3.fpDiv, lambda x, y: x / y)
  def __rtruediv__(self, o): return self._bin(o, 'div', z3.fpDiv, lambda x, y: x / y, swap=True)
  def __neg__(self): return SymF64(self.ctx, z3.fpNeg(self.fp), -self.re)

  # numpy protocol used by the real code -------------------------------------------------------
  def round(self, decimals=0, out=None):
    if decimals != 0:
      raise TypeError('round(decimals != 0)')
    self.ctx.ops.append(('round_half_even', None, False))
    return SymF64(self.ctx, z3.fpRoundToIntegral(RNE, self.fp), None if self.re is None else ('round', self.re), integral=True)

  def __round__(self, n=None):
    return self.round(0)

  def rint(self):
    return self.round(0)

  def astype(self, dtype, *a, **k):
    raise Captured(self, f'astype({np.dtype(dtype).name})')

  def __int__(self):
    raise Captured(self, 'int()')

  def __index__(self):
    raise Captured(self, 'index()')

  def __float__(self):
    raise Captured(self, 'float()')

  def __array__(self, dtype=None, copy=None):
    if dtype is not None and np.dtype(dtype) != np.dtype(object):
      raise Captured(self, f'array({np.dtype(dtype).name})')
    a = np.empty((), dtype=object); a[()] = self
    return a

  def __bool__(self):
    raise TypeError('branch on a symbolic double')

  def __repr__(self): return 'SymF64'


def f64_from_int_bv(ctx: FPContext, name: str, bits: int = 32):
  """A double holding the exact value of a signed integer variable (|.| < 2^53 so the conversion is exact)."""
  bv = z3.BitVec(name, bits)
  iv = z3.Int(name + '_int')
  ctx.constraints.append(iv == z3.BV2Int(bv, is_signed=True))
  return bv, iv, SymF64(ctx, z3.fpSignedToFP(RNE, bv, F64), z3.ToReal(iv), integral=True)
