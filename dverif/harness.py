"""Harness: obligations over traced functions, solver queries, replay, evidence, exit codes."""
from __future__ import annotations

import hashlib
import inspect
import json
import os
import sys
import time
import traceback
import numpy as np
import scipy.sparse as sps

import dverif  # noqa: F401
import jax
import jax.numpy as jnp

from dverif import smt
from dverif.poly import Space, PolyArr, clear_recip, reduce_recip_linear
from dverif.jsym import Interp, trace, is_sym, Unsupported, NonFiniteConstant

VERIF = os.path.dirname(os.path.dirname(os.path.abspath(__file__)))
EVID = os.environ.get('DVERIF_EVIDENCE_DIR') or os.path.join(VERIF, 'evidence')
REPLAY_DIR = os.path.join(EVID, 'replay')


class HarnessError(Exception):
  """Anything that makes the run untrustworthy (exit 2)."""


# ---------------------------------------------------------------------------
# results of one task (picklable dict)

def new_result(task_name):
  return dict(task=task_name, clauses=[], violations=[], errors=[], functions=[], wall=0.0,
              stats=None, validations=0, max_validation_err=0.0, twins=dict(sat=0, skipped=0),
              inconclusive=[], notes=[])


class Ctx:
  """Context of one task: collects clause outcomes."""

  def __init__(self, pid, task_name, seed=0, tier='quick'):
    self.pid = pid
    self.res = new_result(task_name)
    self.seed = seed
    self.tier = tier
    self.rng = np.random.default_rng(seed)
    self.t0 = time.time()
    self.replay = None
    rp = os.environ.get('DVERIF_REPLAY')
    if rp:
      with open(rp) as f:
        self.replay = json.load(f)
      self.replay_hits = 0

  # -- bookkeeping
  def encoded(self, *fns):
    for f in fns:
      try:
        src = inspect.getsource(f)
        file = inspect.getsourcefile(f)
        line = inspect.getsourcelines(f)[1]
        h = hashlib.sha1(src.encode()).hexdigest()[:12]
        name = getattr(f, '__qualname__', getattr(f, '__name__', str(f)))
        ent = f'{os.path.relpath(file, dverif.REPO)}:{line}:{name}#{h}'
      except Exception:
        ent = str(f)
      if ent not in self.res['functions']:
        self.res['functions'].append(ent)

  def clause(self, name, status, **info):
    rec = dict(name=name, status=status)
    rec.update(info)
    self.res['clauses'].append(rec)
    return rec

  def violation(self, clause, signature, replay_payload, message):
    os.makedirs(REPLAY_DIR, exist_ok=True)
    k = hashlib.sha1(json.dumps([self.res['task'], clause, signature], sort_keys=True, default=str).encode()).hexdigest()[:10]
    path = os.path.join(REPLAY_DIR, f'{self.pid}-{k}.json')
    payload = dict(property=self.pid, task=self.res['task'], clause=clause, signature=signature,
                   message=message)
    payload.update(replay_payload)
    with open(path, 'w') as f:
      json.dump(payload, f, indent=1, default=_json_default)
    self.res['violations'].append(dict(clause=clause, signature=signature, replay=path, message=message))

  def error(self, clause, message):
    self.res['errors'].append(dict(clause=clause, message=message))

  def finish(self):
    # safety net: a clause that ended as 'failed' must be backed by a replayed violation or an explicit harness error;
    # otherwise the run would exit 0 with an unproved clause
    named = {v['clause'] for v in self.res['violations']} | {e['clause'] for e in self.res['errors']}
    for c in self.res['clauses']:
      if c['status'] == 'failed' and c['name'] not in named and not any(n.startswith(c['name']) or c['name'].startswith(n) for n in named):
        self.error(c['name'], f"clause failed without a replayed counterexample (config {json.dumps(c.get('config', {}), default=str)[:200]})")
        named.add(c['name'])
    self.res['wall'] = time.time() - self.t0
    self.res['stats'] = smt.STATS.asdict()
    return self.res


def _json_default(o):
  if isinstance(o, np.ndarray):
    return o.tolist()
  if isinstance(o, (np.floating, np.integer)):
    return o.item()
  if isinstance(o, (jax.Array,)):
    return np.asarray(o).tolist()
  return str(o)


# ---------------------------------------------------------------------------
# polynomial-domain proving

def with_dtype(sp: Space, arr, dtype):
  """Declares that the symbolic array `arr` is STORED with `dtype` when it reaches the code under test (e.g. integer-valued data held in
  an int64 array): the function is traced with an argument of that dtype, the variables only take values representable in it
  (integers: rounded points), and every concrete call of the real function receives an array of that dtype."""
  dt = np.dtype(dtype)
  if not hasattr(sp, 'arg_dtype'):
    sp.arg_dtype = {}; sp.int_vars = set(); sp._dtype_keep = []
  sp.arg_dtype[id(arr)] = dt
  sp._dtype_keep.append(arr)          # keeps id() stable
  if dt.kind in 'iu':
    M = arr.M.tocsr()
    cols = np.unique(M.indices[M.data != 0])
    for c in cols:
      if c == 0:
        continue
      for v in sp.slots(sp.codes[c:c + 1])[0]:
        if v:
          sp.int_vars.add(int(v) - 1)
  return arr


def _dtype_of(sp, a):
  return getattr(sp, 'arg_dtype', {}).get(id(a), None)


def concretise(args, x, sp):
  out = []
  for a in args:
    if is_sym(a):
      v = np.asarray(a.evaluate(x))
      dt = _dtype_of(sp, a)
      if dt is not None:
        v = (np.rint(v) if dt.kind in 'iu' else v).astype(dt)
      out.append(v)
    else:
      out.append(np.asarray(a))
  return out


def interpret(fn, args, sp: Space, retrace=True):
  """Trace fn at float64 zeros shaped like args and interpret symbolically.

  Returns (flat list of outputs, treedef, interp).
  """
  ex = [jnp.zeros(a.shape, dtype=(_dtype_of(sp, a) or jnp.float64)) if is_sym(a) else jnp.asarray(a) for a in args]
  closed, out_shape = jax.make_jaxpr(fn, return_shape=True)(*ex)
  it = Interp(sp)
  outs = it.run(closed, *args)
  treedef = jax.tree_util.tree_structure(out_shape)
  # history independence: tracing the same call a second time must give the same program (same constants).  A difference means
  # that the first use mutated hidden state (a cache, a table rescaled in place, ...): prove_close then replays two consecutive
  # real calls and reports the discrepancy.
  it.retrace_differs = None
  if retrace and os.environ.get('DVERIF_NO_RETRACE') != '1':
    try:
      closed2 = jax.make_jaxpr(lambda *a_: fn(*a_))(*ex)      # a fresh function object: jax caches traces per function
      it.retrace_differs = _jaxpr_differs(closed, closed2)
    except Exception as e:  # noqa: BLE001
      it.retrace_differs = f'second trace raised {type(e).__name__}: {e}'
  return outs, treedef, it


def _jaxpr_differs(c1, c2):
  if len(c1.consts) != len(c2.consts):
    return f'{len(c1.consts)} vs {len(c2.consts)} constants'
  for k, (a, b) in enumerate(zip(c1.consts, c2.consts)):
    a = np.asarray(a); b = np.asarray(b)
    if a.shape != b.shape or not np.array_equal(a, b, equal_nan=True):
      d = float(np.abs(a.astype(float) - b.astype(float)).max()) if a.shape == b.shape and a.dtype.kind in 'fiu' else None
      return f'constant {k} of shape {a.shape} changed between two traces (max abs change {d})'
  if len(c1.jaxpr.eqns) != len(c2.jaxpr.eqns):
    return f'{len(c1.jaxpr.eqns)} vs {len(c2.jaxpr.eqns)} equations'
  if len(c1.jaxpr.eqns) <= 4000 and str(c1.jaxpr) != str(c2.jaxpr):
    return 'program text (literals) changed between two traces'
  return None


def validate_translation(ctx: Ctx, fn, args, outs, sp: Space, npoints=2, rtol=1e-9, name=''):
  """Symbolic outputs evaluated at random points must equal the real jitted function."""
  jf = jax.jit(fn)
  for k_ in range(npoints):
    xv = sp.random_point(ctx.rng)
    conc = concretise(args, xv, sp)
    ref = jax.tree_util.tree_leaves(jf(*conc))
    if k_ == 0 and os.environ.get('DVERIF_NO_EAGER') != '1':
      # the same real function called EAGERLY on plain numpy arrays (no jit): same values, and the caller's arrays are left untouched
      npin = [np.array(c, dtype=(_dtype_of(sp, a) or float)) if is_sym(a) else c for a, c in zip(args, conc)]
      keep = [np.array(c, copy=True) if isinstance(c, np.ndarray) else c for c in npin]
      try:
        eager = jax.tree_util.tree_leaves(fn(*npin))
      except Exception as e_:  # noqa: BLE001
        eager = None
        ctx.res['notes'].append(f'{name}: eager numpy call raised {type(e_).__name__}')
      if eager is not None:
        mutated = any(isinstance(c, np.ndarray) and not np.array_equal(c, k0, equal_nan=True) for c, k0 in zip(npin, keep))
        dmax = 0.0
        # common scale of the call: the largest output magnitude, floored by 1e-6 of the largest input magnitude (outputs that are pure rounding
        # noise around zero - balanced states - must not be compared relative to themselves)
        in_mag = max([float(np.abs(np.asarray(c, float)).max(initial=0.0)) for c in npin if isinstance(c, np.ndarray)] + [0.0])
        out_mag = max([float(np.abs(np.asarray(r_, float)).max(initial=0.0)) for r_ in ref if np.all(np.isfinite(np.asarray(r_, float)))] + [0.0])
        scale_ = max(out_mag, 1e-3 * in_mag, 1e-300)       # gross discrepancies only: jit fusion legitimately changes rounding (amplified by cancellation)
        for r_, e_ in zip(ref, eager):
          r_ = np.asarray(r_, float); e_ = np.asarray(e_, float)
          if r_.shape == e_.shape and np.all(np.isfinite(r_)):
            dmax = max(dmax, float(np.abs(r_ - e_).max(initial=0.0)) / scale_)
        if mutated or dmax > 1e-6:
          ctx.violation(name + '.eager_numpy_call', dict(kind='eager_differs', mutated_inputs=bool(mutated)), dict(inputs=[np.asarray(c).tolist() for c in keep], max_rel_difference=dmax),
                        f'{name}: calling the real function eagerly on numpy arrays ' + ('overwrites its input arrays' if mutated else f'gives values that differ from the jitted call by {dmax:.3e} (relative)'))
          ctx.clause(name + '.eager_numpy_call', 'failed', queries=0)
    for o, r in zip(outs, ref):
      r = np.asarray(r, dtype=float)
      v = o.evaluate(xv) if is_sym(o) else np.asarray(o, dtype=float)
      if not np.all(np.isfinite(r)):
        continue
      scale = max(float(np.abs(r).max(initial=0.0)), 1e-300)
      err = float(np.abs(v - r).max(initial=0.0)) / scale
      ctx.res['max_validation_err'] = max(ctx.res['max_validation_err'], err)
      if err > rtol and float(np.abs(v - r).max(initial=0.0)) > 1e-12:
        raise HarnessError(f'translator validation failed in {name}: rel err {err:.3e}')
    ctx.res['validations'] += 1


def _row_query_terms(sp, cols, vals, tau, keep_top=24):
  """Split a residual row into (kept terms, slack) — slack bounds the dropped terms soundly."""
  nz = vals != 0
  cols = cols[nz]; vals = vals[nz]
  const = 0.0
  m0 = cols == 0
  if m0.any():
    const = float(vals[m0].sum())
    cols = cols[~m0]; vals = vals[~m0]
  if len(cols) == 0:
    return const, cols, vals, 0.0, np.zeros(0), np.zeros(0)
  La, Ha = sp.col_bounds()
  L = La[cols]; H = Ha[cols]
  mag = np.abs(vals) * np.maximum(np.abs(L), np.abs(H))
  order = np.argsort(-mag)
  cum = np.cumsum(mag[order])
  total = cum[-1]
  # drop the tail whose total mass <= 1% of tau, but always keep `keep_top`
  tail_ok = (total - cum) <= 0.01 * tau
  k = int(np.argmax(tail_ok)) + 1 if tail_ok.any() else len(order)
  k = max(k, min(keep_top, len(order)))
  keep = order[:k]
  slack = float(total - cum[k - 1]) if k < len(order) else 0.0
  slack *= (1 + 1e-12)
  return const, cols[keep], vals[keep], slack, L[keep], H[keep]


def _lra_batch(sp, rows, logic='QF_LRA'):
  """rows: list of (rid, const, cols, vals, slack, tau, L, H).  Returns SMT text and var map."""
  ycols = {}
  lines = []
  for (_, _, cols, _, _, _, L, H) in rows:
    for c, lo, hi in zip(cols, L, H):
      if c not in ycols:
        ycols[int(c)] = (lo, hi)
  decl = []
  for c, (lo, hi) in ycols.items():
    decl.append(f'(declare-const y{c} Real)')
    if np.isfinite(lo):
      decl.append(f'(assert (>= y{c} {smt.rat(lo)}))')
    if np.isfinite(hi):
      decl.append(f'(assert (<= y{c} {smt.rat(hi)}))')
  bnames = []
  for (rid, const, cols, vals, slack, tau, _, _) in rows:
    terms = ' '.join(f'(* {smt.rat(v)} y{int(c)})' for c, v in zip(cols, vals))
    e = f'(+ {smt.rat(const)} {terms})' if terms else smt.rat(const)
    t = tau - slack
    if t < 0:
      body = 'true'
    else:
      body = f'(or (> {e} {smt.rat(t)}) (< {e} {smt.rat(-t)}))'
    lines.append(f'(declare-const b{rid} Bool)')
    lines.append(f'(assert (= b{rid} {body}))')
    bnames.append(f'b{rid}')
  lines.append('(assert (or %s))' % ' '.join(bnames) if len(bnames) > 1 else f'(assert {bnames[0]})')
  return '\n'.join(decl + lines), ycols


def _poly_value(sp, cols, vals, x):
  mv = sp.mono_values(x)
  return float(np.dot(vals, mv[cols]))


def _find_witness(sp: Space, cols, vals, tau, rng, model_y=None, nra_timeout=10000):
  """Find x in the box with |p(x)| > tau (true polynomial).  Solver first (exact for degree<=1,
  NRA otherwise), numeric search as a fallback; returns x or None."""
  import z3
  deg = sp.degree(cols)
  lo = np.asarray(sp.lo); hi = np.asarray(sp.hi)
  fin = np.isfinite(lo) & np.isfinite(hi)
  x0 = np.where(fin, (np.where(fin, lo, 0) + np.where(fin, hi, 0)) / 2, 0.0)
  slots = sp.slots(sp.codes[cols])
  used = np.unique(slots[slots > 0]) - 1
  if len(sp.atoms) == 0:
    xs = {int(v): z3.Real(f'x{int(v)}') for v in used}
    cons = []
    for v, xv in xs.items():
      if np.isfinite(lo[v]): cons.append(xv >= z3.RealVal(smt.Fraction(float(lo[v]))))
      if np.isfinite(hi[v]): cons.append(xv <= z3.RealVal(smt.Fraction(float(hi[v]))))
    expr = z3.RealVal(0)
    order = np.argsort(-np.abs(vals))[:400]
    for k in order:
      t = z3.RealVal(smt.Fraction(float(vals[k])))
      for sv in slots[k]:
        if sv:
          t = t * xs[int(sv) - 1]
      expr = expr + t
    tq = z3.RealVal(smt.Fraction(float(tau)))
    logic = 'QF_LRA' if deg.max(initial=0) <= 1 else 'QF_NRA'
    verdict, model = smt.check_z3(cons + [z3.Or(expr > tq, expr < -tq)], logic, nra_timeout, True, False)
    if verdict == 'sat':
      x = x0.copy()
      for v, xv in xs.items():
        val = model.eval(xv, model_completion=True)
        try:
          x[v] = float(val.as_fraction())
        except Exception:
          x[v] = float(val.approx(20).as_fraction())
      if abs(_poly_value(sp, cols, vals, x)) > tau:
        return x
  # numeric search: vertices / random points
  if sp.atoms:
    # the value of an atom depends on the variables of its ARGUMENT, which need not occur in the row itself (after the reduction modulo the atom
    # relations a row may contain r = 1/(1 + c q) but not q): vary every variable, the atoms are recomputed by complete_point
    used = np.nonzero(fin)[0]
  best = None; bestv = 0.0
  for trial in range(200):
    x = x0.copy()
    if trial < 100:
      r = rng.integers(0, 2, size=len(used))
      x[used] = np.where(r == 1, hi[used], lo[used])
    else:
      x[used] = lo[used] + (hi[used] - lo[used]) * rng.random(len(used))
    x = np.where(np.isfinite(x), x, 0.0)
    if sp.atoms:
      x = sp.complete_point(x)
    v = abs(_poly_value(sp, cols, vals, x))
    if v > bestv:
      best, bestv = x, v
    if v > tau:
      return x
  return None


def prove_close(ctx: Ctx, name, fn, args, sp: Space, *, eps=1e-9, select=None, scale_floor=0.0,
                exact=False, twin=True, core=True, config=None, batch=128, ref_scale=None,
                validate=True, pre=None, clear_denominators=False, reduce_atoms=False, reraise=()):
  """Obligation: for every assignment in the box, lhs == rhs within eps * S.

  `fn(*args)` returns (lhs_tree, rhs_tree) with equal structure, or a single tree (compared
  with 0; `ref_scale` then gives S).  `select`: optional list (per leaf) of boolean masks of the
  elements that are constrained.  S (per leaf) = max over the leaf of the coefficient mass of
  lhs and rhs (an a-priori bound of |value| over the box), floored by `scale_floor`.
  """
  t0 = time.time()
  config = config or {}
  if ctx.replay is not None:
    rp = ctx.replay
    same = (rp.get('clause') == name and
            json.dumps(rp.get('signature', {}).get('config', {}), sort_keys=True, default=str) ==
            json.dumps(json.loads(json.dumps(config, default=_json_default)), sort_keys=True, default=str))
    if same and 'inputs' in rp:
      conc = [np.asarray(v, dtype=(_dtype_of(sp, a_) or float)) for v, a_ in zip(rp['inputs'], args)]
      sig = rp['signature']
      try:
        out = jax.jit(fn)(*conc)
      except Exception as e_:  # noqa: BLE001
        if sig.get('kind') == 'raises':
          print(f'REPLAY {name}: the real function raises {type(e_).__name__}')
          ctx.replay_hits += 1
          ctx.res['violations'].append(dict(clause=name, signature=sig, replay=os.environ['DVERIF_REPLAY'], message='replayed'))
          return True
        raise
      if sig.get('kind') == 'raises':
        reproduced = False       # (reached only if the call above returned normally)
        print(f'REPLAY {name}: the real function returned normally')
      elif sig.get('kind') == 'shape':
        li = sig['leaf']
        rl = jax.tree_util.tree_leaves(out[0])[li]; rr = jax.tree_util.tree_leaves(out[1])[li]
        print(f'REPLAY {name}: shapes {np.shape(rl)} vs {np.shape(rr)}')
        reproduced = tuple(np.shape(rl)) != tuple(np.shape(rr))
      elif sig.get('kind') == 'nonfinite':
        bad = [i for i, o in enumerate(jax.tree_util.tree_leaves(out)) if not np.all(np.isfinite(np.asarray(o)))]
        print(f'REPLAY {name}: non-finite leaves {bad}')
        reproduced = bool(bad)
      else:
        li = sig['leaf']; idx = tuple(sig['index'])
        if isinstance(out, tuple) and len(out) == 2 and ref_scale is None:
          lv = float(np.asarray(jax.tree_util.tree_leaves(out[0])[li])[idx]); rv = float(np.asarray(jax.tree_util.tree_leaves(out[1])[li])[idx])
        else:
          lv = float(np.asarray(jax.tree_util.tree_leaves(out)[li])[idx]); rv = 0.0
        d = abs(lv - rv)
        print(f'REPLAY {name} config={config}: lhs={lv!r} rhs={rv!r} |lhs-rhs|={d:.6e} tolerance={rp.get("tolerance")}')
        reproduced = (not np.isfinite(d)) or d > 0.5 * float(rp.get('tolerance') or 0.0)
      ctx.replay_hits += 1
      if reproduced:
        ctx.res['violations'].append(dict(clause=name, signature=sig, replay=os.environ['DVERIF_REPLAY'], message='replayed'))
    return True
  try:
    outs, treedef, it = (pre if pre is not None else interpret(fn, args, sp))
  except Unsupported as e:
    ctx.error(name, f'unsupported: {e}')
    ctx.clause(name, 'error', config=config, message=str(e))
    return False
  except (HarnessError, smt.SolverError):
    raise
  except Exception as e:  # noqa: BLE001
    from dverif.poly import BlowUp, DegreeOverflow, DefinednessHazard
    if reraise and isinstance(e, tuple(reraise)):
      raise          # the caller treats this exception class itself (e.g. option combinations the library documents as rejected)
    if isinstance(e, (NonFiniteConstant, BlowUp, DegreeOverflow, DefinednessHazard)) or fn is None:
      if not isinstance(e, NonFiniteConstant):
        raise
    else:
      # tracing / running the code under test raised: if the REAL function also raises on a concrete admissible input, the property
      # ("returns the same values ...") is violated on that input; otherwise it is a harness problem
      xv = sp.random_point(ctx.rng)
      conc = concretise(args, xv, sp)
      try:
        fn(*[jnp.asarray(c) for c in conc])
      except Exception as e2:  # noqa: BLE001
        msg = f'{type(e2).__name__}: {str(e2).splitlines()[0][:160] if str(e2) else ""}'
        ctx.violation(name, dict(config=config, kind='raises', error=type(e2).__name__), dict(inputs=[c.tolist() for c in conc], error=msg),
                      f'{name}: the real function raises on an admissible input instead of returning a value: {msg}')
        ctx.clause(name, 'failed', config=config, queries=0)
        return False
      raise
    # the IR contains inf/nan constants: replay on the real function at a random point
    xv = sp.random_point(ctx.rng)
    conc = concretise(args, xv, sp)
    out = jax.tree_util.tree_leaves(jax.jit(fn)(*conc))
    bad = [i for i, o in enumerate(out) if not np.all(np.isfinite(np.asarray(o)))]
    if bad:
      ctx.violation(name, dict(config=config, kind='nonfinite', leaves=bad),
                    dict(inputs=[c.tolist() for c in conc], detail=str(e)),
                    f'{name}: non-finite output for a finite input ({e})')
      ctx.clause(name, 'failed', config=config, message=str(e))
    else:
      ctx.error(name, f'non-finite constant in IR but finite outputs on replay: {e}')
      ctx.clause(name, 'error', config=config, message=str(e))
    return False
  if getattr(it, 'retrace_differs', None) and fn is not None:
    # hidden state: two consecutive real calls on identical inputs
    xv = sp.random_point(ctx.rng)
    conc = concretise(args, xv, sp)
    o1 = [np.asarray(o) for o in jax.tree_util.tree_leaves(fn(*conc))]
    o2 = [np.asarray(o) for o in jax.tree_util.tree_leaves(fn(*conc))]
    dmax = max((float(np.abs(p_.astype(float) - q_.astype(float)).max(initial=0.0)) if p_.shape == q_.shape else float('inf')) for p_, q_ in zip(o1, o2)) if o1 else 0.0
    ctx.violation(name + '.repeatable', dict(config=config, kind='history_dependent', detail=it.retrace_differs),
                  dict(inputs=[c.tolist() for c in conc], max_abs_difference_between_two_calls=dmax),
                  f'{name}: the program depends on the call history: {it.retrace_differs}; two consecutive real calls on identical input differ by {dmax:.3e}')
    ctx.clause(name + '.repeatable', 'failed', config=config, queries=0)
    return False
  tree = jax.tree_util.tree_unflatten(treedef, outs)
  if isinstance(tree, tuple) and len(tree) == 2 and ref_scale is None:
    lhs = jax.tree_util.tree_leaves(tree[0], is_leaf=is_sym)
    rhs = jax.tree_util.tree_leaves(tree[1], is_leaf=is_sym)
    if len(lhs) != len(rhs):
      raise HarnessError(f'{name}: lhs/rhs structure mismatch')
  else:
    lhs = jax.tree_util.tree_leaves(tree, is_leaf=is_sym)
    rhs = [None] * len(lhs)
  if validate:
    validate_translation(ctx, fn, args, outs, sp, name=name)
  nq = 0; nrows = 0; worst = 0.0
  ok = True
  twin_done = False
  samples = []
  for li, (a, b) in enumerate(zip(lhs, rhs)):
    a_sym = a if is_sym(a) else PolyArr.const(np.asarray(a, float), sp)
    if b is None:
      diff = a_sym
      S = float(ref_scale if np.isscalar(ref_scale) else ref_scale[li])
    else:
      b_sym = b if is_sym(b) else PolyArr.const(np.asarray(b, float), sp)
      if a_sym.shape != b_sym.shape:
        # the two sides do not even have the same shape: confirm on the real function and report as a violation
        xv = sp.random_point(ctx.rng)
        conc = concretise(args, xv, sp)
        real = jax.jit(fn)(*conc) if fn is not None else None
        rs = None
        if real is not None:
          rl = jax.tree_util.tree_leaves(real[0])[li]; rr = jax.tree_util.tree_leaves(real[1])[li]
          rs = (tuple(np.shape(rl)), tuple(np.shape(rr)))
        if rs is not None and rs[0] != rs[1]:
          ctx.violation(name, dict(config=config, kind='shape', leaf=li, shapes=[list(rs[0]), list(rs[1])]),
                        dict(inputs=[c.tolist() for c in conc]),
                        f'{name}: result has shape {rs[0]} where {rs[1]} is required (leaf {li})')
          ctx.clause(name, 'failed', config=config, queries=0)
          return False
        raise HarnessError(f'{name}: shape mismatch {a_sym.shape} vs {b_sym.shape}')
      diff = a_sym.add(b_sym, -1.0)
      ma = a_sym.mass(); mb = b_sym.mass()
      S = max(float(ma.max(initial=0.0)), float(mb.max(initial=0.0)), scale_floor)
    tau = 0.0 if exact else eps * S
    taus = np.full(diff.size, tau)
    if reduce_atoms:
      diff = reduce_recip_linear(diff)
    if clear_denominators:
      diff, fac = clear_recip(diff)
      if np.any(fac == 0):
        ctx.error(name, 'a denominator is not sign-definite on the box')
        ok = False
      taus = taus * fac.reshape(-1)
    sel = np.ones(diff.shape, bool) if (select is None or select[li] is None) else np.broadcast_to(select[li], diff.shape)
    M = diff.M.tocsr(); M.sum_duplicates()
    dm = diff.mass().reshape(-1)
    worst = max(worst, float(np.where(sel.reshape(-1), dm, 0.0).max(initial=0.0)) / (S if S > 0 else 1.0))
    rows = []
    selflat = sel.reshape(-1)
    cand = np.nonzero(selflat & (dm > 0))[0]
    cand = cand[np.argsort(-dm[cand], kind='stable')]       # heaviest residual rows first
    for rid in cand:
      s, e = M.indptr[rid], M.indptr[rid + 1]
      const, cols, vals, slack, L, H = _row_query_terms(sp, M.indices[s:e], M.data[s:e], taus[rid])
      rows.append((int(rid), const, cols, vals, slack, float(taus[rid]), L, H))
    nrows += int(selflat.sum())
    bounds_ = [0, 1, 9] + list(range(9 + batch, len(rows) + batch, batch))
    n_unknown = 0
    for i, j in zip(bounds_[:-1], bounds_[1:]):
      chunk = rows[i:j]
      if not chunk:
        break
      text, ycols = _lra_batch(sp, chunk)
      verdict, model = smt.check_text(text, 'QF_LRA', want_model=True)
      nq += 1
      if verdict == 'unsat':
        continue
      if verdict != 'sat':
        ctx.res['inconclusive'].append(dict(clause=name, leaf=li, verdict=verdict))
        ctx.clause(name, 'inconclusive', config=config, leaf=li)
        if core:
          ctx.error(name, f'solver verdict {verdict}')
        ok = False
        n_unknown += 1
        if n_unknown >= 2:
          break             # the clause is inconclusive already; do not spend the pool budget on further undecided batches
        continue
      # sat: which rows?
      import z3
      bad = [r for r in chunk if z3.is_true(model.eval(z3.Bool(f'b{r[0]}'), model_completion=True))]
      for r in bad[:3]:
        rid = r[0]
        s, e = M.indptr[rid], M.indptr[rid + 1]
        cols_all, vals_all = M.indices[s:e], M.data[s:e]
        x = _find_witness(sp, cols_all, vals_all, float(taus[rid]), ctx.rng)
        if x is not None and getattr(sp, 'int_vars', None):
          x = sp.complete_point(sp.round_int_vars(x))
        if x is None:
          ctx.error(name, f'abstraction sat but no concrete witness (leaf {li}, element {rid}, mass {dm[rid]:.3e}, tau {tau:.3e})')
          ok = False
          continue
        if fn is None:
          ctx.error(name, f'identity fails at leaf {li} element {rid}: residual {abs(_poly_value(sp, cols_all, vals_all, x)):.3e} > tol {float(taus[rid]):.3e} '
                          f'at {dict((sp.names[i], round(float(x[i]), 6)) for i in range(min(len(x), 16)))} (no replay function for this clause)')
          ok = False
          continue
        rep = replay_point(fn, args, sp, x, li, rid, has_rhs=(b is not None))
        if rep['discrepancy'] > max(tau, 0.0) * 0.5 and rep['discrepancy'] > 0:
          idx = np.unravel_index(rid, diff.shape)
          sig = dict(config=config, leaf=li, index=[int(v) for v in idx],
                     termvars=_term_vars(sp, cols_all, vals_all, float(taus[rid])))
          ctx.violation(name, sig, dict(inputs=rep['inputs'], lhs=rep['lhs'], rhs=rep['rhs'],
                                        discrepancy=rep['discrepancy'], tolerance=tau, scale=S),
                        f'{name}: |lhs-rhs|={rep["discrepancy"]:.3e} > tol {tau:.3e} at leaf {li} index {tuple(int(v) for v in idx)}')
          ok = False
        else:
          ctx.error(name, f'counterexample did not replay (leaf {li}, element {rid}: model {abs(_poly_value(sp, cols_all, vals_all, x)):.3e}, real {rep["discrepancy"]:.3e}, tol {tau:.3e})')
          ok = False
      if bad:
        break
    # vacuity twin: perturb the oracle by a relative 1e-6 -> must be sat
    if twin and not twin_done and ok and not exact:
      ref = a_sym
      if b is not None and float(mb.max(initial=0.0)) > float(ma.max(initial=0.0)):
        ref = b_sym
      mref = ref.mass().reshape(-1) * selflat
      if mref.max(initial=0.0) > 2e-3 * S and S > 0:
        rid = int(np.argmax(mref))
        tw = diff.add(ref.scale(1e-6))
        Mt = tw.M.tocsr(); Mt.sum_duplicates()
        s, e = Mt.indptr[rid], Mt.indptr[rid + 1]
        const, cols, vals, slack, L, H = _row_query_terms(sp, Mt.indices[s:e], Mt.data[s:e], tau)
        # twin must be satisfiable for the TRUE residual: dropped terms are bounded by `slack`, so ask the kept terms to exceed tau + slack
        if len(cols) > 4000:
          # very large rows: exhibit a concrete witness point instead (evaluated on the normal form) and let the solver confirm the ground fact
          verdict = 'unknown'
          for _ in range(20):
            xv = sp.random_point(ctx.rng)
            val = float(tw.evaluate(xv).reshape(-1)[rid])
            if abs(val) > tau:
              text = f'(assert (or (> {smt.rat(val)} {smt.rat(tau)}) (< {smt.rat(val)} {smt.rat(-tau)})))'
              verdict, _ = smt.check_text(text, 'QF_LRA', sample=False, tag='(vacuity-twin)')
              break
        else:
          text, _ = _lra_batch(sp, [(rid, const, cols, vals, 0.0, tau + slack, L, H)])
          verdict, _ = smt.check_text(text, 'QF_LRA', sample=False, tag='(vacuity-twin)')
        if verdict != 'sat':
          ctx.error(name, f'vacuity twin not sat ({verdict}) — harness cannot see a 1e-6 perturbation')
          ok = False
        else:
          ctx.res['twins']['sat'] += 1
        twin_done = True
  if twin and not twin_done and not exact:
    ctx.res['twins']['skipped'] += 1
  ctx.clause(name, 'discharged' if ok else 'failed', config=config, queries=nq, elements=nrows,
             worst_rel_mass=worst, wall=time.time() - t0, nvars=sp.nvars, prims=dict(it.sym_prims))
  return ok


def _term_vars(sp, cols, vals, tau):
  """Variable base names of each significant term (|coef| * bound > tau/len) of a residual row."""
  nz = vals != 0
  cols = cols[nz]; vals = vals[nz]
  if not len(cols):
    return []
  L, H = sp.mono_bounds(cols)
  mag = np.abs(vals) * np.maximum(np.abs(L), np.abs(H))
  keep = mag > max(tau, 0.0) / max(len(cols), 1)
  out = set()
  for c in cols[keep][:2000]:
    s = sp.slots(sp.codes[c:c + 1])[0]
    out.add(tuple(sorted({sp.names[v - 1].split('[')[0] for v in s if v})))
  return [list(t) for t in sorted(out)][:50]


def replay_point(fn, args, sp, x, leaf, rid, has_rhs=True):
  """Run the real jitted function at the concrete point x; return discrepancy at (leaf, rid)."""
  conc = concretise(args, x, sp)
  out = jax.jit(fn)(*conc)
  if has_rhs:
    l = jax.tree_util.tree_leaves(out[0])[leaf]
    r = jax.tree_util.tree_leaves(out[1])[leaf]
    lv = float(np.asarray(l).reshape(-1)[rid]); rv = float(np.asarray(r).reshape(-1)[rid])
  else:
    l = jax.tree_util.tree_leaves(out)[leaf]
    lv = float(np.asarray(l).reshape(-1)[rid]); rv = 0.0
  d = abs(lv - rv)
  if not np.isfinite(d):
    d = float('inf')
  return dict(inputs=[c.tolist() for c in conc], lhs=lv, rhs=rv, discrepancy=d)


# ---------------------------------------------------------------------------
# running tasks in parallel and writing evidence

def _worker(modname, task, pid, seed, tier):
  import importlib
  mod = importlib.import_module(modname)
  ctx = Ctx(pid, task['name'], seed=seed, tier=tier)
  try:
    getattr(mod, task['fn'])(ctx, **task.get('kw', {}))
  except (HarnessError, smt.SolverError) as e:
    ctx.error(task['name'], f'{type(e).__name__}: {e}')
  except Exception as e:  # noqa: BLE001
    ctx.error(task['name'], 'exception: ' + ''.join(traceback.format_exception_only(type(e), e)).strip()
              + ' @ ' + traceback.format_exc().strip().splitlines()[-3].strip())
  return ctx.finish()


def run_tasks(modname, tasks, pid, seed, tier, jobs=None):
  import concurrent.futures as cf
  import multiprocessing as mp
  jobs = jobs or min(len(tasks), max(1, (os.cpu_count() or 4) - 2))
  if os.environ.get('DVERIF_SERIAL') or jobs <= 1 or len(tasks) == 1:
    return [_worker(modname, t, pid, seed, tier) for t in tasks]
  ctxm = mp.get_context('spawn')
  results = [None] * len(tasks)
  # wall budget of the whole pool: a task that does not finish is reported as a harness error (exit 2), never as success
  budget = float(os.environ.get('DVERIF_POOL_TIMEOUT', '1500' if tier == 'quick' else '14400'))
  ex = cf.ProcessPoolExecutor(max_workers=jobs, mp_context=ctxm)
  try:
    futs = {ex.submit(_worker, modname, t, pid, seed, tier): i for i, t in enumerate(tasks)}
    done, pending = cf.wait(futs, timeout=budget)
    for fu in done:
      i = futs[fu]
      try:
        results[i] = fu.result()
      except Exception as e:  # noqa: BLE001
        r = new_result(tasks[i]['name'])
        r['errors'].append(dict(clause=tasks[i]['name'], message=f'worker crashed: {e!r}'))
        results[i] = r
    for fu in pending:
      i = futs[fu]
      r = new_result(tasks[i]['name'])
      r['errors'].append(dict(clause=tasks[i]['name'], message=f'task did not finish within the pool budget of {budget:.0f} s (inconclusive)'))
      results[i] = r
    if pending:
      for p_ in list(getattr(ex, '_processes', {}).values()):
        try:
          p_.kill()
        except Exception:  # noqa: BLE001
          pass
  finally:
    ex.shutdown(wait=False, cancel_futures=True)
  return results


def load_known():
  p = os.path.join(VERIF, 'known_findings.json')
  if not os.path.exists(p):
    return []
  with open(p) as f:
    return json.load(f).get('findings', [])


def match_known(pid, viol, known):
  """A violation matches a known finding iff every key of its `match` dict matches."""
  import re
  for k in known:
    if k.get('property') != pid or k.get('kind') != 'known':
      continue
    m = k.get('match', {})
    blob = dict(clause=viol['clause'], task=viol.get('task', ''))
    sig = viol.get('signature', {})
    cfg = sig.get('config', {}) if isinstance(sig, dict) else {}
    flat = {**{f'config.{a}': b for a, b in cfg.items()}, **blob,
            **{f'sig.{a}': b for a, b in (sig.items() if isinstance(sig, dict) else [])}}
    okm = True
    if 'every_term_has' in k:
      tv = sig.get('termvars') if isinstance(sig, dict) else None
      if not tv or not all(any(re.fullmatch(k['every_term_has'], v) for v in term) for term in tv):
        continue
    for key, pat in m.items():
      v = flat.get(key)
      if v is None or not re.fullmatch(str(pat), str(v)):
        okm = False
        break
    if okm:
      return k
  return None


def finalize(pid, tier, seed, results, t0, *, level='other', explanation='', bounds=None,
             assumptions=None, trusted=None, outside=None, extra=None):
  """Merge task results, write evidence, print verdict lines, return exit code."""
  known = load_known()
  stats = smt.Stats()
  clauses = []; violations = []; errors = []; functions = []
  nval = 0; maxerr = 0.0; twins = dict(sat=0, skipped=0); inconcl = []
  for r in results:
    if r.get('stats'):
      stats.merge(r['stats'])
    for c in r['clauses']:
      c = dict(c); c['task'] = r['task']; clauses.append(c)
    for v in r['violations']:
      v = dict(v); v['task'] = r['task']; violations.append(v)
    for e in r['errors']:
      e = dict(e); e['task'] = r['task']; errors.append(e)
    for f in r['functions']:
      if f not in functions:
        functions.append(f)
    nval += r['validations']; maxerr = max(maxerr, r['max_validation_err'])
    twins['sat'] += r['twins']['sat']; twins['skipped'] += r['twins']['skipped']
    inconcl.extend(r['inconclusive'])
  new_viol = []; known_hits = []
  for v in violations:
    k = match_known(pid, v, known)
    if k is not None:
      known_hits.append((k, v))
    else:
      new_viol.append(v)
  seen = set()
  for k, v in known_hits:
    if k['id'] in seen:
      continue
    seen.add(k['id'])
    print(f"KNOWN-FINDING: property={pid} {k['id']}: {k['what']}")
  for v in new_viol:
    print(f"VIOLATION property={pid} replay={v['replay']}")
    print('  ' + v['message'])
  for e in errors:
    print(f"HARNESS-ERROR property={pid} task={e['task']} clause={e['clause']}: {e['message']}", file=sys.stderr)
  nob = len(clauses)
  ndis = sum(1 for c in clauses if c['status'] == 'discharged')
  distinct = len({(c['task'], c['name'], json.dumps(c.get('config', {}), sort_keys=True, default=str)) for c in clauses
                  if c.get('queries', 1) > 0 or c.get('elements', 0) > 0})
  solver_decided = sum(1 for c in clauses if c.get('queries', 0) > 0)
  cov = dict(
      explanation=explanation,
      obligations=nob, discharged=ndis,
      evaluations=stats.total(), distinct_nontrivial=distinct,
      rule='one obligation = one clause of the property on one configuration over symbolic inputs; distinct = distinct '
           '(task, clause, configuration); non-trivial = it constrained at least one output element / issued at least one solver query '
           '(obligations whose symbolic residual is identically zero need no query: see solver_decided_obligations)',
      solver_decided_obligations=solver_decided,
      samples=stats.samples[:3] or [c for c in clauses[:2]],
      queries_by_logic=stats.by_logic, solver_time_s=round(stats.time, 3), slowest_queries_s=[list(x) for x in stats.slowest],
      solver_cross_checks=stats.cross[:8], solver_cross_check_count=len(stats.cross),
      functions_encoded=functions,
      bounds=bounds or {},
      outside_claim=outside or [],
      translator_validations=nval, translator_max_rel_err=maxerr,
      vacuity_twins=twins,
      inconclusive=inconcl,
      known_findings_reported=sorted(seen),
      clauses=[{k: v for k, v in c.items() if k != 'prims'} for c in clauses][:400],
      task_wall_s={r['task']: round(r['wall'], 1) for r in results},
      checker_cmd=f'./check {pid} --tier {tier}',
      trusted_base=trusted or [],
      exhaustive=False,
  )
  if extra:
    cov.update(extra)
  ev = dict(property_id=pid, tier=tier, seed=int(seed), level=level, coverage=cov,
            assumptions=assumptions or [], wall_s=round(time.time() - t0, 2), violations=len(new_viol))
  os.makedirs(EVID, exist_ok=True)
  with open(os.path.join(EVID, f'{pid}.json'), 'w') as f:
    json.dump(ev, f, indent=1, default=_json_default)
  if new_viol:
    code = 1
  elif errors:
    code = 2
  else:
    code = 0
  slow = sorted(((round(r['wall'], 1), r['task']) for r in results), reverse=True)[:3]
  print('slowest tasks:', slow, 'slowest queries:', stats.slowest[:3])
  print(f'{pid} [{tier}] obligations={nob} discharged={ndis} queries={stats.total()} solver_s={stats.time:.1f} '
        f'violations={len(new_viol)} known={len(seen)} errors={len(errors)} wall={time.time() - t0:.1f}s -> exit {code}')
  return code
