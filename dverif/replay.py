"""Replay of a recorded counterexample against the real (jitted) functions of /repo."""
import importlib
import json
import os
import sys


def main(path):
  path = os.path.abspath(path)
  with open(path) as f:
    payload = json.load(f)
  pid = payload['property']
  os.environ['DVERIF_REPLAY'] = path
  os.environ['DVERIF_SERIAL'] = '1'
  sys.path.insert(0, os.path.dirname(os.path.dirname(os.path.abspath(__file__))))
  mod = importlib.import_module(f'checks.{pid.lower()}')
  if hasattr(mod, 'replay'):
    return mod.replay(payload)
  from dverif import harness
  tasks = [t for t in mod.make_tasks('thorough', int(os.environ.get('VERIF_SEED', '0') or 0)) if t['name'] == payload['task']]
  if not tasks:
    tasks = [t for t in mod.make_tasks('quick', int(os.environ.get('VERIF_SEED', '0') or 0)) if t['name'] == payload['task']]
  if not tasks:
    print('replay: task not found:', payload['task'])
    return 2
  res = harness._worker(mod.MOD, tasks[0], pid, 0, 'quick')
  for e in res['errors']:
    print('replay error:', e)
  if res['violations']:
    print(f'REPRODUCED property={pid} clause={payload["clause"]}')
    return 1
  print('not reproduced')
  return 0
