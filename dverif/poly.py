"""Array-level sparse polynomial domain.

A symbolic array `PolyArr` of shape S is a scipy CSR matrix of shape
(prod(S), ncols): row = array element, column = monomial of the shared `Space`
monomial table, value = float64 coefficient.  Affine arrays are the degree <= 1
special case.  Linear primitives are sparse matrix products, products of two
symbolic arrays are vectorised pair expansions.

Monomials are integer coded: `Space.maxdeg` slots of `Space.bits` bits, each slot
holds (variable index + 1) or 0, slots sorted in descending order.
"""
from __future__ import annotations

import math
import numpy as np
import scipy.sparse as sps


class DegreeOverflow(Exception):
  pass


class BlowUp(Exception):
  """The normal form exceeds the monomial budget (reported as a harness error, never as success)."""


class DefinednessHazard(Exception):
  """Raised eagerly (Space.eager_obligations) when an operation that is undefined / non-differentiable on part of the
  box is met: carries the obligation and the atom so that the caller can look for a witness and replay it."""

  def __init__(self, obligation, atom):
    super().__init__(f"{obligation['kind']} obligation on {obligation['atom']} (argument range [{obligation['lo']:.3g}, {obligation['hi']:.3g}])")
    self.obligation = obligation
    self.atom = atom


import os as _os
MAX_MONOMIALS = int(float(_os.environ.get('DVERIF_MAX_MONOMIALS', '12e6')))


class Space:
  """Variables, monomial table, atoms (non-polynomial definitions)."""

  def __init__(self, bits: int = 12, series_var: str | None = None,
               series_order: int | None = None):
    self.bits = bits
    self.maxdeg = 63 // bits
    self.mask = (1 << bits) - 1
    self.names: list[str] = []
    self.lo: list[float] = []
    self.hi: list[float] = []
    # monomial table
    self.codes = np.zeros(1, dtype=np.int64)      # column -> code ; column 0 = 1
    self._sorted_codes = np.zeros(1, dtype=np.int64)
    self._sorted_cols = np.zeros(1, dtype=np.int64)
    self.var_cols: list[int] = []
    # atoms: list of dicts(kind, var, arg PolyArr (1 element) , extra)
    self.atoms: list[dict] = []
    self.atom_index: dict = {}
    # series mode
    self.series_var = None
    self.series_order = series_order
    self._series_name = series_var
    self.obligations: list[dict] = []   # definedness obligations
    self.eager_obligations = False      # raise DefinednessHazard as soon as an obligation is recorded
    self.cleared_obligations: set = set()   # (kind, atom-argument key) of hazards that were examined and found harmless

  # -- variables -----------------------------------------------------------
  @property
  def nvars(self):
    return len(self.names)

  @property
  def ncols(self):
    return len(self.codes)

  def new_vars(self, name: str, n: int, lo=-1.0, hi=1.0) -> np.ndarray:
    """Returns column ids of n fresh variables."""
    start = self.nvars
    if start + n >= self.mask:
      raise DegreeOverflow(f'too many variables for {self.bits} bits')
    lo = np.broadcast_to(np.asarray(lo, float), (n,))
    hi = np.broadcast_to(np.asarray(hi, float), (n,))
    for i in range(n):
      self.names.append(f'{name}[{i}]' if n > 1 else name)
      self.lo.append(float(lo[i]))
      self.hi.append(float(hi[i]))
    codes = np.array([self.var_code(v) for v in range(start + 1, start + n + 1)], dtype=np.int64)
    cols = self.intern(codes)
    self.var_cols.extend(cols.tolist())
    if self._series_name is not None and name == self._series_name:
      self.series_var = start + 1   # slot value
    return cols

  # -- monomial table ------------------------------------------------------
  def intern(self, codes: np.ndarray) -> np.ndarray:
    codes = np.asarray(codes, dtype=np.int64)
    if codes.size == 0:
      return np.zeros(0, dtype=np.int64)
    u, inv = np.unique(codes, return_inverse=True)
    pos = np.searchsorted(self._sorted_codes, u)
    posc = np.minimum(pos, len(self._sorted_codes) - 1)
    found = self._sorted_codes[posc] == u
    ucols = np.empty(len(u), dtype=np.int64)
    ucols[found] = self._sorted_cols[posc[found]]
    nnew = int((~found).sum())
    if nnew:
      newcodes = u[~found]
      newcols = np.arange(len(self.codes), len(self.codes) + nnew, dtype=np.int64)
      ucols[~found] = newcols
      if len(self.codes) + nnew > MAX_MONOMIALS:
        raise BlowUp(f'monomial table would exceed {MAX_MONOMIALS} entries')
      self.codes = np.concatenate([self.codes, newcodes])
      allc = np.concatenate([self._sorted_codes, newcodes])
      allcols = np.concatenate([self._sorted_cols, newcols])
      o = np.argsort(allc, kind='stable')
      self._sorted_codes = allc[o]
      self._sorted_cols = allcols[o]
    return ucols[inv.reshape(-1)]

  def slots(self, codes: np.ndarray) -> np.ndarray:
    """(n, maxdeg) array of slot values (descending, 0 = empty)."""
    codes = np.asarray(codes, dtype=np.int64)
    out = np.empty((len(codes), self.maxdeg), dtype=np.int64)
    for k in range(self.maxdeg):
      out[:, k] = (codes >> (self.bits * (self.maxdeg - 1 - k))) & self.mask
    return out

  def var_code(self, v: int) -> np.int64:
    """Code of the monomial consisting of the single variable with slot value v (= index + 1)."""
    return np.int64(v) << (self.bits * (self.maxdeg - 1))

  def pack(self, slots: np.ndarray) -> np.ndarray:
    code = np.zeros(slots.shape[0], dtype=np.int64)
    if slots.shape[1] < self.maxdeg:
      slots = np.pad(slots, [(0, 0), (0, self.maxdeg - slots.shape[1])])
    for k in range(self.maxdeg):
      code |= slots[:, k].astype(np.int64) << (self.bits * (self.maxdeg - 1 - k))
    return code

  def mono_product(self, ca: np.ndarray, cb: np.ndarray):
    """Codes of products; returns (codes, keep_mask)."""
    sa = self.slots(ca)
    sb = self.slots(cb)
    s = np.concatenate([sa, sb], axis=1)
    s = -np.sort(-s, axis=1)
    keep = np.ones(len(s), dtype=bool)
    over = s[:, self.maxdeg:].any(axis=1) if s.shape[1] > self.maxdeg else np.zeros(len(s), bool)
    if self.series_var is not None and self.series_order is not None:
      hdeg = (s == self.series_var).sum(axis=1)
      drop = hdeg > self.series_order
      keep &= ~drop
      over &= ~drop
    if over.any():
      raise DegreeOverflow('monomial degree exceeds %d' % self.maxdeg)
    return self.pack(s[:, :self.maxdeg]), keep

  def degree(self, cols=None) -> np.ndarray:
    codes = self.codes if cols is None else self.codes[cols]
    return (self.slots(codes) != 0).sum(axis=1)

  def mono_str(self, col: int) -> str:
    s = self.slots(self.codes[col:col + 1])[0]
    names = [self.names[v - 1] for v in s if v]
    return '*'.join(names) if names else '1'

  # -- evaluation -----------------------------------------------------------
  def mono_values(self, x: np.ndarray, ncols=None) -> np.ndarray:
    """Values of all monomials at variable assignment x (len nvars)."""
    ncols = self.ncols if ncols is None else ncols
    xs = np.concatenate([[1.0], np.asarray(x, dtype=float)])
    s = self.slots(self.codes[:ncols])
    return np.prod(xs[s], axis=1)

  def mono_bounds(self, cols: np.ndarray):
    """Interval [lo, hi] of each monomial over the variable box."""
    lo = np.asarray(self.lo)
    hi = np.asarray(self.hi)
    cols = np.asarray(cols)
    s = self.slots(self.codes[cols])
    L = np.ones(len(cols))
    H = np.ones(len(cols))
    for k in range(s.shape[1]):
      v = s[:, k]
      active = v != 0
      if not active.any():
        break
      is_start = active if k == 0 else (active & (s[:, k - 1] != v))
      idx = np.nonzero(is_start)[0]
      if not len(idx):
        continue
      ee = (s[idx] == v[idx, None]).sum(axis=1)
      vl = lo[v[idx] - 1]
      vh = hi[v[idx] - 1]
      with np.errstate(all='ignore'):
        pl = vl ** ee
        ph = vh ** ee
      plo = np.minimum(pl, ph)
      phi = np.maximum(pl, ph)
      even = (ee % 2 == 0)
      straddle = (vl < 0) & (vh > 0)
      plo = np.where(even & straddle, 0.0, plo)
      with np.errstate(all='ignore'):
        cands = np.stack([L[idx] * plo, L[idx] * phi, H[idx] * plo, H[idx] * phi])
      cands = np.where(np.isnan(cands), 0.0, cands)
      L[idx] = cands.min(axis=0)
      H[idx] = cands.max(axis=0)
    return L, H

  def col_bounds(self):
    """(L, H) for every monomial column; cached and extended incrementally (variable boxes are
    fixed at creation, so bounds of existing monomials never change)."""
    c = getattr(self, '_cb', None)
    n0 = 0 if c is None else len(c[0])
    if n0 < self.ncols:
      l, h = self.mono_bounds(np.arange(n0, self.ncols))
      if c is None:
        c = (l, h)
      else:
        c = (np.concatenate([c[0], l]), np.concatenate([c[1], h]))
      self._cb = c
    return c

  def random_point(self, rng: np.random.Generator) -> np.ndarray:
    """Random assignment of the non-atom variables inside the box, atoms evaluated."""
    lo = np.asarray(self.lo)
    hi = np.asarray(self.hi)
    with np.errstate(all='ignore'):
      x = lo + (hi - lo) * rng.random(len(lo))
    for a in self.atoms:
      x[a['var']] = 0.0
    return self.complete_point(self.round_int_vars(x))

  def round_int_vars(self, x):
    """Variables of arrays declared with an integer storage dtype (harness.with_dtype) take integer values."""
    iv = getattr(self, 'int_vars', None)
    if iv:
      idx = np.fromiter(iv, dtype=np.int64)
      x = np.array(x, dtype=float)
      x[idx] = np.rint(x[idx])
    return x

  def complete_point(self, x: np.ndarray) -> np.ndarray:
    x = np.array(x, dtype=float)
    for a in self.atoms:
      arg = a['arg'].evaluate(x)
      x[a['var']] = a['fn'](arg.reshape(-1)[0]) if a['arg'].size == 1 else a['fn'](arg)
    return x


class ExpSpace(Space):
  """Monomial coding by exponent vectors (few variables, high degree): `ebits` bits per variable.
  The product of monomials is the sum of their codes."""

  def __init__(self, ebits: int = 4, series_var=None, series_order=None):
    super().__init__(bits=ebits, series_var=series_var, series_order=series_order)
    self.ebits = ebits
    self.maxvars = 63 // ebits
    self.emax = (1 << ebits) - 1
    self.maxdeg = 10 ** 9          # not a limit in this coding
    self.mask = 10 ** 9

  def new_vars(self, name, n, lo=-1.0, hi=1.0):
    if self.nvars + n > self.maxvars:
      raise DegreeOverflow(f'ExpSpace holds at most {self.maxvars} variables')
    return super().new_vars(name, n, lo, hi)

  def var_code(self, v):
    return np.int64(1) << (self.ebits * (int(v) - 1))

  def exponents(self, codes):
    codes = np.asarray(codes, dtype=np.int64)
    nv = max(self.nvars, 1)
    out = np.empty((len(codes), nv), dtype=np.int64)
    for i in range(nv):
      out[:, i] = (codes >> (self.ebits * i)) & self.emax
    return out

  def slots(self, codes):
    e = self.exponents(codes)
    n, nv = e.shape
    width = int(max(e.sum(axis=1).max(initial=0), 1))
    out = np.zeros((n, width), dtype=np.int64)
    pos = np.zeros(n, dtype=np.int64)
    rows = np.arange(n)
    for v in range(nv - 1, -1, -1):
      ev = e[:, v]
      for j in range(int(ev.max(initial=0))):
        m = ev > j
        out[rows[m], pos[m]] = v + 1
        pos[m] += 1
    return out

  def pack(self, slots):
    code = np.zeros(slots.shape[0], dtype=np.int64)
    for v in range(self.nvars):
      cnt = (slots == v + 1).sum(axis=1).astype(np.int64)
      if cnt.max(initial=0) > self.emax:
        raise DegreeOverflow('exponent overflow')
      code |= cnt << (self.ebits * v)
    return code

  def mono_product(self, ca, cb):
    ea = self.exponents(ca); eb = self.exponents(cb)
    es = ea + eb
    keep = np.ones(len(es), dtype=bool)
    if self.series_var is not None and self.series_order is not None:
      keep &= es[:, self.series_var - 1] <= self.series_order
    if (es[keep] > self.emax).any():
      raise DegreeOverflow(f'exponent exceeds {self.emax}')
    return np.asarray(ca, dtype=np.int64) + np.asarray(cb, dtype=np.int64), keep

  def degree(self, cols=None):
    codes = self.codes if cols is None else self.codes[cols]
    return self.exponents(codes).sum(axis=1)

  def mono_values(self, x, ncols=None):
    ncols = self.ncols if ncols is None else ncols
    e = self.exponents(self.codes[:ncols])
    xv = np.asarray(x, dtype=float)[None, :e.shape[1]]
    with np.errstate(all='ignore'):
      return np.prod(np.where(e > 0, xv ** e, 1.0), axis=1)


def _csr(m):
  m = m.tocsr() if not sps.isspmatrix_csr(m) else m
  return m


class PolyArr:
  """Symbolic array: CSR (elements x monomial columns)."""
  __slots__ = ('shape', 'M', 'sp')
  __array_priority__ = 1000

  def __init__(self, shape, M, sp: Space):
    self.shape = tuple(int(s) for s in shape)
    self.M = M
    self.sp = sp
    assert M.shape[0] == self.size, (M.shape, shape)

  # -- constructors --------------------------------------------------------
  @staticmethod
  def const(arr, sp: Space) -> 'PolyArr':
    arr = np.asarray(arr, dtype=float)
    flat = arr.reshape(-1)
    nz = np.nonzero((flat != 0) | np.isnan(flat))[0]
    M = sps.csr_matrix((flat[nz], (nz, np.zeros(len(nz), dtype=np.int64))),
                       shape=(flat.size, sp.ncols))
    return PolyArr(arr.shape, M, sp)

  @staticmethod
  def variables(sp: Space, name: str, shape, lo=-1.0, hi=1.0, free=None, fixed=None) -> 'PolyArr':
    """Array whose `free` entries are fresh variables, others `fixed` constants (default 0)."""
    shape = tuple(shape)
    n = int(np.prod(shape, dtype=int))
    free = np.ones(shape, bool) if free is None else np.broadcast_to(np.asarray(free, bool), shape)
    ff = free.reshape(-1)
    idx = np.nonzero(ff)[0]
    lo_a = np.broadcast_to(np.asarray(lo, float), shape).reshape(-1)[idx]
    hi_a = np.broadcast_to(np.asarray(hi, float), shape).reshape(-1)[idx]
    cols = sp.new_vars(name, len(idx), lo_a, hi_a)
    rows = idx
    vals = np.ones(len(idx))
    if fixed is not None:
      fx = np.broadcast_to(np.asarray(fixed, float), shape).reshape(-1)
      fidx = np.nonzero((~ff) & (fx != 0))[0]
      rows = np.concatenate([rows, fidx])
      cols = np.concatenate([cols, np.zeros(len(fidx), dtype=np.int64)])
      vals = np.concatenate([vals, fx[fidx]])
    M = sps.csr_matrix((vals, (rows, cols)), shape=(n, sp.ncols))
    return PolyArr(shape, M, sp)

  # -- basic properties ----------------------------------------------------
  @property
  def size(self):
    return int(np.prod(self.shape, dtype=int))

  @property
  def ndim(self):
    return len(self.shape)

  @property
  def dtype(self):
    return np.dtype(np.float64)

  def _aligned(self):
    M = self.M
    if M.shape[1] < self.sp.ncols:
      M.resize((M.shape[0], self.sp.ncols))
    return M

  def reshape(self, shape):
    shape = tuple(shape)
    if -1 in shape:
      known = -int(np.prod(shape, dtype=int))
      shape = tuple(self.size // known if s == -1 else s for s in shape)
    return PolyArr(shape, self.M, self.sp)

  def take(self, idx: np.ndarray) -> 'PolyArr':
    idx = np.asarray(idx)
    M = _csr(self._aligned())[idx.reshape(-1)]
    return PolyArr(idx.shape, M, self.sp)

  @staticmethod
  def pool(parts, sp: Space) -> 'PolyArr':
    ms = []
    for p in parts:
      if not isinstance(p, PolyArr):
        p = PolyArr.const(p, sp)
      ms.append(_csr(p._aligned()))
    for m in ms:
      if m.shape[1] < sp.ncols:
        m.resize((m.shape[0], sp.ncols))
    M = sps.vstack(ms, format='csr') if len(ms) > 1 else ms[0]
    return PolyArr((M.shape[0],), M, sp)

  def linmap(self, L, out_shape) -> 'PolyArr':
    """out = L @ self (L sparse, nout x size)."""
    return PolyArr(out_shape, _csr(L @ _csr(self._aligned())), self.sp)

  # -- arithmetic ----------------------------------------------------------
  def _coerce(self, other):
    if isinstance(other, PolyArr):
      return other
    return PolyArr.const(np.broadcast_to(np.asarray(other, dtype=float), self.shape), self.sp)

  def _bcast(self, shape):
    if self.shape == tuple(shape):
      return self
    idx = np.broadcast_to(np.arange(self.size).reshape(self.shape), shape)
    return self.take(idx)

  def add(self, other, sign=1.0):
    if not isinstance(other, PolyArr):
      o = np.asarray(other, dtype=float)
      shape = np.broadcast_shapes(self.shape, o.shape)
      a = self._bcast(shape)
      b = PolyArr.const(np.broadcast_to(o, shape), self.sp)
    else:
      shape = np.broadcast_shapes(self.shape, other.shape)
      a = self._bcast(shape)
      b = other._bcast(shape)
    Ma = _csr(a._aligned())
    Mb = _csr(b._aligned())
    if Ma.shape[1] != Mb.shape[1]:
      n = max(Ma.shape[1], Mb.shape[1])
      Ma.resize((Ma.shape[0], n)); Mb.resize((Mb.shape[0], n))
    return PolyArr(shape, _csr(Ma + Mb if sign > 0 else Ma - Mb), self.sp)

  def __add__(self, o): return self.add(o)
  __radd__ = __add__
  def __sub__(self, o): return self.add(o, -1.0)
  def __rsub__(self, o): return self.neg().add(o)
  def __neg__(self): return self.neg()

  def neg(self):
    return PolyArr(self.shape, -self.M, self.sp)

  def scale(self, c) -> 'PolyArr':
    """Elementwise product with a concrete array."""
    c = np.asarray(c, dtype=float)
    shape = np.broadcast_shapes(self.shape, c.shape)
    a = self._bcast(shape)
    cf = np.broadcast_to(c, shape).reshape(-1)
    M = _csr(sps.diags(cf) @ _csr(a._aligned())) if cf.size else a.M
    return PolyArr(shape, M, self.sp)

  def mul(self, other):
    if not isinstance(other, PolyArr):
      return self.scale(other)
    shape = np.broadcast_shapes(self.shape, other.shape)
    a = self._bcast(shape)
    b = other._bcast(shape)
    return _poly_mul(a, b)

  def __mul__(self, o): return self.mul(o)
  __rmul__ = __mul__

  def ipow(self, n: int):
    if n == 0:
      return PolyArr.const(np.ones(self.shape), self.sp)
    if n < 0:
      return PolyArr.const(np.ones(self.shape), self.sp).div(self.ipow(-n))
    r = self
    for _ in range(n - 1):
      r = r.mul(self)
    return r

  def div(self, other):
    if not isinstance(other, PolyArr):
      return self.scale(1.0 / np.asarray(other, dtype=float))
    if other.is_const():
      return self.scale(1.0 / other.const_part().reshape(other.shape))
    if self.sp.series_var is not None:
      return self.mul(_series_reciprocal(other))
    return self.mul(atom_apply('recip', other))

  def rdiv(self, num):
    """num / self for concrete num."""
    return PolyArr.const(np.broadcast_to(np.asarray(num, float), self.shape), self.sp).div(self)

  def reduce_sum(self, axes):
    axes = tuple(sorted(a % self.ndim for a in axes))
    ids = np.arange(self.size).reshape(self.shape)
    out_shape = tuple(s for i, s in enumerate(self.shape) if i not in axes)
    out_ids = np.arange(int(np.prod(out_shape, dtype=int))).reshape(out_shape)
    for a in axes:
      out_ids = np.expand_dims(out_ids, a)
    rows = np.broadcast_to(out_ids, self.shape).reshape(-1)
    L = sps.csr_matrix((np.ones(self.size), (rows, ids.reshape(-1))),
                       shape=(int(np.prod(out_shape, dtype=int)), self.size))
    return self.linmap(L, out_shape)

  def cumsum(self, axis, reverse=False):
    axis = axis % self.ndim
    n = self.shape[axis]
    T = np.tril(np.ones((n, n))) if not reverse else np.triu(np.ones((n, n)))
    return self.tensordot_concrete(T, axis)

  def tensordot_concrete(self, T, axis):
    """out[..., i, ...] = sum_k T[i, k] self[..., k, ...] along `axis`."""
    ids = np.arange(self.size).reshape(self.shape)
    n = self.shape[axis]
    m = T.shape[0]
    out_shape = self.shape[:axis] + (m,) + self.shape[axis + 1:]
    out_ids = np.arange(int(np.prod(out_shape, dtype=int))).reshape(out_shape)
    # rows: out element (.., i, ..), cols: in element (.., k, ..)
    oi = np.moveaxis(out_ids, axis, -1)[..., :, None]       # (..., m, 1)
    ii = np.moveaxis(ids, axis, -1)[..., None, :]            # (..., 1, n)
    rows = np.broadcast_to(oi, oi.shape[:-2] + (m, n)).reshape(-1)
    cols = np.broadcast_to(ii, oi.shape[:-2] + (m, n)).reshape(-1)
    vals = np.broadcast_to(T, oi.shape[:-2] + (m, n)).reshape(-1)
    nz = vals != 0
    L = sps.csr_matrix((vals[nz], (rows[nz], cols[nz])), shape=(out_ids.size, self.size))
    return self.linmap(L, out_shape)

  def dot_general(self, other, dims, self_is_lhs: bool):
    """dot_general where `other` is concrete or PolyArr."""
    (lc, rc), (lb, rb) = dims
    if isinstance(other, PolyArr):
      if other.is_const():
        other = other.const_part().reshape(other.shape)
      elif self.is_const():
        c = self.const_part().reshape(self.shape)
        return other.dot_general(c, dims, not self_is_lhs)
      else:
        return _poly_dot(self, other, dims) if self_is_lhs else _poly_dot(other, self, dims)
    A = np.asarray(other, dtype=float)
    if self_is_lhs:
      pc, pb, ac, ab = lc, lb, rc, rb
    else:
      pc, pb, ac, ab = rc, rb, lc, lb
    pc, pb, ac, ab = map(tuple, (pc, pb, ac, ab))
    # transpose A to (B, Fa, C); ids of P to (B, C, Fp)
    a_free = [i for i in range(A.ndim) if i not in ac and i not in ab]
    p_free = [i for i in range(self.ndim) if i not in pc and i not in pb]
    At = np.transpose(A, ab + tuple(a_free) + ac)
    Bshape = tuple(A.shape[i] for i in ab)
    Fa_shape = tuple(A.shape[i] for i in a_free)
    C_shape = tuple(A.shape[i] for i in ac)
    nB = int(np.prod(Bshape, dtype=int)); nFa = int(np.prod(Fa_shape, dtype=int)); nC = int(np.prod(C_shape, dtype=int))
    At = At.reshape(nB, nFa, nC)
    ids = np.arange(self.size).reshape(self.shape)
    It = np.transpose(ids, pb + pc + tuple(p_free))
    Fp_shape = tuple(self.shape[i] for i in p_free)
    nFp = int(np.prod(Fp_shape, dtype=int))
    It = It.reshape(nB, nC, nFp)
    # out index (b, fa, fp) (if poly is rhs) or (b, fp, fa) (if poly is lhs)
    if self_is_lhs:
      out_shape = Bshape + Fp_shape + Fa_shape
      oid = np.arange(nB * nFp * nFa).reshape(nB, nFp, nFa).transpose(0, 2, 1)  # [b, fa, fp]
    else:
      out_shape = Bshape + Fa_shape + Fp_shape
      oid = np.arange(nB * nFa * nFp).reshape(nB, nFa, nFp)
    rows = np.broadcast_to(oid[:, :, None, :], (nB, nFa, nC, nFp))
    cols = np.broadcast_to(It[:, None, :, :], (nB, nFa, nC, nFp))
    vals = np.broadcast_to(At[:, :, :, None], (nB, nFa, nC, nFp))
    nz = (vals != 0).reshape(-1)
    L = sps.csr_matrix((vals.reshape(-1)[nz], (rows.reshape(-1)[nz], cols.reshape(-1)[nz])),
                       shape=(nB * nFa * nFp, self.size))
    return self.linmap(L, out_shape)

  # -- inspection ----------------------------------------------------------
  def is_const(self) -> bool:
    M = _csr(self.M)
    if M.nnz == 0:
      return True
    return bool((M.indices[M.data != 0] == 0).all())

  def const_part(self) -> np.ndarray:
    M = _csr(self.M)
    return np.asarray(M[:, 0].todense()).reshape(-1)

  def evaluate(self, x: np.ndarray) -> np.ndarray:
    M = _csr(self.M)
    vals = self.sp.mono_values(x, M.shape[1])
    return np.asarray(M @ vals).reshape(self.shape)

  def mass(self) -> np.ndarray:
    """Per-element upper bound of |value| over the box: sum |c_k| max|m_k|."""
    M = _csr(self._aligned())
    if not M.has_canonical_format:
      M = M.copy(); M.sum_duplicates()
    L, H = self.sp.col_bounds()
    mx = np.maximum(np.abs(L), np.abs(H))[:M.shape[1]]
    mx = np.where(np.isfinite(mx), mx, 1e300)
    A = abs(M)
    return np.asarray(A @ mx).reshape(self.shape)

  def bounds(self):
    """Per-element interval [lo, hi] of the value over the box (interval arithmetic on the
    normal form)."""
    M = _csr(self._aligned())
    if not M.has_canonical_format:
      M = M.copy(); M.sum_duplicates()
    L, H = self.sp.col_bounds()
    L = L[:M.shape[1]]; H = H[:M.shape[1]]
    P = M.maximum(0); N = M.minimum(0)
    lo = np.asarray(P @ L + N @ H).reshape(self.shape)
    hi = np.asarray(P @ H + N @ L).reshape(self.shape)
    return lo, hi

  def nan_rows(self) -> np.ndarray:
    """Boolean array: elements that are the constant NaN (missing values placed by the harness)."""
    M = _csr(self.M)
    out = np.zeros(self.size, bool)
    bad = np.isnan(M.data)
    if bad.any():
      rows = np.repeat(np.arange(M.shape[0]), np.diff(M.indptr))
      out[np.unique(rows[bad])] = True
    return out.reshape(self.shape)

  def select_rows(self, mask) -> 'PolyArr':
    """Elements where mask is False are replaced by 0."""
    m = np.broadcast_to(np.asarray(mask, bool), self.shape).reshape(-1).astype(float)
    return PolyArr(self.shape, _csr(sps.diags(m) @ _csr(self._aligned())), self.sp)

  def max_degree(self) -> int:
    M = _csr(self.M)
    cols = np.unique(M.indices[M.data != 0])
    return int(self.sp.degree(cols).max()) if len(cols) else 0

  def nnz(self):
    return int(self.M.nnz)

  def row_terms(self, i: int):
    M = _csr(self.M)
    s, e = M.indptr[i], M.indptr[i + 1]
    return M.indices[s:e], M.data[s:e]

  def __repr__(self):
    return f'PolyArr{self.shape}<nnz={self.M.nnz}>'


def _poly_mul(a: PolyArr, b: PolyArr) -> PolyArr:
  sp = a.sp
  Ma = _csr(a._aligned()); Mb = _csr(b._aligned())
  Ma.sum_duplicates(); Mb.sum_duplicates()
  n = Ma.shape[0]
  na = np.diff(Ma.indptr).astype(np.int64)
  nb = np.diff(Mb.indptr).astype(np.int64)
  pairs = na * nb
  total = int(pairs.sum())
  if total == 0:
    return PolyArr(a.shape, sps.csr_matrix((n, sp.ncols)), sp)
  out_rows = []; out_cols = []; out_vals = []
  CH = 4_000_000
  # chunk rows so that pair count per chunk <= CH
  cum = np.concatenate([[0], np.cumsum(pairs)])
  r0 = 0
  while r0 < n:
    r1 = int(np.searchsorted(cum, cum[r0] + CH, side='right'))
    r1 = max(r1 - 1, r0 + 1)
    r1 = min(r1, n)
    p = pairs[r0:r1]
    tot = int(p.sum())
    if tot:
      rows = np.repeat(np.arange(r0, r1), p)
      off = np.repeat(cum[r0:r1] - cum[r0], p)
      k = np.arange(tot, dtype=np.int64) - off
      nbr = np.repeat(nb[r0:r1], p)
      ia = np.repeat(Ma.indptr[r0:r1].astype(np.int64), p) + k // nbr
      ib = np.repeat(Mb.indptr[r0:r1].astype(np.int64), p) + k % nbr
      ca = Ma.indices[ia].astype(np.int64); cb = Mb.indices[ib].astype(np.int64)
      vals = Ma.data[ia] * Mb.data[ib]
      # unique column pairs
      key = ca * np.int64(sp.ncols) + cb
      uk, inv = np.unique(key, return_inverse=True)
      uca = uk // sp.ncols; ucb = uk % sp.ncols
      codes, keep = sp.mono_product(sp.codes[uca], sp.codes[ucb])
      ucols = np.full(len(uk), -1, dtype=np.int64)
      if keep.any():
        ucols[keep] = sp.intern(codes[keep])
      cols = ucols[inv]
      ok = cols >= 0
      out_rows.append(rows[ok]); out_cols.append(cols[ok]); out_vals.append(vals[ok])
    r0 = r1
  rows = np.concatenate(out_rows); cols = np.concatenate(out_cols); vals = np.concatenate(out_vals)
  M = sps.csr_matrix((vals, (rows, cols)), shape=(n, sp.ncols))
  M.sum_duplicates()
  return PolyArr(a.shape, M, sp)


def _poly_dot(a: PolyArr, b: PolyArr, dims) -> PolyArr:
  """dot_general of two symbolic arrays via gather + elementwise mul + reduce."""
  (lc, rc), (lb, rb) = dims
  lc, rc, lb, rb = map(tuple, (lc, rc, lb, rb))
  a_free = [i for i in range(a.ndim) if i not in lc and i not in lb]
  b_free = [i for i in range(b.ndim) if i not in rc and i not in rb]
  ia = np.transpose(np.arange(a.size).reshape(a.shape), lb + tuple(a_free) + lc)
  ib = np.transpose(np.arange(b.size).reshape(b.shape), rb + tuple(b_free) + rc)
  B = tuple(a.shape[i] for i in lb); Fa = tuple(a.shape[i] for i in a_free)
  Fb = tuple(b.shape[i] for i in b_free); C = tuple(a.shape[i] for i in lc)
  nB, nFa, nFb, nC = (int(np.prod(s, dtype=int)) for s in (B, Fa, Fb, C))
  ia = ia.reshape(nB, nFa, 1, nC); ib = ib.reshape(nB, 1, nFb, nC)
  full = (nB, nFa, nFb, nC)
  A = a.take(np.broadcast_to(ia, full)); Bq = b.take(np.broadcast_to(ib, full))
  prod = _poly_mul(A, Bq)
  return prod.reduce_sum((3,)).reshape(B + Fa + Fb)


def _series_reciprocal(d: PolyArr) -> PolyArr:
  """1/d as truncated series in the series variable; requires d = c + O(h), c concrete != 0."""
  sp = d.sp
  N = sp.series_order
  # split: constant-in-h part must be a concrete constant
  M = _csr(d._aligned())
  cols = np.unique(M.indices)
  s = sp.slots(sp.codes[cols])
  hdeg = (s == sp.series_var).sum(axis=1)
  zero_h = cols[hdeg == 0]
  if not set(zero_h.tolist()) <= {0}:
    raise NotImplementedError('series reciprocal: h-free part is not a constant')
  c = d.const_part().reshape(d.shape)
  if np.any(c == 0):
    raise ZeroDivisionError('series reciprocal of a series without constant term')
  e = d.scale(1.0 / c) - np.ones(d.shape)      # d = c (1 + e), e = O(h)
  r = PolyArr.const(np.ones(d.shape), sp)
  term = PolyArr.const(np.ones(d.shape), sp)
  for _ in range(N):
    term = term.mul(e).neg()
    r = r + term
  return r.scale(1.0 / c)


# ---------------------------------------------------------------------------
# atoms: non-polynomial functions of polynomial arguments become fresh variables

_ATOM_FNS = {
    'recip': lambda v: 1.0 / v,
    'exp': np.exp, 'log': np.log, 'sqrt': np.sqrt, 'sin': np.sin, 'cos': np.cos,
    'abs': np.abs, 'rsqrt': lambda v: 1.0 / np.sqrt(v), 'tanh': np.tanh,
    'relu': lambda v: np.maximum(v, 0.0), 'sign': np.sign,
}


def _interval(kind, lo, hi, extra=None):
  if kind == 'recip':
    if lo > 0 or hi < 0:
      return min(1 / lo, 1 / hi), max(1 / lo, 1 / hi)
    return -math.inf, math.inf
  if kind == 'exp':
    return math.exp(lo), math.exp(hi)
  if kind == 'log':
    return (math.log(lo) if lo > 0 else -math.inf), (math.log(hi) if hi > 0 else -math.inf)
  if kind == 'sqrt':
    return math.sqrt(max(lo, 0)), math.sqrt(max(hi, 0))
  if kind == 'rsqrt':
    return (1 / math.sqrt(hi) if hi > 0 else math.inf), (1 / math.sqrt(lo) if lo > 0 else math.inf)
  if kind in ('sin', 'cos', 'tanh', 'sign'):
    return -1.0, 1.0
  if kind == 'abs':
    m = max(abs(lo), abs(hi))
    return (0.0 if lo <= 0 <= hi else min(abs(lo), abs(hi))), m
  if kind == 'relu':
    return max(lo, 0.0), max(hi, 0.0)
  if kind == 'pow':
    if lo <= 0:
      return -math.inf, math.inf
    a, b = lo ** extra, hi ** extra
    return min(a, b), max(a, b)
  raise KeyError(kind)


def atom_apply(kind: str, arg: PolyArr, extra=None) -> PolyArr:
  """Elementwise non-polynomial function: one fresh variable per distinct argument polynomial."""
  sp = arg.sp
  M = _csr(arg._aligned()); M.sum_duplicates()
  n = M.shape[0]
  out_cols = np.zeros(n, dtype=np.int64)
  out_const = np.zeros(n)
  is_const_row = np.zeros(n, bool)
  massv = None
  for i in range(n):
    s, e = M.indptr[i], M.indptr[i + 1]
    cols = M.indices[s:e]; vals = M.data[s:e]
    nzm = vals != 0
    cols = cols[nzm]; vals = vals[nzm]
    o = np.argsort(cols); cols = cols[o]; vals = vals[o]
    if len(cols) == 0 or (len(cols) == 1 and cols[0] == 0):
      v = vals[0] if len(cols) else 0.0
      fn = _ATOM_FNS.get(kind) or (lambda t: t ** extra)
      out_const[i] = fn(v)
      is_const_row[i] = True
      continue
    # look for a matching atom: arguments equal up to a relative 1e-10 of the largest coefficient
    # (terms below 1e-9 of the largest coefficient do not take part in the key)
    big = np.abs(vals) >= 1e-9 * np.abs(vals).max()
    key = (kind, extra, tuple(cols[big].tolist()))
    found = None
    for a in sp.atom_index.get(key, ()):
      if np.all(np.abs(a['keyvals'] - vals[big]) <= 1e-10 * np.abs(vals).max()):
        found = a
        break
    if found is None and kind == 'recip' and getattr(sp, 'normalise_recip_squares', True):
      # 1 / (d * d) = (1 / d)^2: a denominator that is the square of the argument of an existing reciprocal atom (quotient rule in derivative
      # programs) is expressed through that atom, so that the two forms meet in the same symbols
      sqcol = None
      for a in sp.atoms:
        if a['kind'] != 'recip':
          continue
        if 'sq' not in a:
          q_ = a['arg'].mul(a['arg'])
          Mq = _csr(q_._aligned()); Mq.sum_duplicates()
          cq = Mq.indices[Mq.indptr[0]:Mq.indptr[1]]; vq = Mq.data[Mq.indptr[0]:Mq.indptr[1]]
          oq = np.argsort(cq); a['sq'] = (cq[oq], vq[oq])
        cq, vq = a['sq']
        nzq = vq != 0
        cq = cq[nzq]; vq = vq[nzq]
        if len(cq) == len(cols) and np.array_equal(cq, cols) and np.all(np.abs(vq - vals) <= 1e-10 * np.abs(vals).max()):
          v_slot = a['var'] + 1
          sl = np.zeros((1, sp.maxdeg), dtype=np.int64); sl[0, 0] = v_slot; sl[0, 1] = v_slot
          sqcol = int(sp.intern(sp.pack(sl))[0])
          break
      if sqcol is not None:
        out_cols[i] = sqcol
        continue
    if found is None:
      one = PolyArr((1,), M[i], sp)
      Lb, Hb = sp.mono_bounds(cols)
      lo = float(np.sum(np.where(vals > 0, vals * Lb, vals * Hb)))
      hi = float(np.sum(np.where(vals > 0, vals * Hb, vals * Lb)))
      alo, ahi = _interval(kind, lo, hi, extra)
      fn = _ATOM_FNS.get(kind) or (lambda t, p=extra: t ** p)
      name = f'{kind}#{len(sp.atoms)}'
      col = sp.new_vars(name, 1, alo, ahi)[0]
      var_index = sp.nvars - 1
      found = dict(kind=kind, extra=extra, cols=cols.copy(), vals=vals.copy(), arg=one, keyvals=vals[big].copy(),
                   var=var_index, col=col, fn=fn, arg_lo=lo, arg_hi=hi)
      sp.atoms.append(found)
      sp.atom_index.setdefault(key, []).append(found)
      ob = None
      if kind in ('recip',) and lo <= 0 <= hi:
        ob = dict(kind='nonzero', atom=name, lo=lo, hi=hi)
      if kind in ('log', 'rsqrt', 'pow') and lo <= 0:
        ob = dict(kind='positive', atom=name, lo=lo, hi=hi)
      if kind == 'sqrt' and lo < 0:
        ob = dict(kind='nonneg', atom=name, lo=lo, hi=hi)
      if ob is not None:
        sp.obligations.append(ob)
        hkey = (ob['kind'], kind, key[2], tuple(np.round(vals[big] / np.abs(vals).max(), 9).tolist()))
        ob['hkey'] = hkey
        if sp.eager_obligations and hkey not in sp.cleared_obligations:
          raise DefinednessHazard(ob, found)
    out_cols[i] = found['col']
  rows = np.arange(n)
  cols_all = np.where(is_const_row, 0, out_cols)
  vals_all = np.where(is_const_row, out_const, 1.0)
  Mo = sps.csr_matrix((vals_all, (rows, cols_all)), shape=(n, sp.ncols))
  return PolyArr(arg.shape, Mo, sp)


def clear_recip(X: PolyArr, max_rounds: int = 8):
  """Eliminates reciprocal atoms r = 1/d from X by multiplying the rows that contain r with d
  (sound when d != 0 on the box — the caller discharges that obligation).

  Returns (X', factor_bound) where X' has the same zero set as X and factor_bound[i] bounds the
  absolute value of the multiplier applied to row i from BELOW over the box (|p| <= tau follows
  from |p d| <= tau min|d|); 0 if some d is not sign-definite by interval arithmetic.
  """
  sp = X.sp
  fac = np.ones(X.size)
  for _ in range(max_rounds):
    M = _csr(X._aligned()); M.sum_duplicates()
    cols = np.unique(M.indices[M.data != 0])
    if not len(cols):
      break
    slots = sp.slots(sp.codes[cols])
    progressed = False
    for a in sp.atoms:
      if a['kind'] != 'recip':
        continue
      v = a['var'] + 1
      cnt = (slots == v).sum(axis=1)
      if not cnt.any():
        continue
      progressed = True
      hit_cols = cols[cnt > 0]
      # column maps
      is_hit = np.zeros(M.shape[1], bool); is_hit[hit_cols] = True
      # new code with one occurrence of v removed
      hs = sp.slots(sp.codes[hit_cols])
      first = np.argmax(hs == v, axis=1)
      hs2 = hs.copy()
      hs2[np.arange(len(hs2)), first] = 0
      hs2 = -np.sort(-hs2, axis=1)
      newcols = sp.intern(sp.pack(hs2))
      colmap = np.arange(sp.ncols, dtype=np.int64)
      M = _csr(X._aligned())
      coo = M.tocoo()
      hitmask = is_hit[coo.col]
      rows_with = np.zeros(M.shape[0], bool); rows_with[np.unique(coo.row[hitmask])] = True
      lookup = np.zeros(M.shape[1], dtype=np.int64); lookup[hit_cols] = newcols
      # part with r (r removed)
      Mw = sps.csr_matrix((coo.data[hitmask], (coo.row[hitmask], lookup[coo.col[hitmask]])), shape=(M.shape[0], sp.ncols))
      # part without r
      keep = ~hitmask
      Mo = sps.csr_matrix((coo.data[keep], (coo.row[keep], coo.col[keep])), shape=(M.shape[0], sp.ncols))
      Xo = PolyArr((X.size,), Mo, sp)
      d = a['arg']                       # 1-element PolyArr
      sel = sps.diags(rows_with.astype(float))
      Xo_sel = PolyArr((X.size,), _csr(sel @ Mo), sp)
      Xo_rest = PolyArr((X.size,), _csr(sps.diags((~rows_with).astype(float)) @ Mo), sp)
      dd = d.take(np.zeros(X.size, dtype=np.int64))
      Xn = PolyArr((X.size,), Mw, sp).add(Xo_sel.mul(dd)).add(Xo_rest)
      dmin = min(abs(a['arg_lo']), abs(a['arg_hi'])) if a['arg_lo'] * a['arg_hi'] > 0 else 0.0
      fac = np.where(rows_with, fac * dmin, fac)
      X = PolyArr(X.shape, Xn.M, sp)
      break
    if not progressed:
      break
  return X, fac.reshape(X.shape)


def reduce_recip_linear(X: PolyArr, max_rounds: int = 12) -> PolyArr:
  """Canonical form modulo the atom relations r*(alpha + beta*v) = 1 for reciprocal atoms whose
  argument is affine in exactly ONE variable v: every monomial containing both v and r is rewritten
  with  v*r -> (1 - alpha*r)/beta.  (The relations have pairwise coprime leading monomials, hence
  form a Groebner basis: two polynomials equal modulo the relations get the same normal form.)"""
  sp = X.sp
  rules = []
  for a in sp.atoms:
    if a['kind'] != 'recip':
      continue
    cols, vals = a['cols'], a['vals']
    nonconst = [(c, v) for c, v in zip(cols, vals) if c != 0]
    if len(nonconst) != 1:
      continue
    c, beta = nonconst[0]
    s = sp.slots(sp.codes[c:c + 1])[0]
    if (s != 0).sum() != 1:
      continue
    alpha = float(sum(v for cc, v in zip(cols, vals) if cc == 0))
    rules.append((int(s[0]), a['var'] + 1, alpha, float(beta)))
  if not rules:
    return X
  for _ in range(max_rounds):
    M = _csr(X._aligned()); M.sum_duplicates()
    coo = M.tocoo()
    cols = np.unique(coo.col)
    slots = sp.slots(sp.codes[cols])
    changed = False
    for (v, r, alpha, beta) in rules:
      both = (slots == v).any(axis=1) & (slots == r).any(axis=1)
      if not both.any():
        continue
      changed = True
      hit_cols = cols[both]
      hs = slots[both].copy()
      # remove one v and one r
      iv = np.argmax(hs == v, axis=1); hs[np.arange(len(hs)), iv] = 0
      hs_keep_r = -np.sort(-hs, axis=1)                  # rest * r
      ir = np.argmax(hs == r, axis=1); hs[np.arange(len(hs)), ir] = 0
      hs_rest = -np.sort(-hs, axis=1)                    # rest
      c_rest = sp.intern(sp.pack(hs_rest)); c_r = sp.intern(sp.pack(hs_keep_r))
      look_rest = np.full(sp.ncols, -1, dtype=np.int64); look_r = np.full(sp.ncols, -1, dtype=np.int64)
      look_rest[hit_cols] = c_rest; look_r[hit_cols] = c_r
      M = _csr(X._aligned()); coo = M.tocoo()
      is_hit = np.zeros(sp.ncols, bool); is_hit[hit_cols] = True
      h = is_hit[coo.col]
      rows = np.concatenate([coo.row[~h], coo.row[h], coo.row[h]])
      ncol = np.concatenate([coo.col[~h], look_rest[coo.col[h]], look_r[coo.col[h]]])
      data = np.concatenate([coo.data[~h], coo.data[h] / beta, -alpha * coo.data[h] / beta])
      Mn = sps.csr_matrix((data, (rows, ncol)), shape=(M.shape[0], sp.ncols))
      Mn.sum_duplicates()
      X = PolyArr(X.shape, Mn, sp)
      break
    if not changed:
      break
  return X


# ---------------------------------------------------------------------------
# series helpers (designated variable h = Space.series_var)

def h_degree(sp: Space, cols: np.ndarray) -> np.ndarray:
  return (sp.slots(sp.codes[cols]) == sp.series_var).sum(axis=1)


def h_coefficient(P: PolyArr, k: int) -> PolyArr:
  """Coefficient of h^k (a polynomial in the remaining variables)."""
  sp = P.sp
  M = _csr(P._aligned()).tocoo()
  if M.nnz == 0:
    return PolyArr(P.shape, sps.csr_matrix((P.size, sp.ncols)), sp)
  ucols, inv = np.unique(M.col, return_inverse=True)
  s = sp.slots(sp.codes[ucols])
  deg = (s == sp.series_var).sum(axis=1)
  s2 = np.where(s == sp.series_var, 0, s)
  s2 = -np.sort(-s2, axis=1)
  newcols = sp.intern(sp.pack(s2))
  keep = deg[inv] == k
  Mn = sps.csr_matrix((M.data[keep], (M.row[keep], newcols[inv][keep])), shape=(P.size, sp.ncols))
  Mn.sum_duplicates()
  return PolyArr(P.shape, Mn, sp)


def h_integrate(P: PolyArr) -> PolyArr:
  """Formal integral in h from 0: h^k -> h^(k+1)/(k+1); terms beyond the series order are dropped."""
  sp = P.sp
  M = _csr(P._aligned()).tocoo()
  if M.nnz == 0:
    return P
  ucols, inv = np.unique(M.col, return_inverse=True)
  hcode = sp.var_code(sp.series_var)
  codes, keepu = sp.mono_product(sp.codes[ucols], np.full(len(ucols), hcode, dtype=np.int64))
  deg = h_degree(sp, ucols)
  newcols = np.full(len(ucols), -1, dtype=np.int64)
  if keepu.any():
    newcols[keepu] = sp.intern(codes[keepu])
  nc = newcols[inv]
  keep = nc >= 0
  Mn = sps.csr_matrix((M.data[keep] / (deg[inv][keep] + 1), (M.row[keep], nc[keep])), shape=(P.size, sp.ncols))
  Mn.sum_duplicates()
  return PolyArr(P.shape, Mn, sp)


def directional_derivative(P: PolyArr, x_cols: np.ndarray, v_cols: np.ndarray) -> PolyArr:
  """d/d eps P(x + eps v) at eps = 0 for polynomial P: each occurrence of a variable x_i in a monomial is replaced,
  in turn, by v_i (x_cols[i], v_cols[i] are the columns of the single-variable monomials).  Atoms are not differentiated:
  the caller must make sure P contains no atom depending on x."""
  sp = P.sp
  xs = sp.slots(sp.codes[np.asarray(x_cols)])[:, 0]
  vs = sp.slots(sp.codes[np.asarray(v_cols)])[:, 0]
  width = int(max(sp.nvars + 2, xs.max() + 2, vs.max() + 2))
  lut = np.zeros(width, dtype=np.int64)
  lut[xs] = vs
  M = _csr(P._aligned()); M.sum_duplicates()
  coo = M.tocoo()
  ucols, inv = np.unique(coo.col, return_inverse=True)
  s = sp.slots(sp.codes[ucols])
  rows = []; cols = []; vals = []
  for k in range(s.shape[1]):
    hit = lut[s[:, k]] != 0
    if not hit.any():
      continue
    s2 = s[hit].copy()
    s2[:, k] = lut[s2[:, k]]
    s2 = -np.sort(-s2, axis=1)
    newc = np.full(len(ucols), -1, dtype=np.int64)
    newc[hit] = sp.intern(sp.pack(s2))
    nc = newc[inv]
    ok = nc >= 0
    rows.append(coo.row[ok]); cols.append(nc[ok]); vals.append(coo.data[ok])
  if not rows:
    return PolyArr(P.shape, sps.csr_matrix((P.size, sp.ncols)), sp)
  Mn = sps.csr_matrix((np.concatenate(vals), (np.concatenate(rows), np.concatenate(cols))), shape=(P.size, sp.ncols))
  Mn.sum_duplicates()
  return PolyArr(P.shape, Mn, sp)


def partial_derivative(P: PolyArr, var_col: int) -> PolyArr:
  """dP/d(var) for the variable whose single-variable monomial is column var_col (each occurrence in a monomial is removed in turn)."""
  sp = P.sp
  v = int(sp.slots(sp.codes[np.asarray([var_col])])[0, 0])
  M = _csr(P._aligned()); M.sum_duplicates()
  coo = M.tocoo()
  ucols, inv = np.unique(coo.col, return_inverse=True)
  s = sp.slots(sp.codes[ucols])
  rows = []; cols = []; vals = []
  for k in range(s.shape[1]):
    hit = s[:, k] == v
    if not hit.any():
      continue
    s2 = s[hit].copy()
    s2[:, k] = 0
    s2 = -np.sort(-s2, axis=1)
    newc = np.full(len(ucols), -1, dtype=np.int64)
    newc[hit] = sp.intern(sp.pack(s2))
    nc = newc[inv]
    ok = nc >= 0
    rows.append(coo.row[ok]); cols.append(nc[ok]); vals.append(coo.data[ok])
  if not rows:
    return PolyArr(P.shape, sps.csr_matrix((P.size, sp.ncols)), sp)
  Mn = sps.csr_matrix((np.concatenate(vals), (np.concatenate(rows), np.concatenate(cols))), shape=(P.size, sp.ncols))
  Mn.sum_duplicates()
  return PolyArr(P.shape, Mn, sp)


def directional_derivative_with_atoms(P: PolyArr, x_cols: np.ndarray, v_cols: np.ndarray) -> PolyArr:
  """d/d eps P(x + eps v) at eps = 0 when P contains atoms a_k = phi_k(arg_k(x, a_<k)): chain rule
       dP = sum_i dP/dx_i v_i + sum_k dP/da_k * phi_k'(arg_k) * d(arg_k),
  with d(arg_k) computed recursively in creation order.  phi' for exp is the atom itself, for log the reciprocal atom of the argument,
  for pow(y) y * pow(y-1), for recip -a^2, for sqrt 1/(2a), for sin/cos the partner atom.  relu / abs / sign atoms (kinks inside the box)
  are refused."""
  sp = P.sp
  natoms = len(sp.atoms)            # atoms created while differentiating are not themselves differentiated here
  d_atom = {}                       # atom index -> PolyArr (1,) : d a_k
  for k in range(natoms):
    a = sp.atoms[k]
    arg = a['arg']
    darg = directional_derivative(arg, x_cols, v_cols)
    for j in range(k):
      cj = sp.atoms[j]['col']
      pj = partial_derivative(arg, cj)
      if pj.nnz():
        darg = darg.add(pj.mul(d_atom[j]))
    if darg.nnz() == 0:
      d_atom[k] = darg
      continue
    kind = a['kind']
    me = PolyArr((1,), sps.csr_matrix(([1.0], ([0], [a['col']])), shape=(1, sp.ncols)), sp)
    if kind == 'exp':
      fac = me
    elif kind == 'log':
      fac = atom_apply('recip', arg)
    elif kind == 'pow':
      y = float(a['extra'])
      fac = atom_apply('pow', arg, y - 1.0).scale(y) if (y - 1.0) != int(y - 1.0) or abs(y - 1.0) > 8 else arg.ipow(int(y - 1.0)).scale(y)
    elif kind == 'recip':
      fac = me.mul(me).scale(-1.0)
    elif kind == 'sqrt':
      fac = atom_apply('recip', me).scale(0.5)
    elif kind == 'rsqrt':
      fac = me.mul(me).mul(me).scale(-0.5)
    elif kind == 'sin':
      fac = atom_apply('cos', arg)
    elif kind == 'cos':
      fac = atom_apply('sin', arg).scale(-1.0)
    elif kind == 'tanh':
      fac = me.mul(me).scale(-1.0).add(1.0)
    else:
      raise DegreeOverflow(f'directional derivative through a {kind} atom (kink) is not defined')
    d_atom[k] = fac.mul(darg)
  out = directional_derivative(P, x_cols, v_cols)
  for k in range(natoms):
    if d_atom[k].nnz() == 0:
      continue
    pk = partial_derivative(P, sp.atoms[k]['col'])
    if pk.nnz():
      out = out.add(pk.mul(d_atom[k]._bcast(pk.shape) if hasattr(d_atom[k], '_bcast') else d_atom[k]))
  return out


def atom_apply_normalised(kind: str, arg: PolyArr, extra=None) -> PolyArr:
  """atom_apply with the elementary laws of exp / log / pow / relu applied first, so that arguments which differ only by
  an additive constant (exp), a positive factor (relu, pow of an exponential, log of an exponential) map to the SAME atom:
     exp(c + r)      = e^c * EXP(r)
     log(c * EXP(r)) = log c + r                (c > 0)
     (c * EXP(r))^k  = c^k * EXP(k r)           (c > 0)
     relu(s * a)     = s * relu(a)              (s = largest coefficient magnitude > 0)
  Used where two runs must agree under a change of units (C12)."""
  sp = arg.sp
  M = _csr(arg._aligned()); M.sum_duplicates()
  n = M.shape[0]
  exp_atoms = {a['col']: a for a in sp.atoms if a['kind'] == 'exp'}
  parts = []
  for i in range(n):
    s, e = M.indptr[i], M.indptr[i + 1]
    cols = M.indices[s:e]; vals = M.data[s:e]
    nz = vals != 0
    cols = cols[nz]; vals = vals[nz]
    row = PolyArr((1,), M[i], sp)
    if len(cols) == 0 or (len(cols) == 1 and cols[0] == 0):
      parts.append(atom_apply(kind, row, extra)); continue
    if kind == 'exp':
      c0 = float(vals[cols == 0].sum()) if (cols == 0).any() else 0.0
      rest = row.add(-c0) if c0 != 0.0 else row
      parts.append(atom_apply('exp', rest).scale(math.exp(c0))); continue
    if kind in ('log', 'pow') and len(cols) == 1 and cols[0] in exp_atoms and vals[0] > 0:
      a = exp_atoms[cols[0]]
      c = float(vals[0])
      if kind == 'log':
        parts.append(a['arg'].add(math.log(c)))
      else:
        parts.append(atom_apply('exp', a['arg'].scale(float(extra))).scale(c ** float(extra)))
      # rebuild exp atoms index (a new exp atom may have been created)
      exp_atoms = {a_['col']: a_ for a_ in sp.atoms if a_['kind'] == 'exp'}
      continue
    if kind == 'relu':
      sc = float(np.abs(vals).max())
      parts.append(atom_apply('relu', row.scale(1.0 / sc)).scale(sc)); continue
    parts.append(atom_apply(kind, row, extra))
  out = PolyArr.pool(parts, sp)
  return out.reshape(arg.shape)
