"""Lock-step interpretation of `shard_map` bodies.

Inputs are split per device coordinate according to `in_specs`; the body jaxpr is interpreted ONCE per equation for all
devices; `axis_index` is concrete per device; `ppermute`, `all_gather`, `psum` are implemented across the per-device
environments; outputs are re-assembled by `out_specs`.  No XLA partitioner is involved: the verdicts concern the program
dinosaur wrote (collective matmuls, per-shard offsets), not the SPMD compiler."""
from __future__ import annotations

import itertools
import numpy as np

import jax._src.core as _core

from dverif import jsym


def _axes(spec, ndim):
  out = []
  spec = list(spec) + [None] * (ndim - len(spec))
  for s in spec[:ndim]:
    if s is None:
      out.append(())
    elif isinstance(s, tuple):
      out.append(tuple(s))
    else:
      out.append((s,))
  return out


def _norm_spec(s, ndim):
  if isinstance(s, dict):                      # older "names" form: dim -> axis names
    return [tuple(s.get(i, ())) or None for i in range(ndim)]
  return list(s) + [None] * (ndim - len(s))


def _slice_sym(x, sl):
  if jsym.is_sym(x):
    ids = np.arange(x.size).reshape(x.shape)[tuple(sl)]
    return x.reshape((x.size,)).take(ids)
  return np.asarray(x)[tuple(sl)]


def shard_map(interp, params, ins):
  mesh = params['mesh']
  names = list(mesh.axis_names)
  sizes = dict(mesh.shape)
  body = params['jaxpr']
  in_specs = params.get('in_specs') or params.get('in_names')
  out_specs = params.get('out_specs') or params.get('out_names')
  coords = list(itertools.product(*[range(sizes[n]) for n in names]))

  def split(x, spec):
    nd = len(np.shape(x)) if not jsym.is_sym(x) else x.ndim
    shape = np.shape(x) if not jsym.is_sym(x) else x.shape
    axes = _axes(_norm_spec(spec, nd), nd)
    res = {}
    for c in coords:
      cd = dict(zip(names, c)); sl = []
      for d, ax in enumerate(axes):
        if not ax:
          sl.append(slice(None)); continue
        nshard = int(np.prod([sizes[a] for a in ax])); idx = 0
        for a in ax:
          idx = idx * sizes[a] + cd[a]
        if shape[d] % nshard:
          raise jsym.Unsupported(f'shard_map: dimension {d} of size {shape[d]} not divisible by {nshard}')
        blk = shape[d] // nshard
        sl.append(slice(idx * blk, (idx + 1) * blk))
      res[c] = _slice_sym(x, sl)
    return res
  dev_ins = [split(x, s) for x, s in zip(ins, in_specs)]
  jaxpr = body.jaxpr if hasattr(body, 'jaxpr') else body
  consts = body.consts if hasattr(body, 'consts') else ()
  outs = eval_lockstep(interp, jaxpr, consts, dev_ins, coords, names, sizes)
  results = []
  for o, s in zip(outs, out_specs):
    any_blk = next(iter(o.values()))
    bshape = tuple(any_blk.shape) if jsym.is_sym(any_blk) else tuple(np.shape(any_blk))
    axes = _axes(_norm_spec(s, len(bshape)), len(bshape))
    shape = list(bshape)
    for d, ax in enumerate(axes):
      for a in ax:
        shape[d] *= sizes[a]
    symbolic = any(jsym.is_sym(b) for b in o.values())
    # assemble through element ids of a pool of all blocks
    blocks = [o[c] for c in coords]
    if symbolic:
      symb = next(b for b in blocks if jsym.is_sym(b))
      pool = type(symb).pool([b if jsym.is_sym(b) else np.asarray(b, float) for b in blocks], symb.sp)
      ids_full = np.full(shape, -1, dtype=np.int64)
    else:
      full = np.empty(shape, dtype=np.asarray(any_blk).dtype)
    off = 0
    for c, b in zip(coords, blocks):
      cd = dict(zip(names, c)); sl = []
      for d, ax in enumerate(axes):
        if not ax:
          sl.append(slice(None)); continue
        idx = 0
        for a in ax:
          idx = idx * sizes[a] + cd[a]
        sl.append(slice(idx * bshape[d], (idx + 1) * bshape[d]))
      n = int(np.prod(bshape, dtype=int))
      if symbolic:
        ids_full[tuple(sl)] = np.arange(off, off + n).reshape(bshape)
      else:
        full[tuple(sl)] = np.asarray(b)
      off += n
    results.append(pool.take(ids_full) if symbolic else full)
  return results


def _is_sym_any(x):
  return any(jsym.is_sym(v) for v in x.values())


def eval_lockstep(interp, jaxpr, consts, dev_args, coords, names, sizes):
  env = {}

  def read(v):
    if isinstance(v, _core.Literal):
      return {c: np.asarray(v.val) for c in coords}
    return env[v]
  for v, cst in zip(jaxpr.constvars, consts):
    env[v] = {c: (cst if jsym.is_sym(cst) else np.asarray(cst)) for c in coords}
  for v, a in zip(jaxpr.invars, dev_args):
    env[v] = a
  for eqn in jaxpr.eqns:
    ins = [read(v) for v in eqn.invars]
    name = eqn.primitive.name
    p = eqn.params
    if name == 'axis_index':
      ax = p['axis_name']
      ax = ax[0] if isinstance(ax, tuple) else ax
      i = names.index(ax)
      outs = [{c: np.asarray(c[i], dtype=np.int32) for c in coords}]
    elif name == 'ppermute':
      ax = p['axis_name']; ax = ax[0] if isinstance(ax, tuple) else ax
      i = names.index(ax)
      perm = dict((dst, src) for src, dst in p['perm'])
      outs = []
      for x in ins:
        o = {}
        for c in coords:
          if c[i] in perm:
            src = list(c); src[i] = perm[c[i]]
            o[c] = x[tuple(src)]
          else:
            b = x[c]
            o[c] = np.zeros(b.shape if jsym.is_sym(b) else np.shape(b))
        outs.append(o)
    elif name == 'all_gather':
      ax = p['axis_name']; ax = ax[0] if isinstance(ax, tuple) else ax
      i = names.index(ax); dim = p['all_gather_dimension']; tiled = p['tiled']
      x = ins[0]; o = {}
      for c in coords:
        parts = []
        for k in range(sizes[ax]):
          src = list(c); src[i] = k
          parts.append(x[tuple(src)])
        if any(jsym.is_sym(q) for q in parts):
          symb = next(q for q in parts if jsym.is_sym(q))
          pshape = tuple(symb.shape)
          pool = type(symb).pool([q if jsym.is_sym(q) else np.asarray(q, float) for q in parts], symb.sp)
          n = int(np.prod(pshape, dtype=int))
          idl = [np.arange(k * n, (k + 1) * n).reshape(pshape) for k in range(len(parts))]
          ids = np.concatenate(idl, axis=dim) if tiled else np.stack(idl, axis=dim)
          o[c] = pool.take(ids)
        else:
          arrs = [np.asarray(q) for q in parts]
          o[c] = np.concatenate(arrs, axis=dim) if tiled else np.stack(arrs, axis=dim)
      outs = [o]
    elif name == 'psum':
      axs = p['axes']; axs = axs if isinstance(axs, tuple) else (axs,)
      idxs = [names.index(a) for a in axs]
      outs = []
      for x in ins:
        o = {}
        for c in coords:
          acc = None
          for combo in itertools.product(*[range(sizes[a]) for a in axs]):
            src = list(c)
            for i_, k in zip(idxs, combo):
              src[i_] = k
            v = x[tuple(src)]
            if acc is None:
              acc = v
            elif jsym.is_sym(acc):
              acc = acc.add(v)
            elif jsym.is_sym(v):
              acc = v.add(acc)
            else:
              acc = np.asarray(acc) + np.asarray(v)
          o[c] = acc
        outs.append(o)
    elif name in jsym.CALL_PRIMS:
      sub, sconsts = jsym._sub_jaxpr(p)
      n = len(sub.invars)
      outs = eval_lockstep(interp, sub, sconsts, ins[len(ins) - n:], coords, names, sizes)
    elif name == 'scan':
      nc, ncar = jsym._scan_arities(p)
      L = p['length']
      body = p['jaxpr']
      if len(ins) != nc + ncar:
        raise jsym.Unsupported('scanned inputs inside shard_map')
      cs, carry = ins[:nc], ins[nc:]
      nys = len(body.jaxpr.outvars) - ncar
      if nys:
        raise jsym.Unsupported('scan outputs inside shard_map')
      for _ in range(L):
        carry = eval_lockstep(interp, body.jaxpr, body.consts, list(cs) + list(carry), coords, names, sizes)[:ncar]
      outs = list(carry)
    elif name == 'while':
      cn, bn = p['cond_nconsts'], p['body_nconsts']
      cc, bc, carry = ins[:cn], ins[cn:cn + bn], list(ins[cn + bn:])
      cj, bj = p['cond_jaxpr'], p['body_jaxpr']
      for _ in range(10000):
        pred = eval_lockstep(interp, cj.jaxpr, cj.consts, list(cc) + carry, coords, names, sizes)[0]
        vals = {bool(np.asarray(pred[c])) for c in coords}
        if len(vals) != 1:
          raise jsym.Unsupported('divergent while predicate across devices')
        if not vals.pop():
          break
        carry = eval_lockstep(interp, bj.jaxpr, bj.consts, list(bc) + carry, coords, names, sizes)
      outs = carry
    else:
      per = {}
      for c in coords:
        r = interp.apply(eqn.primitive, p, [x[c] for x in ins], eqn)
        per[c] = r if eqn.primitive.multiple_results else [r]
      outs = [{c: per[c][k] for c in coords} for k in range(len(eqn.outvars))]
    for v, o in zip(eqn.outvars, outs):
      env[v] = o
  return [read(v) for v in jaxpr.outvars]
